(* C35 — Printed configuration reads back identically.
   Only statements, [exact], [Check] pins and examples.  The theorems are generic in the option
   table; the table extracted from the current /repo/src/config.rs is checked against them in the
   generated file coq/_cases/C35T/TableOk.v (C35_table_coherent, C35_concrete_roundtrip). *)
From Coq Require Import List NArith ZArith Bool String Ascii.
From RV Require Export C35.Model C35.Spec.
From RV Require Import C35.Proofs.
Import ListNotations.
Local Open Scope string_scope.
Local Open Scope N_scope.

(* For every table whose rows are coherent (printer and reader kinds inverse, every key printed,
   command line range within the reader's range, keys distinct) and every configuration whose
   values lie in the ranges the command line or the file reader can produce, no number above
   i64::MAX: the printed file is accepted and gives back the same configuration. *)
Theorem C35_roundtrip : forall e t vs,
  table_okb false t = true -> conf_dom e t vs = true -> conf_small vs = true ->
  read e t (print_rows t vs) = Some vs.
Proof. exact roundtrip. Qed.

(* With a strictly coherent table (command line numbers never above what TOML can hold) the
   exclusion of large numbers is not needed. *)
Theorem C35_roundtrip_strict : forall e t vs,
  table_okb true t = true -> conf_dom e t vs = true -> read e t (print_rows t vs) = Some vs.
Proof. exact roundtrip_strict. Qed.

(* the command line range of a coherent row lies within the range of the file reader *)
Theorem C35_cli_within_file : forall e r v,
  row_okb false r = true -> cli_dom e r v = true -> val_small v = true -> file_dom e r v = true.
Proof. exact cli_in_file. Qed.

(* the executable oracle used on the implementation's output holds of the model on every input *)
Theorem C35_model_satisfies_spec : forall e t vs,
  table_okb false t = true -> conf_dom e t vs = true -> conf_small vs = true ->
  spec_okb vs (model_obs e t vs) = true.
Proof. exact model_satisfies_spec. Qed.

(* ---- refutations ---- *)
Definition env0 : env := {| e_dir := "/etc"; e_ext := fun _ _ => None; e_nproc := 4 |}.

(* Known class K1 (the code as it is): `--refresh 9223372036854775808` is accepted by the command
   line (u64), to_toml prints i64::MAX, so the property fails although the table is coherent
   outside the class. *)
Definition k1_table : table :=
  [ {| r_key := "refresh"; r_printer := PInt; r_reader := RNum i64max (DN 600); r_cli := CNum u64max |} ].
Theorem C35_refuted : exists e t vs,
  table_okb false t = true /\ conf_dom e t vs = true /\ conf_small vs = false /\
  read e t (print_rows t vs) = Some [VN i64max] /\ spec_okb vs (model_obs e t vs) = false.
Proof. exists env0, k1_table, [VN 9223372036854775808]. vm_compute. repeat split; reflexivity. Qed.

(* The defect of the unfixed code in model form: a key that is read but never printed is not a
   coherent row, and a configuration with the flag set reads back with the flag cleared. *)
Definition unprinted_row : row :=
  {| r_key := "no-rir-tals"; r_printer := PNone; r_reader := RBool false; r_cli := CFlag |}.
Theorem C35_unprinted_key_refuted :
  row_okb false unprinted_row = false /\ cli_dom env0 unprinted_row (VB true) = true /\
  read env0 [unprinted_row] (print_rows [unprinted_row] [VB true]) = Some [VB false].
Proof. vm_compute. repeat split; reflexivity. Qed.

(* A command line range wider than the reader's range is not coherent either
   (`--history 65536` before the fix). *)
Definition wide_row : row :=
  {| r_key := "history-size"; r_printer := PInt; r_reader := RNum 65535 (DN 10); r_cli := CNum u64max |}.
Theorem C35_wide_cli_refuted :
  row_okb false wide_row = false /\ cli_dom env0 wide_row (VN 65536) = true /\
  read env0 [wide_row] (print_rows [wide_row] [VN 65536]) = None.
Proof. vm_compute. repeat split; reflexivity. Qed.

(* ---- non-vacuity: a table with one row of every kind and a non-default configuration ---- *)
Definition pol_names := [("Reject", "reject"); ("Warn", "warn"); ("Accept", "accept")].
Definition pol_tbl := [("reject", "Reject"); ("warn", "Warn"); ("accept", "Accept")].
Definition fac_names := [("LOG_DAEMON", "daemon"); ("LOG_AUTH", "auth")].
Definition fac_tbl := [("log_daemon", "LOG_DAEMON"); ("daemon", "LOG_DAEMON"); ("log_auth", "LOG_AUTH"); ("auth", "LOG_AUTH")].
Definition sample_table : table := [
  {| r_key := "log"; r_printer := PLog "syslog-facility" "log-file" fac_names;
     r_reader := RLog "syslog-facility" "log-file" fac_tbl; r_cli := CLog |};
  {| r_key := "repository-dir"; r_printer := PStr; r_reader := RStr true None; r_cli := CStr true |};
  {| r_key := "strict"; r_printer := PBool; r_reader := RBool false; r_cli := CFlag |};
  {| r_key := "stale"; r_printer := PEnum pol_names; r_reader := REnum false pol_tbl "Reject"; r_cli := CEnum |};
  {| r_key := "limit-v4-len"; r_printer := POptInt; r_reader := ROptNum 32; r_cli := COptNum 32 |};
  {| r_key := "rsync-timeout"; r_printer := PZeroInt; r_reader := RZeroNum i64max (Some 300); r_cli := CZeroNum u64max |};
  {| r_key := "history-size"; r_printer := PInt; r_reader := RNum 65535 (DN 10); r_cli := CNum 65535 |};
  {| r_key := "exceptions"; r_printer := PArr; r_reader := RArr true XNone true; r_cli := CList true XNone |};
  {| r_key := "rsync-args"; r_printer := POptArr; r_reader := ROptArr; r_cli := CNone |};
  {| r_key := "rtr-listen"; r_printer := PArr; r_reader := RArr false XSock false; r_cli := CList false XSock |};
  {| r_key := "user"; r_printer := POptStr; r_reader := ROptStr false XNone; r_cli := COptStr false XNone |};
  {| r_key := "tal-labels"; r_printer := PPairsNE; r_reader := RPairs; r_cli := CNone |};
  {| r_key := "tal-dir"; r_printer := PNone; r_reader := RIgnore; r_cli := CNone |} ].
Definition sample_env : env :=
  {| e_dir := "/etc/routinator";
     e_ext := fun x s => match x with XSock => lookup s [("127.0.0.1:323", "127.0.0.1:323")] | _ => None end;
     e_nproc := 4 |}.
Definition sample_conf : list val :=
  [ VLog (LFile "/var/log/r.log"); VS "/var/cache"; VB true; VE "Warn"; VON (Some 24); VON None; VN 65535;
    VL ["/etc/x1"; "/test/x2"]; VOL (Some ["-a"]); VL ["127.0.0.1:323"]; VOS (Some "nobody");
    VM [("a", "b")]; VU ].
Example C35_nonvacuous :
  table_okb false sample_table = true /\ conf_dom sample_env sample_table sample_conf = true /\
  conf_small sample_conf = true /\
  print_rows sample_table sample_conf =
    [("log", TStr "file"); ("log-file", TStr "/var/log/r.log"); ("repository-dir", TStr "/var/cache");
     ("strict", TBool true); ("stale", TStr "warn"); ("limit-v4-len", TInt 24); ("rsync-timeout", TInt 0);
     ("history-size", TInt 65535); ("exceptions", TArr ["/etc/x1"; "/test/x2"]); ("rsync-args", TArr ["-a"]);
     ("rtr-listen", TArr ["127.0.0.1:323"]); ("user", TStr "nobody"); ("tal-labels", TPairs [("a", "b")])] /\
  read sample_env sample_table (print_rows sample_table sample_conf) = Some sample_conf /\
  (* the reader is not trivial: relative paths are joined, defaults filled in, bad values refused *)
  read sample_env sample_table [("repository-dir", TStr "repo"); ("log", TStr "syslog"); ("syslog-facility", TStr "AUTH")] =
    Some [VLog (LSyslog "LOG_AUTH"); VS "/etc/routinator/repo"; VB false; VE "Reject"; VON None; VON (Some 300);
          VN 10; VL []; VOL None; VL []; VOS None; VM []; VU] /\
  read sample_env sample_table [("repository-dir", TStr "/r"); ("history-size", TInt 65536)] = None /\
  read sample_env sample_table [("repository-dir", TStr "/r"); ("unknown", TBool true)] = None.
Proof. vm_compute. repeat split; reflexivity. Qed.

Check C35_roundtrip : forall e t vs,
  table_okb false t = true -> conf_dom e t vs = true -> conf_small vs = true ->
  read e t (print_rows t vs) = Some vs.
Check C35_roundtrip_strict : forall e t vs,
  table_okb true t = true -> conf_dom e t vs = true -> read e t (print_rows t vs) = Some vs.
Check C35_model_satisfies_spec : forall e t vs,
  table_okb false t = true -> conf_dom e t vs = true -> conf_small vs = true ->
  spec_okb vs (model_obs e t vs) = true.
