(* C35 model: printing a configuration as a config file and reading it back.
   Executable definitions only (no proofs), transcribed from /repo/src/config.rs:

     Config::to_toml            -> [print_row] / [print_rows]   (one TOML binding per option)
     Config::from_config_file   -> [read_row] / [read_rows] / [read]
     ConfigFile::take_*         -> the reader kinds [rkind] and the per-kind code of [read_row]
     ConfigFile::check_exhausted-> the final "[] left over" test of [read]
     Config::log_target_from_config_file (unix) -> the [RLog] case of [read_row]
     Config::apply_arg_matches / apply_server_arg_matches and the clap
       definitions GlobalArgs / ServerArgs -> only the *set of values* an
       option can put into its Config field: [ckind] and [cli_dom].

   The model is table driven.  A [row] describes one config key: how
   [to_toml] prints the field (printer kind), which [take_*] call and
   post-processing [from_config_file] uses (reader kind, with the accepted
   range and the default for an absent key), and what the command line can
   store in the field (CLI kind with its range).  The concrete table is NOT
   written here: it is regenerated from src/config.rs on every run by
   lib/c35_extract.py (coq/_cases/C35T/Table.v).  All definitions and
   theorems of this directory are generic in the table.

   A configuration is a list of values, one per table row, in table order.
   A config file is modelled at the level of its TOML bindings ([doc]);
   TOML syntax (toml_edit's serialiser and parser) is not modelled.
   Strings are byte strings (Coq [string]); a path is its byte string and
   [Path::display] is the identity, which is exact for valid UTF-8 only. *)
From Coq Require Import List NArith ZArith Bool String Ascii.
Import ListNotations.
Local Open Scope string_scope.
Local Open Scope N_scope.

(* ------------------------------------------------------------------ *)
(* small library *)

Definition i64max : N := 9223372036854775807.     (* i64::MAX: the largest TOML integer *)
Definition u64max : N := 18446744073709551615.

Fixpoint lookup {A} (k : string) (d : list (string * A)) : option A :=
  match d with
  | [] => None
  | (k', v) :: t => if String.eqb k k' then Some v else lookup k t
  end.

Fixpoint smem (k : string) (l : list string) : bool :=
  match l with [] => false | h :: t => String.eqb k h || smem k t end.

Fixpoint snodupb (l : list string) : bool :=
  match l with [] => true | h :: t => negb (smem h t) && snodupb t end.

Definition remove_keys {A} (ks : list string) (d : list (string * A)) : list (string * A) :=
  filter (fun kv => negb (smem (fst kv) ks)) d.

Fixpoint map_opt {A B} (f : A -> option B) (l : list A) : option (list B) :=
  match l with
  | [] => Some []
  | a :: t => match f a with
              | None => None
              | Some b => match map_opt f t with None => None | Some bs => Some (b :: bs) end
              end
  end.

(* bytes -> string; used by the harness to write arbitrary strings *)
Fixpoint bs (l : list N) : string :=
  match l with [] => EmptyString | b :: t => String (ascii_of_N b) (bs t) end.
Fixpoint bytes_of (s : string) : list N :=
  match s with EmptyString => [] | String c t => N_of_ascii c :: bytes_of t end.

(* str::to_lowercase restricted to ASCII (LevelFilter::from_str compares with
   eq_ignore_ascii_case, Facility::from_str lowercases) *)
Definition lower_ascii (c : ascii) : ascii :=
  let n := N_of_ascii c in if (65 <=? n) && (n <=? 90) then ascii_of_N (n + 32) else c.
Fixpoint lower (s : string) : string :=
  match s with EmptyString => EmptyString | String c t => String (lower_ascii c) (lower t) end.

(* Path::is_absolute on unix *)
Definition is_abs (s : string) : bool :=
  match s with String c _ => Ascii.eqb c "/"%char | EmptyString => false end.
Fixpoint ends_slash (s : string) : bool :=
  match s with
  | EmptyString => false
  | String c EmptyString => Ascii.eqb c "/"%char
  | String _ t => ends_slash t
  end.
(* Path::join (PathBuf::push) on unix: an absolute argument replaces the base *)
Definition pjoin (dir s : string) : string :=
  if is_abs s then s
  else match dir with
       | EmptyString => s
       | _ => if ends_slash dir then dir ++ s else dir ++ "/" ++ s
       end.

(* valid UTF-8 (RFC 3629): outside of it Path::display is lossy *)
Fixpoint utf8_st (l : list N) (rem : nat) (lo hi : N) : bool :=
  match l with
  | [] => Nat.eqb rem 0
  | b :: t =>
    match rem with
    | O => if b <=? 127 then utf8_st t 0 128 191
           else if (194 <=? b) && (b <=? 223) then utf8_st t 1 128 191
           else if b =? 224 then utf8_st t 2 160 191
           else if ((225 <=? b) && (b <=? 236)) || (b =? 238) || (b =? 239) then utf8_st t 2 128 191
           else if b =? 237 then utf8_st t 2 128 159
           else if b =? 240 then utf8_st t 3 144 191
           else if (241 <=? b) && (b <=? 243) then utf8_st t 3 128 191
           else if b =? 244 then utf8_st t 3 128 143
           else false
    | S r => if (lo <=? b) && (b <=? hi) then utf8_st t r 128 191 else false
    end
  end.
Definition utf8b (s : string) : bool := utf8_st (bytes_of s) 0 128 191.

(* ------------------------------------------------------------------ *)
(* TOML bindings of a config file (toml_edit::Item / Value as the reader sees them) *)

Inductive tval :=
| TBool (b : bool)
| TInt (z : Z)                         (* Value::Integer, an i64 *)
| TStr (s : string)
| TArr (l : list string)               (* array whose elements are all strings (possibly empty) *)
| TPairs (l : list (string * string))  (* non-empty array of two-element string arrays *)
| TOther.                              (* anything else: float, datetime, other arrays, tables *)

Definition doc : Type := list (string * tval).

(* ------------------------------------------------------------------ *)
(* values of Config fields *)

Inductive logt :=                      (* LogTarget; the facility is the variant name, e.g. "LOG_DAEMON" *)
| LDefault (f : string) | LSyslog (f : string) | LStderr | LFile (p : string).

Inductive val :=
| VU                                   (* no field (the obsolete, ignored "tal-dir") *)
| VB (b : bool)
| VN (n : N)                           (* usize, u64, Duration (whole seconds) *)
| VON (o : option N)                   (* Option<u8>, Option<u64>, Option<Duration> *)
| VS (s : string)                      (* String, PathBuf *)
| VOS (o : option string)              (* Option<String>, Option<PathBuf>, Option<IpAddr> (canonical text) *)
| VL (l : list string)                 (* Vec<String>, Vec<PathBuf>, Vec<SocketAddr> (canonical text) *)
| VOL (o : option (list string))       (* Option<Vec<String>> *)
| VM (m : list (string * string))      (* HashMap<String, String>, listed sorted by key *)
| VE (v : string)                      (* enum, by variant name: FilterPolicy, FallbackPolicy, LevelFilter *)
| VLog (t : logt).

(* ------------------------------------------------------------------ *)
(* the table *)

Inductive xkind := XNone | XIp | XSock.     (* element parsed with FromStr of a std::net type *)

Inductive dnum := DN (n : N) | DNproc.      (* default of a number; DNproc = available_parallelism() *)

(* how to_toml emits the key *)
Inductive pkind :=
| PNone                                (* to_toml has no insert for this key *)
| PBool                                (* insert(key, self.f) *)
| PInt                                 (* insert_int(key, n): value.try_into().unwrap_or(i64::MAX) *)
| POptInt                              (* if let Some(n) = self.f { insert_int(key, n) } *)
| PZeroInt                             (* insert_int(key, match self.f { None => 0, Some(n) => n }) *)
| PStr                                 (* insert(key, text of self.f) *)
| POptStr                              (* if let Some(x) = self.f { insert(key, text of x) } *)
| PArr                                 (* insert(key, Array of texts) *)
| POptArr                              (* if let Some(l) = self.f { insert(key, Array of texts) } *)
| PPairsNE                             (* if !self.f.is_empty() { insert(key, Array of [left, right]) } *)
| PEnum (names : list (string * string))            (* Display: variant -> text *)
| PLog (kfac kfile : string) (fnames : list (string * string))  (* match self.log_target; facility_to_string *)
| PUnknown.                            (* the extractor did not recognise the code *)

(* which take_* call and post-processing from_config_file uses *)
Inductive rkind :=
| RIgnore                              (* take_path(key)?.is_some(): accepted and ignored *)
| RBool (dflt : bool)                  (* take_bool(key)?.unwrap_or(dflt) *)
| RNum (max : N) (dflt : dnum)         (* take_u64 / take_usize / take_small_usize, unwrap_or(dflt) *)
| ROptNum (max : N)                    (* take_u64(key)?.map(..), take_limited_u8(key, max)? *)
| RZeroNum (max : N) (dflt : option N) (* match take_u64 { Some(0) => None, Some(v) => Some(v), None => dflt } *)
| RStr (join : bool) (dflt : option string)   (* take_string.unwrap_or(d); take_mandatory_path (join, no default) *)
| ROptStr (join : bool) (x : xkind)    (* take_string / take_path / take_from_str *)
| RArr (join : bool) (x : xkind) (single : bool)  (* take_string_array / take_from_str_array / take_path_array, unwrap_or_default *)
| ROptArr                              (* take_string_array(key)? *)
| RPairs                               (* take_string_map(key)?.unwrap_or_default() *)
| REnum (ci : bool) (tbl : list (string * string)) (dflt : string)  (* take_from_str: text -> variant *)
| RLog (kfac kfile : string) (ftbl : list (string * string))        (* log_target_from_config_file *)
| RUnknown.

(* what the command line can store in the field *)
Inductive ckind :=
| CNone                                (* no command line option *)
| CFlag                                (* if args.a { self.f = true } *)
| CNum (max : N)                       (* self.f = v, self.f = Duration::from_secs(v) *)
| COptNum (max : N)                    (* self.f = Some(v) *)
| CZeroNum (max : N)                   (* self.f = if v == 0 { None } else { Some(v) } *)
| CStr (abs : bool)                    (* self.f = v / cur_dir.join(v) *)
| COptStr (abs : bool) (x : xkind)     (* self.f = Some(v) / Some(cur_dir.join(v)) *)
| CList (abs : bool) (x : xkind)       (* self.f = list / list mapped through cur_dir.join *)
| CEnum                                (* FromStr of the enum, or fixed variants (-v, -q) *)
| CLog                                 (* apply_log_matches *)
| CUnknown.

Record row := { r_key : string; r_printer : pkind; r_reader : rkind; r_cli : ckind }.
Definition table : Type := list row.

(* the keys a row consumes from the file *)
Definition r_keys (r : row) : list string :=
  match r_reader r with
  | RLog kf kl _ => [r_key r; kf; kl]
  | _ => [r_key r]
  end.
Definition table_keys (t : table) : list string := flat_map r_keys t.

(* ------------------------------------------------------------------ *)
(* printing: Config::to_toml *)

(* insert_int: value.try_into().unwrap_or(i64::MAX) *)
Definition sat (n : N) : Z := Z.of_N (N.min n i64max).

Definition name_of (names : list (string * string)) (v : string) : string :=
  match lookup v names with Some s => s | None => EmptyString end.

Definition print_row (r : row) (v : val) : doc :=
  let k := r_key r in
  match r_printer r, v with
  | PBool, VB b => [(k, TBool b)]
  | PInt, VN n => [(k, TInt (sat n))]
  | POptInt, VON (Some n) => [(k, TInt (sat n))]
  | POptInt, VON None => []
  | PZeroInt, VON o => [(k, TInt (sat (match o with Some n => n | None => 0 end)))]
  | PStr, VS s => [(k, TStr s)]
  | POptStr, VOS (Some s) => [(k, TStr s)]
  | POptStr, VOS None => []
  | PArr, VL l => [(k, TArr l)]
  | POptArr, VOL (Some l) => [(k, TArr l)]
  | POptArr, VOL None => []
  | PPairsNE, VM [] => []
  | PPairsNE, VM m => [(k, TPairs m)]
  | PEnum names, VE v => [(k, TStr (name_of names v))]
  | PLog kf kl fn, VLog (LDefault f) => [(k, TStr "default"); (kf, TStr (name_of fn f))]
  | PLog kf kl fn, VLog (LSyslog f) => [(k, TStr "syslog"); (kf, TStr (name_of fn f))]
  | PLog kf kl fn, VLog LStderr => [(k, TStr "stderr")]
  | PLog kf kl fn, VLog (LFile p) => [(k, TStr "file"); (kl, TStr p)]
  | _, _ => []
  end.

Fixpoint print_rows (t : table) (vs : list val) : doc :=
  match t, vs with
  | r :: t', v :: vs' => (print_row r v ++ print_rows t' vs')%list
  | _, _ => []
  end.

(* ------------------------------------------------------------------ *)
(* reading: Config::from_config_file *)

(* what reading depends on besides the file content *)
Record env := {
  e_dir : string;                           (* ConfigFile::dir, the directory of the config file *)
  e_ext : xkind -> string -> option string; (* FromStr of IpAddr / SocketAddr followed by Display *)
  e_nproc : N }.                            (* Config::default_validation_threads() *)

Definition rd_str (e : env) (join : bool) (x : xkind) (s : string) : option string :=
  let s' := if join then pjoin (e_dir e) s else s in
  match x with XNone => Some s' | _ => e_ext e x s' end.

Definition parse_enum (ci : bool) (tbl : list (string * string)) (s : string) : option string :=
  lookup (if ci then lower s else s) tbl.

(* [get k] is the file's binding for [k], if any (ConfigFile::take_value) *)
Definition read_row (e : env) (r : row) (get : string -> option tval) : option val :=
  let k := r_key r in
  match r_reader r with
  | RIgnore =>
      match get k with None => Some VU | Some (TStr _) => Some VU | Some _ => None end
  | RBool d =>
      match get k with None => Some (VB d) | Some (TBool b) => Some (VB b) | Some _ => None end
  | RNum max d =>
      match get k with
      | None => Some (VN (match d with DN n => n | DNproc => e_nproc e end))
      | Some (TInt z) => if (0 <=? z)%Z && (Z.to_N z <=? max) then Some (VN (Z.to_N z)) else None
      | Some _ => None
      end
  | ROptNum max =>
      match get k with
      | None => Some (VON None)
      | Some (TInt z) => if (0 <=? z)%Z && (Z.to_N z <=? max) then Some (VON (Some (Z.to_N z))) else None
      | Some _ => None
      end
  | RZeroNum max d =>
      match get k with
      | None => Some (VON d)
      | Some (TInt z) =>
          if (0 <=? z)%Z && (Z.to_N z <=? max)
          then Some (VON (if Z.to_N z =? 0 then None else Some (Z.to_N z))) else None
      | Some _ => None
      end
  | RStr join d =>
      match get k with
      | None => match d with Some s => Some (VS s) | None => None end
      | Some (TStr s) => match rd_str e join XNone s with Some s' => Some (VS s') | None => None end
      | Some _ => None
      end
  | ROptStr join x =>
      match get k with
      | None => Some (VOS None)
      | Some (TStr s) => match rd_str e join x s with Some s' => Some (VOS (Some s')) | None => None end
      | Some _ => None
      end
  | RArr join x single =>
      match get k with
      | None => Some (VL [])
      | Some (TArr l) => match map_opt (rd_str e join x) l with Some l' => Some (VL l') | None => None end
      | Some (TStr s) =>
          if single then match rd_str e join x s with Some s' => Some (VL [s']) | None => None end else None
      | Some _ => None
      end
  | ROptArr =>
      match get k with
      | None => Some (VOL None)
      | Some (TArr l) => Some (VOL (Some l))
      | Some _ => None
      end
  | RPairs =>
      match get k with
      | None => Some (VM [])
      | Some (TArr []) => Some (VM [])
      | Some (TPairs m) => if snodupb (map fst m) then Some (VM m) else None
      | Some _ => None
      end
  | REnum ci tbl d =>
      match get k with
      | None => Some (VE d)
      | Some (TStr s) => match parse_enum ci tbl s with Some v => Some (VE v) | None => None end
      | Some _ => None
      end
  | RLog kf kl ftbl =>
      (* let facility = file.take_string("syslog-facility")?; ... unwrap_or("daemon");
         Facility::from_str(facility) or fail *)
      match (match get kf with
             | None => Some "daemon" | Some (TStr s) => Some s | Some _ => None end) with
      | None => None
      | Some fname =>
        match lookup (lower fname) ftbl with
        | None => None
        | Some fac =>
          (* let log_target = file.take_string("log")?; let log_file = file.take_path("log-file")?; *)
          match (match get k with
                 | None => Some None | Some (TStr s) => Some (Some s) | Some _ => None end) with
          | None => None
          | Some target =>
            match (match get kl with
                   | None => Some None | Some (TStr s) => Some (Some (pjoin (e_dir e) s)) | Some _ => None end) with
            | None => None
            | Some file =>
              match target with
              | None => Some (VLog (LDefault fac))
              | Some t =>
                  if String.eqb t "default" then Some (VLog (LDefault fac))
                  else if String.eqb t "syslog" then Some (VLog (LSyslog fac))
                  else if String.eqb t "stderr" then Some (VLog LStderr)
                  else if String.eqb t "file" then
                    match file with Some p => Some (VLog (LFile p)) | None => None end
                  else None
              end
            end
          end
        end
      end
  | RUnknown => None
  end.

(* every take_* removes its key; the rows are read in table order *)
Fixpoint read_rows (e : env) (t : table) (d : doc) : option (list val * doc) :=
  match t with
  | [] => Some ([], d)
  | r :: t' =>
      match read_row e r (fun k => lookup k d) with
      | None => None
      | Some v =>
          match read_rows e t' (remove_keys (r_keys r) d) with
          | None => None
          | Some (vs, d') => Some (v :: vs, d')
          end
      end
  end.

(* file.check_exhausted()?: nothing may be left *)
Definition read (e : env) (t : table) (d : doc) : option (list val) :=
  match read_rows e t d with
  | Some (vs, []) => Some vs
  | _ => None
  end.

(* ------------------------------------------------------------------ *)
(* value ranges *)

(* the known class K1: a number above i64::MAX (insert_int saturates) *)
Definition val_small (v : val) : bool :=
  match v with
  | VN n => n <=? i64max
  | VON (Some n) => n <=? i64max
  | _ => true
  end.
Definition conf_small (vs : list val) : bool := forallb val_small vs.

Definition str_ok (e : env) (abs : bool) (x : xkind) (s : string) : bool :=
  implb abs (is_abs s) &&
  match x with
  | XNone => true
  | _ => match e_ext e x s with Some s' => String.eqb s' s | None => false end
  end.

Definition variants (tbl : list (string * string)) (dflt : string) : list string := dflt :: map snd tbl.

Definition logt_ok (ftbl : list (string * string)) (t : logt) : bool :=
  match t with
  | LDefault f | LSyslog f => smem f (map snd ftbl)
  | LStderr => true
  | LFile p => is_abs p
  end.

(* values the command line can store *)
Definition cli_dom (e : env) (r : row) (v : val) : bool :=
  match r_cli r, v with
  | CFlag, VB _ => true
  | CNum max, VN n => n <=? max
  | COptNum max, VON None => true
  | COptNum max, VON (Some n) => n <=? max
  | CZeroNum max, VON None => true
  | CZeroNum max, VON (Some n) => (1 <=? n) && (n <=? max)
  | CStr abs, VS s => str_ok e abs XNone s
  | COptStr abs x, VOS None => true
  | COptStr abs x, VOS (Some s) => str_ok e abs x s
  | CList abs x, VL l => forallb (str_ok e abs x) l
  | CEnum, VE v => match r_reader r with REnum _ tbl d => smem v (variants tbl d) | _ => false end
  | CLog, VLog t => match r_reader r with RLog _ _ ftbl => logt_ok ftbl t | _ => false end
  | _, _ => false
  end.

(* values the file reader can produce (for an absolute config file directory) *)
Definition file_dom (e : env) (r : row) (v : val) : bool :=
  match r_reader r, v with
  | RIgnore, VU => true
  | RBool _, VB _ => true
  | RNum max _, VN n => n <=? max
  | ROptNum max, VON None => true
  | ROptNum max, VON (Some n) => n <=? max
  | RZeroNum max _, VON None => true
  | RZeroNum max _, VON (Some n) => (1 <=? n) && (n <=? max)
  | RStr join _, VS s => str_ok e join XNone s
  | ROptStr join x, VOS None => true
  | ROptStr join x, VOS (Some s) => str_ok e join x s
  | RArr join x _, VL l => forallb (str_ok e join x) l
  | ROptArr, VOL _ => true
  | RPairs, VM m => snodupb (map fst m)
  | REnum _ tbl d, VE v => smem v (variants tbl d)
  | RLog _ _ ftbl, VLog t => logt_ok ftbl t
  | _, _ => false
  end.

Definition val_dom (e : env) (r : row) (v : val) : bool := cli_dom e r v || file_dom e r v.

Fixpoint conf_dom (e : env) (t : table) (vs : list val) : bool :=
  match t, vs with
  | [], [] => true
  | r :: t', v :: vs' => val_dom e r v && conf_dom e t' vs'
  | _, _ => false
  end.

(* ------------------------------------------------------------------ *)
(* coherence of a row: printer and reader are inverse, the key is printed
   at all, the command line range lies within what the reader gives back.
   [strict = true]: for every command line value; [strict = false]: for
   every value outside the known class K1 (numbers above i64::MAX). *)

Definition eff (strict : bool) (cmax : N) : N := if strict then cmax else N.min cmax i64max.

Definition xkind_eqb (a b : xkind) : bool :=
  match a, b with XNone, XNone | XIp, XIp | XSock, XSock => true | _, _ => false end.
(* a reader that parses with FromStr needs the command line to hold the parsed type too *)
Definition x_ok (rx cx : xkind) : bool := match rx with XNone => true | _ => xkind_eqb rx cx end.

Definition enum_ok (names : list (string * string)) (ci : bool) (tbl : list (string * string)) (v : string) : bool :=
  match lookup v names with
  | Some txt => match parse_enum ci tbl txt with Some v' => String.eqb v' v | None => false end
  | None => false
  end.

Definition row_okb (strict : bool) (r : row) : bool :=
  match r_printer r, r_reader r with
  | PNone, RIgnore => match r_cli r with CNone => true | _ => false end
  | PBool, RBool _ => match r_cli r with CNone | CFlag => true | _ => false end
  | PInt, RNum rmax _ =>
      (rmax <=? i64max) &&
      match r_cli r with CNone => true | CNum cmax => eff strict cmax <=? rmax | _ => false end
  | POptInt, ROptNum rmax =>
      (rmax <=? i64max) &&
      match r_cli r with
      | CNone => true
      | COptNum cmax | CZeroNum cmax => eff strict cmax <=? rmax
      | _ => false
      end
  | PZeroInt, RZeroNum rmax _ =>
      (rmax <=? i64max) &&
      match r_cli r with CNone => true | CZeroNum cmax => eff strict cmax <=? rmax | _ => false end
  | PStr, RStr join _ =>
      match r_cli r with CNone => true | CStr abs => implb join abs | _ => false end
  | POptStr, ROptStr join x =>
      negb (join && negb (xkind_eqb x XNone)) &&
      match r_cli r with CNone => true | COptStr abs cx => implb join abs && x_ok x cx | _ => false end
  | PArr, RArr join x _ =>
      negb (join && negb (xkind_eqb x XNone)) &&
      match r_cli r with CNone => true | CList abs cx => implb join abs && x_ok x cx | _ => false end
  | POptArr, ROptArr => match r_cli r with CNone => true | _ => false end
  | PPairsNE, RPairs => match r_cli r with CNone => true | _ => false end
  | PEnum names, REnum ci tbl d =>
      match r_cli r with CNone | CEnum => true | _ => false end &&
      forallb (enum_ok names ci tbl) (variants tbl d)
  | PLog kf kl fn, RLog kf' kl' ftbl =>
      String.eqb kf kf' && String.eqb kl kl' && snodupb [r_key r; kf; kl] &&
      match r_cli r with CNone | CLog => true | _ => false end &&
      match lookup "daemon" ftbl with Some _ => true | None => false end &&
      forallb (enum_ok fn true ftbl) (map snd ftbl)
  | _, _ => false
  end.

Definition table_okb (strict : bool) (t : table) : bool :=
  forallb (row_okb strict) t && snodupb (table_keys t).

(* the rows (keys) that are not coherent: the starting point for a failing input *)
Definition bad_rows (strict : bool) (t : table) : list string :=
  map r_key (filter (fun r => negb (row_okb strict r)) t).
