(* C35: the property as an executable oracle, and the case checker of the
   correspondence run.  No proofs here.

   Input of the property: a configuration (one value per table row) that the
   command line / the config file reader produced.  Observation: the printed
   file (its TOML bindings), what reading it back gives, and whether the
   fields of Config that have no config key (config_file, which is by
   construction the path the file is read from, and the constant
   rrdp_user_agent; `fresh` is excluded, DESIGN.md section 8) are the same.
   The property: the printed file is accepted and yields the identical
   configuration. *)
From Coq Require Import List NArith ZArith Bool String Ascii.
From RV Require Export C35.Model.
Import ListNotations.
Local Open Scope string_scope.
Local Open Scope N_scope.

(* ---- boolean equalities ---- *)
Fixpoint sl_eqb (a b : list string) : bool :=
  match a, b with
  | [], [] => true
  | x :: a', y :: b' => String.eqb x y && sl_eqb a' b'
  | _, _ => false
  end.
Fixpoint pl_eqb (a b : list (string * string)) : bool :=
  match a, b with
  | [], [] => true
  | (x, x') :: a', (y, y') :: b' => String.eqb x y && String.eqb x' y' && pl_eqb a' b'
  | _, _ => false
  end.
Definition opt_eqb {A} (f : A -> A -> bool) (a b : option A) : bool :=
  match a, b with Some x, Some y => f x y | None, None => true | _, _ => false end.

Definition logt_eqb (a b : logt) : bool :=
  match a, b with
  | LDefault f, LDefault g | LSyslog f, LSyslog g | LFile f, LFile g => String.eqb f g
  | LStderr, LStderr => true
  | _, _ => false
  end.

Definition val_eqb (a b : val) : bool :=
  match a, b with
  | VU, VU => true
  | VB x, VB y => Bool.eqb x y
  | VN x, VN y => x =? y
  | VON x, VON y => opt_eqb N.eqb x y
  | VS x, VS y => String.eqb x y
  | VOS x, VOS y => opt_eqb String.eqb x y
  | VL x, VL y => sl_eqb x y
  | VOL x, VOL y => opt_eqb sl_eqb x y
  | VM x, VM y => pl_eqb x y
  | VE x, VE y => String.eqb x y
  | VLog x, VLog y => logt_eqb x y
  | _, _ => false
  end.

Fixpoint vl_eqb (a b : list val) : bool :=
  match a, b with
  | [], [] => true
  | x :: a', y :: b' => val_eqb x y && vl_eqb a' b'
  | _, _ => false
  end.
Definition oconf_eqb : option (list val) -> option (list val) -> bool := opt_eqb vl_eqb.

Definition tval_eqb (a b : tval) : bool :=
  match a, b with
  | TBool x, TBool y => Bool.eqb x y
  | TInt x, TInt y => (x =? y)%Z
  | TStr x, TStr y => String.eqb x y
  | TArr x, TArr y => sl_eqb x y
  | TPairs x, TPairs y => pl_eqb x y
  | TOther, TOther => true
  | _, _ => false
  end.

(* ---- the property ---- *)
Record obs := {
  o_doc : doc;                       (* the printed file *)
  o_back : option (list val);        (* what reading the printed file gives (None: rejected) *)
  o_rest : bool }.                   (* fields without a config key unchanged *)

Definition model_obs (e : env) (t : table) (vs : list val) : obs :=
  {| o_doc := print_rows t vs; o_back := read e t (print_rows t vs); o_rest := true |}.

(* "the printed file is accepted as a config file and yields an identical configuration" *)
Definition spec_okb (vs : list val) (o : obs) : bool := oconf_eqb (o_back o) (Some vs) && o_rest o.

(* ---- known classes ---- *)
Definition val_strings (v : val) : list string :=
  match v with
  | VS s => [s]
  | VOS (Some s) => [s]
  | VL l => l
  | VOL (Some l) => l
  | VM m => map fst m ++ map snd m
  | VLog (LFile p) => [p]
  | _ => []
  end%list.
(* K2: some string is not valid UTF-8 (only paths can be: Path::display is lossy there) *)
Definition conf_utf8 (vs : list val) : bool := forallb (fun v => forallb utf8b (val_strings v)) vs.

(* ---- one correspondence case ---- *)

(* The harness lists the fields of a Config in this fixed order (function `vals` of
   harness/src/bin/c35.rs); the table decides the order of the model. *)
Definition hkeys : list string :=
  ["log"; "repository-dir"; "no-rir-tals"; "tals"; "extra-tals-dir"; "exceptions"; "strict"; "stale";
   "unsafe-vrps"; "unknown-objects"; "limit-v4-len"; "limit-v6-len"; "allow-dubious-hosts"; "disable-rsync";
   "rsync-command"; "rsync-args"; "rsync-timeout"; "disable-rrdp"; "rrdp-fallback"; "rrdp-fallback-time";
   "rrdp-max-delta-count"; "rrdp-max-delta-list-len"; "rrdp-timeout"; "rrdp-read-timeout";
   "rrdp-connect-timeout"; "rrdp-tcp-keepalive"; "rrdp-local-addr"; "rrdp-root-certs"; "rrdp-proxies";
   "max-object-size"; "max-ca-depth"; "enable-bgpsec"; "enable-aspa"; "dirty"; "validation-threads"; "refresh";
   "min-refresh"; "retry"; "expire"; "history-size"; "rtr-listen"; "rtr-tls-listen"; "http-listen";
   "http-tls-listen"; "systemd-listen"; "rtr-tcp-keepalive"; "rtr-client-metrics"; "rtr-tls-key";
   "rtr-tls-cert"; "http-tls-key"; "http-tls-cert"; "log-level"; "log-repository-issues"; "pid-file";
   "working-dir"; "chroot"; "user"; "group"; "tal-labels"; "tal-dir"].
(* keys of file bindings are written as an index into this list when they are in it (shorter case terms) *)
Definition dkeys : list string := (hkeys ++ ["syslog-facility"; "log-file"])%list.
Inductive hkey := K (n : nat) | S (s : string).
Definition key_of (k : hkey) : string := match k with K n => nth n dkeys EmptyString | S s => s end.
Definition hdoc : Type := list (hkey * tval).
Definition doc_of (d : hdoc) : doc := map (fun kv => (key_of (fst kv), snd kv)) d.

Inductive backres :=
| BSame                                   (* accepted, every listed field equal to c_conf (saves space) *)
| BRejected                               (* the printed file was refused *)
| BConf (b : list val).                   (* accepted with these fields *)

Record case := {
  c_dir : string;                          (* directory of the file the printed text is read from *)
  c_ip : list (string * string);           (* IpAddr::from_str(s).to_string() for the strings that parse *)
  c_sock : list (string * string);         (* SocketAddr::from_str(s).to_string() *)
  c_nproc : N;                             (* available_parallelism() on the test machine *)
  c_src : option hdoc;                     (* Some d: the configuration was read from the file d, no options *)
  c_conf : option (list val);              (* the configuration the implementation built, in [hkeys] order
                                              (None: input rejected) *)
  c_doc : hdoc;                            (* the implementation's printed file *)
  c_back : backres;                        (* the implementation's reading of it *)
  c_rest : bool }.

Definition env_of (c : case) : env :=
  {| e_dir := c_dir c;
     e_ext := fun x s => match x with XNone => Some s | XIp => lookup s (c_ip c) | XSock => lookup s (c_sock c) end;
     e_nproc := c_nproc c |}.

(* from the harness order to the table order; every row needs its field and every field its row *)
Definition align (t : table) (cf : list val) : option (list val) :=
  if Nat.eqb (List.length cf) (List.length t) && Nat.eqb (List.length cf) (List.length hkeys)
  then map_opt (fun r => lookup (r_key r) (combine hkeys cf)) t else None.

Definition doc_sub (a b : doc) : bool :=
  forallb (fun kv => match lookup (fst kv) b with Some v => tval_eqb v (snd kv) | None => false end) a.
Definition doc_equiv (a b : doc) : bool := doc_sub a b && doc_sub b a.

(* Result codes: 0 model = implementation and the property holds on the implementation's output;
   1 property holds but model and implementation differ (the table or the model is wrong);
   2 the property fails on the implementation's output;
   3 it fails and some number is above i64::MAX (known class K1);
   4 it fails and some string is not valid UTF-8 (known class K2);
   9 precondition of the model violated (directory of the config file not absolute). *)
Definition check_case (t : table) (c : case) : N :=
  let e := env_of c in
  if negb (is_abs (c_dir c)) then 9 else
  match c_conf c with
  | None =>
      match c_src c with
      | Some d => match read e t (doc_of d) with None => 0 | Some _ => 1 end
      | None => 0
      end
  | Some cf =>
      match align t cf,
            match c_back c with
            | BRejected => Some None
            | BSame => option_map Some (align t cf)
            | BConf b => option_map Some (align t b)
            end with
      | Some vs, Some back =>
          let o := {| o_doc := doc_of (c_doc c); o_back := back; o_rest := c_rest c |} in
          if negb (spec_okb vs o) then
            (if negb (conf_small vs) then 3 else if negb (conf_utf8 vs) then 4 else 2)
          else if negb (conf_dom e t vs) then 1
          else if match c_src c with Some d => oconf_eqb (read e t (doc_of d)) (Some vs) | None => true end
                  && doc_equiv (print_rows t vs) (doc_of (c_doc c))
                  && oconf_eqb (read e t (doc_of (c_doc c))) back
               then 0 else 1
      | _, _ => 1
      end
  end.

(* what the model computes for a case (for replay files) *)
Definition model_of (t : table) (c : case) :=
  match c_conf c with
  | Some cf => match align t cf with
               | Some vs => Some (print_rows t vs, read (env_of c) t (print_rows t vs), bad_rows false t)
               | None => None
               end
  | None => None
  end.
