//! End-to-end RPKI repository generator (DESIGN.md section 3.4): builds **real** RPKI repositories
//! (TALs, TA certificates, CA certificates, manifests, CRLs, ROAs, ASPAs, BGPsec router
//! certificates, Ghostbusters records) from an abstract description, together with the ground
//! truth (verdict bits per object), serves them from a local directory through a stand-in for the
//! rsync command and runs the real `routinator::engine::Engine` on them, offline.
//!
//! See `/verif/notes/rpkigen.md` for the API walk-through.
//!
//! ```ignore
//! use rv_harness::rpkigen::*;
//! let mut s = Scen::new();
//! s.add_ta("ta", "root", 0, "rpki.example.net", "repo", res(&["10.0.0.0/8"], &[], &[(64496, 64511)]));
//! s.add_roa("root", "r1.roa", 64496, &[("10.1.0.0/16", Some(24))]);
//! let world = World::new(build(&s.spec)?)?;          // builds, writes TALs + script, serves step 0
//! let out = world.run(&RunCfg::default());             // real Engine, rsync transport only
//! assert_eq!(out.payload, expected_fresh(&world.built.truth, &ServePlan::step(0), &RunCfg::default()));
//! ```
pub mod keys;
pub mod spec;
pub mod truth;
pub mod build;
pub mod run;
pub mod expect;

pub use self::spec::*;
pub use self::truth::*;
pub use self::build::{build, build_at, module_of, parse_prefix, Built, FileOut};
pub use self::run::*;
pub use self::expect::expected_fresh;
