//! A Routinator "server" without sockets: real Engine (no TALs, no collector), real SharedHistory,
//! real NotifySender and the real HTTP request dispatcher (hook `routinator::http::verif`).
//! Data sets come from SLURM prefix assertions; a validation cycle is the real `Server::process_once`
//! (hook `verif_process_once`), whose outcome can be forced through `routinator::verif::set_forced`.
use std::sync::Arc;
use http_body_util::BodyExt;
use routinator::config::Config;
use routinator::engine::Engine;
use routinator::http::verif::{Request, State};
use routinator::metrics::RtrServerMetrics;
use routinator::operation::Server;
use routinator::payload::SharedHistory;
use routinator::slurm::LocalExceptions;
use rpki::rtr::server::NotifySender;
use serde_json::{json, Value};

pub fn slurm_of(spec: &Value) -> LocalExceptions {
    let e = vec![];
    let pa: Vec<Value> = spec["origins"].as_array().unwrap_or(&e).iter().map(|o| {
        let mut m = json!({"asn": o[2], "prefix": o[0]});
        if !o[1].is_null() { m["maxPrefixLength"] = o[1].clone(); }
        m
    }).collect();
    let j = json!({"slurmVersion": 1,
        "validationOutputFilters": {"prefixFilters": [], "bgpsecFilters": []},
        "locallyAddedAssertions": {"prefixAssertions": pa, "bgpsecAssertions": []}});
    LocalExceptions::from_json(&j.to_string(), false).expect("slurm")
}

pub struct Env {
    pub dir: tempfile::TempDir,
    pub config: Config,
    pub engine: Engine,
    pub history: SharedHistory,
    pub notify: NotifySender,
    pub http: Arc<State>,
    pub rt: tokio::runtime::Runtime,
}

pub struct HttpResp {
    pub status: u16,
    pub etag: Option<String>,
    pub last_modified: Option<String>,
    pub body: Vec<u8>,
}

impl Env {
    pub fn new(tweak: impl FnOnce(&mut Config)) -> Env {
        routinator::verif::reset();
        let dir = tempfile::tempdir().unwrap();
        let mut config = Config::default_with_paths(Default::default(), dir.path().join("cache"));
        std::fs::create_dir_all(&config.cache_dir).unwrap();
        config.no_rir_tals = true;
        tweak(&mut config);
        let engine = Engine::new(&config, false).expect("engine");
        let history = SharedHistory::from_config(&config);
        let notify = NotifySender::new();
        let http = Arc::new(State::new(&config, history.clone(), Arc::new(RtrServerMetrics::new(false)), None, notify.clone()));
        let rt = tokio::runtime::Builder::new_multi_thread().worker_threads(2).enable_all().build().unwrap();
        Env { dir, config, engine, history, notify, http, rt }
    }

    /// One validation cycle through the real `Server::process_once`. `outcome`: 0 ok, 1 retryable failure, 2 fatal.
    pub fn cycle(&mut self, spec: &Value, outcome: u64, initial: bool) -> Result<(), bool> {
        routinator::verif::set_forced("validation.process", vec![outcome]);
        let ex = slurm_of(spec);
        Server::verif_process_once(&self.config, &self.engine, &self.history, &mut self.notify, &ex, initial)
            .map_err(|e| e.should_retry())
    }

    pub fn request(path_and_query: &str, headers: &[(&str, &str)], head: bool) -> Request {
        let mut b = hyper::Request::builder().method(if head { "HEAD" } else { "GET" }).uri(path_and_query);
        for (k, v) in headers { b = b.header(*k, *v); }
        let (parts, _) = b.body(()).unwrap().into_parts();
        Request::new(parts, None)
    }

    pub fn get(&self, path_and_query: &str, headers: &[(&str, &str)]) -> HttpResp {
        let http = self.http.clone();
        let req = Self::request(path_and_query, headers, false);
        self.rt.block_on(async move { collect(http.handle_request(req).await).await })
    }
}

pub async fn collect(resp: routinator::http::verif::Response) -> HttpResp {
    let resp = resp.into_hyper().unwrap();
    let status = resp.status().as_u16();
    let h = |n: &str| resp.headers().get(n).and_then(|v| v.to_str().ok()).map(|s| s.to_string());
    let etag = h("ETag");
    let last_modified = h("Last-Modified");
    let body = resp.into_body().collect().await.unwrap().to_bytes().to_vec();
    HttpResp { status, etag, last_modified, body }
}

impl Env {
    /// Like `get`, but returns the body as the sequence of data frames (chunks) the response stream produced.
    pub fn get_chunks(&self, path_and_query: &str) -> (u16, Vec<Vec<u8>>) {
        let http = self.http.clone();
        let req = Self::request(path_and_query, &[], false);
        self.rt.block_on(async move {
            let resp = http.handle_request(req).await.into_hyper().unwrap();
            let status = resp.status().as_u16();
            let mut body = resp.into_body();
            let mut chunks = Vec::new();
            while let Some(frame) = body.frame().await {
                if let Ok(data) = frame.unwrap().into_data() { chunks.push(data.to_vec()); }
            }
            (status, chunks)
        })
    }
}
