//! Shared utilities for the correspondence harness.
pub mod util;
pub mod paygen;
pub mod srvenv;
pub mod rrdpsrv;
pub mod rpkigen;
