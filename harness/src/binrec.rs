//! Shared by bin/c28.rs and bin/c27.rs (included with #[path], not part of the library):
//! the persisted record types of Routinator as plain values, conversion to/from the JSON
//! case input, execution of the real Compose/Parse/read/write code of /repo, printers of
//! the Coq `value` type of coq/C28/Model.v, and the value generator.
#![allow(dead_code)]

use std::collections::HashMap;
use std::io;
use bytes::Bytes;
use chrono::{TimeZone, Utc};
use routinator::collector::RrdpArchive;
use routinator::store::{StoredManifest, StoredObject, StoredPointHeader, StoredStatus};
use routinator::utils::binio::{Compose, Parse, ParseError};
use rpki::crypto::DigestAlgorithm;
use rpki::repository::manifest::ManifestHash;
use rpki::repository::x509::{Serial, Time};
use rpki::{rrdp, uri};
use rv_harness::util::*;
use serde_json::{json, Value};
use uuid::Uuid;

pub const KINDS: &[&str] = &[
    "u8", "u32", "u64", "i64", "opt_i64", "rsync", "https", "opt_https", "bytes", "opt_bytes", "uuid", "hash",
    "serial", "time", "opt_time", "map", "header", "status", "manifest", "object", "stored_status", "state",
];

pub fn coq_kind(kind: &str) -> &'static str {
    match kind {
        "u8" => "KU8", "u32" => "KU32", "u64" => "KU64", "i64" => "KI64", "opt_i64" => "KOptI64",
        "rsync" => "KRsync", "https" => "KHttps", "opt_https" => "KOptHttps", "bytes" => "KBytes",
        "opt_bytes" => "KOptBytes", "uuid" => "KUuid", "hash" => "KHash", "serial" => "KSerial",
        "time" => "KTime", "opt_time" => "KOptTime", "map" => "KMap", "header" => "KHeader",
        "status" => "KStatus", "manifest" => "KManifest", "object" => "KObject",
        "stored_status" => "KStoredStatus", "state" => "KState",
        k => panic!("unknown kind {}", k),
    }
}

/// The constant c of the allocation bound per kind (coq/C27/Spec.v `kind_const`).
pub const CHUNK: u64 = 65536;
pub const MAP_PREALLOC: u64 = 65536 * 40;

//------------ model-level values ---------------------------------------------

#[derive(Clone, Debug, PartialEq)]
pub enum Val {
    U8(u8), U32(u32), U64(u64), I64(i64), OptI64(Option<i64>),
    Rsync(Vec<u8>), Https(Vec<u8>), OptHttps(Option<Vec<u8>>),
    Bytes(Vec<u8>), OptBytes(Option<Vec<u8>>),
    Uuid(Vec<u8>), Hash(Vec<u8>), Serial(Vec<u8>),
    Time(i64), OptTime(Option<i64>),
    Map(Vec<(u64, Vec<u8>)>),
    Header { manifest_uri: Vec<u8>, rpki_notify: Option<Vec<u8>>, success: bool, time: i64 },
    Status { success: bool, time: i64 },
    Manifest { not_after: i64, number: Vec<u8>, this_update: i64, ca_repository: Vec<u8>, manifest: Vec<u8>,
               crl_uri: Vec<u8>, crl: Vec<u8> },
    Object { uri: Vec<u8>, hash: Option<Vec<u8>>, content: Vec<u8> },
    End,
    StoredStatus(i64),
    State { notify: Vec<u8>, session: Vec<u8>, serial: u64, updated: i64, best_before: i64,
            last_modified: Option<i64>, etag: Option<Vec<u8>>, deltas: Vec<(u64, Vec<u8>)> },
}

/// Coq term for a byte string: a list literal; long arithmetic runs (b[i+1] = b[i] + d mod 256; the big test
/// contents are generated that way) are written `arith start d len` (coq/C28/Values.v) because coqc cannot
/// type-check list literals with tens of thousands of elements.
pub fn cb(b: &[u8]) -> String {
    fn lit(b: &[u8], parts: &mut Vec<String>) { parts.push(coq_bytes(b)); }
    let mut parts: Vec<String> = Vec::new();
    let mut lit_start = 0usize;
    let mut i = 0usize;
    while i + 1 < b.len() {
        let d = b[i + 1].wrapping_sub(b[i]);
        let mut j = i + 1;
        while j + 1 < b.len() && b[j + 1].wrapping_sub(b[j]) == d { j += 1; }
        let run = j - i + 1;
        if run >= 1024 {
            if lit_start < i { lit(&b[lit_start..i], &mut parts); }
            parts.push(format!("arith {} {} {}", b[i], d, run));
            i = j + 1;
            lit_start = i;
        } else {
            i = j;
        }
    }
    if lit_start < b.len() { lit(&b[lit_start..], &mut parts); }
    if parts.is_empty() { return "[]".into() }
    if parts.len() == 1 && parts[0].starts_with('[') { return parts.pop().unwrap() }
    format!("({})", parts.join(" ++ "))
}

pub fn coq_z(z: i64) -> String { format!("({})%Z", z) }
pub fn coq_optz(o: &Option<i64>) -> String { coq_opt(o.map(coq_z)) }
pub fn coq_optbytes(o: &Option<Vec<u8>>) -> String { coq_opt(o.as_ref().map(|b| cb(b))) }
pub fn coq_map(m: &[(u64, Vec<u8>)]) -> String {
    coq_list(m.iter(), |(k, h)| format!("({}, {})", k, cb(h)))
}
fn coq_status(success: bool, time: i64) -> String {
    format!("({} {})", if success { "Success" } else { "LastAttempt" }, coq_z(time))
}

impl Val {
    pub fn coq(&self) -> String {
        match self {
            Val::U8(n) => format!("(VU8 {})", n),
            Val::U32(n) => format!("(VU32 {})", n),
            Val::U64(n) => format!("(VU64 {})", n),
            Val::I64(z) => format!("(VI64 {})", coq_z(*z)),
            Val::OptI64(o) => format!("(VOptI64 {})", coq_optz(o)),
            Val::Rsync(u) => format!("(VRsync {})", cb(u)),
            Val::Https(u) => format!("(VHttps {})", cb(u)),
            Val::OptHttps(o) => format!("(VOptHttps {})", coq_optbytes(o)),
            Val::Bytes(b) => format!("(VBytes {})", cb(b)),
            Val::OptBytes(o) => format!("(VOptBytes {})", coq_optbytes(o)),
            Val::Uuid(b) => format!("(VUuid {})", cb(b)),
            Val::Hash(b) => format!("(VHash {})", cb(b)),
            Val::Serial(b) => format!("(VSerial {})", cb(b)),
            Val::Time(t) => format!("(VTime {})", coq_z(*t)),
            Val::OptTime(o) => format!("(VOptTime {})", coq_optz(o)),
            Val::Map(m) => format!("(VMap {})", coq_map(m)),
            Val::Header { manifest_uri, rpki_notify, success, time } => format!(
                "(VHeader (mkHeader {} {} {}))", cb(manifest_uri), coq_optbytes(rpki_notify),
                coq_status(*success, *time)),
            Val::Status { success, time } => format!("(VStatus {})", coq_status(*success, *time)),
            Val::Manifest { not_after, number, this_update, ca_repository, manifest, crl_uri, crl } => format!(
                "(VManifest (mkManifest {} {} {} {} {} {} {}))", coq_z(*not_after), cb(number),
                coq_z(*this_update), cb(ca_repository), cb(manifest), cb(crl_uri),
                cb(crl)),
            Val::Object { uri, hash, content } => format!(
                "(VObject (mkObject {} {} {}))", cb(uri), coq_optbytes(hash), cb(content)),
            Val::End => "VEnd".into(),
            Val::StoredStatus(t) => format!("(VStoredStatus {})", coq_z(*t)),
            Val::State { notify, session, serial, updated, best_before, last_modified, etag, deltas } => format!(
                "(VState (mkState {} {} {} {} {} {} {} {}))", cb(notify), cb(session), serial,
                coq_z(*updated), coq_z(*best_before), coq_optz(last_modified), coq_optbytes(etag),
                coq_map(deltas)),
        }
    }

    /// Human-readable form for cases.jsonl (byte strings abbreviated when long).
    pub fn json(&self) -> Value {
        fn hx(b: &[u8]) -> Value {
            if b.len() <= 48 { json!(hex(b)) } else { json!(format!("{}..({} bytes)", hex(&b[..16]), b.len())) }
        }
        fn st(b: &[u8]) -> Value {
            if b.len() > 200 { return hx(b) }
            match std::str::from_utf8(b) { Ok(s) => json!(s), Err(_) => hx(b) }
        }
        fn oh(o: &Option<Vec<u8>>) -> Value { o.as_ref().map(|b| hx(b)).unwrap_or(Value::Null) }
        fn os(o: &Option<Vec<u8>>) -> Value { o.as_ref().map(|b| st(b)).unwrap_or(Value::Null) }
        fn mp(m: &[(u64, Vec<u8>)]) -> Value {
            if m.len() <= 4 { json!(m.iter().map(|(k, h)| json!([k, hx(h)])).collect::<Vec<_>>()) }
            else { json!(format!("{} entries, keys {:?}..", m.len(), m.iter().take(4).map(|e| e.0).collect::<Vec<_>>())) }
        }
        match self {
            Val::U8(n) => json!(n), Val::U32(n) => json!(n), Val::U64(n) => json!(n), Val::I64(n) => json!(n),
            Val::OptI64(o) => json!(o),
            Val::Rsync(u) | Val::Https(u) => st(u),
            Val::OptHttps(o) => os(o),
            Val::Bytes(b) | Val::Uuid(b) | Val::Hash(b) | Val::Serial(b) => hx(b),
            Val::OptBytes(o) => oh(o),
            Val::Time(t) | Val::StoredStatus(t) => json!(t),
            Val::OptTime(o) => json!(o),
            Val::Map(m) => mp(m),
            Val::Header { manifest_uri, rpki_notify, success, time } => json!({
                "manifest_uri": st(manifest_uri), "rpki_notify": os(rpki_notify), "success": success, "time": time}),
            Val::Status { success, time } => json!({"success": success, "time": time}),
            Val::Manifest { not_after, number, this_update, ca_repository, manifest, crl_uri, crl } => json!({
                "not_after": not_after, "manifest_number": hx(number), "this_update": this_update,
                "ca_repository": st(ca_repository), "manifest": hx(manifest), "crl_uri": st(crl_uri), "crl": hx(crl)}),
            Val::Object { uri, hash, content } => json!({"uri": st(uri), "hash": oh(hash), "content": hx(content)}),
            Val::End => json!("end-of-objects"),
            Val::State { notify, session, serial, updated, best_before, last_modified, etag, deltas } => json!({
                "rpki_notify": st(notify), "session": hx(session), "serial": serial, "updated_ts": updated,
                "best_before_ts": best_before, "last_modified_ts": last_modified, "etag": oh(etag),
                "delta_state": mp(deltas)}),
        }
    }
}

//------------ JSON case input -> real values -----------------------------------

pub fn unhex(s: &str) -> Vec<u8> {
    assert!(s.len() % 2 == 0, "odd hex");
    (0..s.len() / 2).map(|i| u8::from_str_radix(&s[2 * i..2 * i + 2], 16).expect("hex")).collect()
}
fn jbytes(v: &Value) -> Vec<u8> { unhex(v.as_str().expect("hex string")) }
fn jstr(v: &Value) -> Vec<u8> { v.as_str().expect("string").as_bytes().to_vec() }
fn jopt<T>(v: &Value, f: impl Fn(&Value) -> T) -> Option<T> { if v.is_null() { None } else { Some(f(v)) } }
fn ji64(v: &Value) -> i64 { v.as_i64().expect("i64") }
fn ju64(v: &Value) -> u64 { v.as_u64().expect("u64") }
/// A time is either whole seconds (number) or {"secs": .., "nanos": ..}.
fn jtime(v: &Value) -> Time {
    let (s, n) = if v.is_object() { (ji64(&v["secs"]), ju64(&v["nanos"]) as u32) } else { (ji64(v), 0) };
    Time::new(Utc.timestamp_opt(s, n).single().expect("time in chrono's range"))
}
fn jmap(v: &Value) -> Vec<(u64, Vec<u8>)> {
    v.as_array().expect("map").iter().map(|e| (ju64(&e[0]), jbytes(&e[1]))).collect()
}
fn rsync(b: Vec<u8>) -> uri::Rsync { uri::Rsync::from_bytes(Bytes::from(b)).expect("valid rsync URI") }
fn https(b: Vec<u8>) -> uri::Https { uri::Https::from_bytes(Bytes::from(b)).expect("valid https URI") }
fn hash32(b: &[u8]) -> rrdp::Hash { let a: [u8; 32] = b.try_into().expect("32 bytes"); a.into() }

fn enc<T: Compose<Vec<u8>>>(t: &T) -> Result<Vec<u8>, String> {
    let mut w = Vec::new();
    t.compose(&mut w).map_err(|e| e.to_string())?;
    Ok(w)
}
fn wr(f: impl FnOnce(&mut Vec<u8>) -> Result<(), io::Error>) -> Result<Vec<u8>, String> {
    let mut w = Vec::new();
    f(&mut w).map_err(|e| e.to_string())?;
    Ok(w)
}

/// Builds the real value described by `v`, encodes it with the real encoder and returns the
/// bytes (or the encoder's error) and the model-level value (times as whole seconds; hash maps
/// in the iteration order of the very HashMap instance that was encoded).
pub fn encode_impl(kind: &str, v: &Value) -> (Result<Vec<u8>, String>, Val) {
    match kind {
        "u8" => { let x = ju64(v) as u8; (enc(&x), Val::U8(x)) }
        "u32" => { let x = ju64(v) as u32; (enc(&x), Val::U32(x)) }
        "u64" => { let x = ju64(v); (enc(&x), Val::U64(x)) }
        "i64" => { let x = ji64(v); (enc(&x), Val::I64(x)) }
        "opt_i64" => { let x = jopt(v, ji64); (enc(&x), Val::OptI64(x)) }
        "rsync" => { let b = jstr(v); (enc(&rsync(b.clone())), Val::Rsync(b)) }
        "https" => { let b = jstr(v); (enc(&https(b.clone())), Val::Https(b)) }
        "opt_https" => { let b = jopt(v, jstr); (enc(&b.clone().map(https)), Val::OptHttps(b)) }
        "bytes" => { let b = jbytes(v); (enc(&Bytes::from(b.clone())), Val::Bytes(b)) }
        "opt_bytes" => { let b = jopt(v, jbytes); (enc(&b.clone().map(Bytes::from)), Val::OptBytes(b)) }
        "uuid" => { let b = jbytes(v); (enc(&Uuid::from_bytes(b.as_slice().try_into().expect("16 bytes"))), Val::Uuid(b)) }
        "hash" => { let b = jbytes(v); (enc(&hash32(&b)), Val::Hash(b)) }
        "serial" => {
            let b = jbytes(v);
            let s = Serial::from_array(b.as_slice().try_into().expect("20 bytes")).expect("serial");
            (enc(&s), Val::Serial(b))
        }
        "time" => { let t = jtime(v); (enc(&t), Val::Time(t.timestamp())) }
        "opt_time" => { let t = jopt(v, jtime); (enc(&t), Val::OptTime(t.map(|t| t.timestamp()))) }
        "map" => {
            let m: HashMap<u64, rrdp::Hash> = jmap(v).into_iter().map(|(k, h)| (k, hash32(&h))).collect();
            let order = m.iter().map(|(k, h)| (*k, h.as_slice().to_vec())).collect();
            (enc(&m), Val::Map(order))
        }
        "header" => {
            let (m, n, s, t) = (jstr(&v["manifest_uri"]), jopt(&v["rpki_notify"], jstr),
                                v["success"].as_bool().unwrap(), jtime(&v["time"]));
            let h = StoredPointHeader::verif_from_parts(rsync(m.clone()), n.clone().map(https), s, t);
            (wr(|w| h.write(w)), Val::Header { manifest_uri: m, rpki_notify: n, success: s, time: t.timestamp() })
        }
        "status" => {
            let (s, t) = (v["success"].as_bool().unwrap(), jtime(&v["time"]));
            (wr(|w| StoredPointHeader::verif_status_write(s, t, w)), Val::Status { success: s, time: t.timestamp() })
        }
        "manifest" => {
            let num = jbytes(&v["manifest_number"]);
            let m = StoredManifest {
                not_after: jtime(&v["not_after"]),
                manifest_number: Serial::from_array(num.as_slice().try_into().expect("20 bytes")).expect("serial"),
                this_update: jtime(&v["this_update"]),
                ca_repository: rsync(jstr(&v["ca_repository"])),
                manifest: Bytes::from(jbytes(&v["manifest"])),
                crl_uri: rsync(jstr(&v["crl_uri"])),
                crl: Bytes::from(jbytes(&v["crl"])),
            };
            (wr(|w| m.write(w)), val_of_manifest(&m))
        }
        "object" => {
            let o = StoredObject::new(
                rsync(jstr(&v["uri"])), Bytes::from(jbytes(&v["content"])),
                jopt(&v["hash"], jbytes).map(|h| ManifestHash::new(Bytes::from(h), DigestAlgorithm::sha256())));
            (wr(|w| o.write(w)), val_of_object(&o))
        }
        "stored_status" => {
            let t = jtime(&v["time"]);
            (wr(|w| StoredStatus::new(t).write(w)), Val::StoredStatus(t.timestamp()))
        }
        "state" => {
            let m: HashMap<u64, rrdp::Hash> = jmap(&v["delta_state"]).into_iter().map(|(k, h)| (k, hash32(&h))).collect();
            let order: Vec<(u64, Vec<u8>)> = m.iter().map(|(k, h)| (*k, h.as_slice().to_vec())).collect();
            let st = RrdpArchive::verif_state_new(
                https(jstr(&v["rpki_notify"])),
                Uuid::from_bytes(jbytes(&v["session"]).as_slice().try_into().expect("16 bytes")),
                ju64(&v["serial"]), ji64(&v["updated_ts"]), ji64(&v["best_before_ts"]),
                jopt(&v["last_modified_ts"], ji64), jopt(&v["etag"], jbytes).map(Bytes::from), m);
            let val = Val::State {
                notify: st.rpki_notify.as_slice().to_vec(), session: st.session.as_bytes().to_vec(),
                serial: st.serial, updated: st.updated_ts, best_before: st.best_before_ts,
                last_modified: st.last_modified_ts, etag: st.etag.as_ref().map(|b| b.to_vec()), deltas: order };
            (wr(|w| RrdpArchive::verif_state_compose(&st, w)), val)
        }
        k => panic!("unknown kind {}", k),
    }
}

fn val_of_manifest(m: &StoredManifest) -> Val {
    Val::Manifest {
        not_after: m.not_after.timestamp(), number: m.manifest_number.into_array().to_vec(),
        this_update: m.this_update.timestamp(), ca_repository: m.ca_repository.as_slice().to_vec(),
        manifest: m.manifest.to_vec(), crl_uri: m.crl_uri.as_slice().to_vec(), crl: m.crl.to_vec() }
}
fn val_of_object(o: &StoredObject) -> Val {
    Val::Object { uri: o.uri.as_slice().to_vec(), hash: o.hash.as_ref().map(|h| h.as_slice().to_vec()),
                  content: o.content.to_vec() }
}

//------------ decoding with the real decoders ------------------------------------

#[derive(Clone, Debug, PartialEq)]
pub enum Dec {
    Ok(Val, Vec<u8>),
    Eof,
    Format,
    /// anything else: fatal I/O error, or a decoded value outside the format's value domain
    Other(String),
    Panic(String),
    Abort(String),
}

impl Dec {
    pub fn coq(&self) -> String {
        match self {
            Dec::Ok(v, rest) => format!("(DOk {} {})", v.coq(), cb(rest)),
            Dec::Eof => "DEof".into(),
            Dec::Format => "DFormat".into(),
            Dec::Other(_) => "DOther".into(),
            Dec::Panic(_) => "DPanic".into(),
            Dec::Abort(_) => "DAbort".into(),
        }
    }
    pub fn json(&self) -> Value {
        match self {
            Dec::Ok(v, rest) => json!({"ok": v.json(), "remaining": rest.len()}),
            Dec::Eof => json!("error: unexpected end of input"),
            Dec::Format => json!("error: format"),
            Dec::Other(s) => json!({"other": s}),
            Dec::Panic(s) => json!({"panic": s}),
            Dec::Abort(s) => json!({"abort": s}),
        }
    }
    pub fn to_wire(&self) -> Value {
        match self {
            Dec::Ok(v, rest) => json!({"t": "ok", "coq": v.coq(), "json": v.json(), "rest": hex(rest)}),
            Dec::Eof => json!({"t": "eof"}),
            Dec::Format => json!({"t": "format"}),
            Dec::Other(s) => json!({"t": "other", "s": s}),
            Dec::Panic(s) => json!({"t": "panic", "s": s}),
            Dec::Abort(s) => json!({"t": "abort", "s": s}),
        }
    }
}

/// Measurement hooks (set by c27): called right before and right after each call of the real decoder, so that
/// conversions done by the harness are not counted.
pub static HOOKS: std::sync::OnceLock<(fn(), fn())> = std::sync::OnceLock::new();
fn measured<T>(f: impl FnOnce() -> T) -> T {
    match HOOKS.get() {
        Some((start, stop)) => { start(); let r = f(); stop(); r }
        None => f(),
    }
}

fn perr<T>(e: ParseError) -> Result<T, Dec> {
    Err(if e.is_eof() { Dec::Eof } else if !e.is_fatal() { Dec::Format } else { Dec::Other(format!("fatal: {}", e)) })
}
fn ioerr<T>(e: io::Error) -> Result<T, Dec> {
    Err(if e.kind() == io::ErrorKind::UnexpectedEof { Dec::Eof }
        else if e.kind() == io::ErrorKind::Other { Dec::Format }
        else { Dec::Other(format!("io: {}", e)) })
}
fn p<T: for<'a> Parse<&'a [u8]>>(r: &mut &[u8]) -> Result<T, Dec> {
    match measured(|| T::parse(r)) { Ok(x) => Ok(x), Err(e) => perr(e) }
}
fn secs(t: Time) -> Result<i64, Dec> {
    if t.timestamp_subsec_nanos() != 0 { Err(Dec::Other("decoded time has a sub-second part".into())) }
    else { Ok(t.timestamp()) }
}

fn decode_inner(kind: &str, r: &mut &[u8]) -> Result<Val, Dec> {
    Ok(match kind {
        "u8" => Val::U8(p(r)?),
        "u32" => Val::U32(p(r)?),
        "u64" => Val::U64(p(r)?),
        "i64" => Val::I64(p(r)?),
        "opt_i64" => Val::OptI64(p(r)?),
        "rsync" => Val::Rsync(p::<uri::Rsync>(r)?.as_slice().to_vec()),
        "https" => Val::Https(p::<uri::Https>(r)?.as_slice().to_vec()),
        "opt_https" => Val::OptHttps(p::<Option<uri::Https>>(r)?.map(|u| u.as_slice().to_vec())),
        "bytes" => Val::Bytes(p::<Bytes>(r)?.to_vec()),
        "opt_bytes" => Val::OptBytes(p::<Option<Bytes>>(r)?.map(|b| b.to_vec())),
        "uuid" => Val::Uuid(p::<Uuid>(r)?.as_bytes().to_vec()),
        "hash" => Val::Hash(p::<rrdp::Hash>(r)?.as_slice().to_vec()),
        "serial" => Val::Serial(p::<Serial>(r)?.into_array().to_vec()),
        "time" => Val::Time(secs(p::<Time>(r)?)?),
        "opt_time" => Val::OptTime(match p::<Option<Time>>(r)? { Some(t) => Some(secs(t)?), None => None }),
        "map" => {
            let m: HashMap<u64, rrdp::Hash> = p(r)?;
            let mut l: Vec<(u64, Vec<u8>)> = m.iter().map(|(k, h)| (*k, h.as_slice().to_vec())).collect();
            l.sort();
            Val::Map(l)
        }
        "header" => {
            let h = match measured(|| StoredPointHeader::read(r)) { Ok(h) => h, Err(e) => return perr(e) };
            let (m, n, s, t) = h.verif_parts();
            Val::Header { manifest_uri: m.as_slice().to_vec(), rpki_notify: n.map(|u| u.as_slice().to_vec()),
                          success: s, time: secs(t)? }
        }
        "status" => {
            let (s, t) = match measured(|| StoredPointHeader::verif_status_read(r)) { Ok(x) => x, Err(e) => return perr(e) };
            Val::Status { success: s, time: secs(t)? }
        }
        "manifest" => {
            let m = match measured(|| StoredManifest::read(r)) { Ok(m) => m, Err(e) => return perr(e) };
            secs(m.not_after)?; secs(m.this_update)?;
            val_of_manifest(&m)
        }
        "object" => match measured(|| StoredObject::read(r)) {
            Ok(Some(o)) => {
                if let Some(h) = o.hash.as_ref() { if !h.algorithm().is_sha256() { return Err(Dec::Other("hash algorithm".into())) } }
                val_of_object(&o)
            }
            Ok(None) => Val::End,
            Err(e) => return perr(e),
        },
        "stored_status" => {
            let s = match measured(|| StoredStatus::read(r)) { Ok(s) => s, Err(e) => return perr(e) };
            Val::StoredStatus(secs(s.last_update)?)
        }
        "state" => {
            let st = match measured(|| RrdpArchive::verif_state_parse(r)) { Ok(s) => s, Err(e) => return ioerr(e) };
            let mut l: Vec<(u64, Vec<u8>)> = st.delta_state.iter().map(|(k, h)| (*k, h.as_slice().to_vec())).collect();
            l.sort();
            Val::State {
                notify: st.rpki_notify.as_slice().to_vec(), session: st.session.as_bytes().to_vec(),
                serial: st.serial, updated: st.updated_ts, best_before: st.best_before_ts,
                last_modified: st.last_modified_ts, etag: st.etag.as_ref().map(|b| b.to_vec()), deltas: l }
        }
        k => panic!("unknown kind {}", k),
    })
}

/// Runs the real decoder of `kind` on `data` (from a byte slice). Hash maps come back sorted by key.
pub fn decode_impl(kind: &str, data: &[u8]) -> Dec {
    let mut r: &[u8] = data;
    match decode_inner(kind, &mut r) {
        Ok(v) => Dec::Ok(v, r.to_vec()),
        Err(d) => d,
    }
}

//------------ generator of valid values (JSON case inputs) -----------------------

// chrono 0.4.45: seconds of -262143-01-01T00:00:00Z and +262142-12-31T23:59:59Z
pub const TIME_MIN: i64 = -8334601228800;
pub const TIME_MAX: i64 = 8210266876799;

pub fn gen_bytes(rng: &mut Rng, n: usize) -> Vec<u8> { (0..n).map(|_| rng.next() as u8).collect() }

const URI_CHARS: &[u8] = b"!$%&'()*+,-.0123456789:;=ABCDEFGHIJKLMNOPQRSTUVWXYZ_abcdefghijklmnopqrstuvwxyz~";

fn gen_seg(rng: &mut Rng, max: u64) -> String {
    loop {
        let n = rng.range(1, max);
        let s: String = (0..n).map(|_| *rng.pick(URI_CHARS) as char).collect();
        if s != "." && s != ".." { return s }
    }
}
fn gen_scheme(rng: &mut Rng, s: &str) -> String {
    if rng.chance(1, 5) { s.chars().map(|c| if rng.chance(1, 2) { c.to_ascii_uppercase() } else { c }).collect() } else { s.into() }
}
pub fn gen_rsync(rng: &mut Rng) -> String {
    let mut s = format!("{}://{}/{}/", gen_scheme(rng, "rsync"), gen_seg(rng, 12), gen_seg(rng, 8));
    let depth = rng.below(4);
    for i in 0..depth {
        s.push_str(&gen_seg(rng, 10));
        if i + 1 < depth || rng.chance(1, 3) { s.push('/'); }
    }
    if rng.chance(1, 40) { for _ in 0..rng.range(1, 30) { s.push_str("abcdefghijklmnopqrstuvwxyz0123456789"); } }
    s
}
pub fn gen_https(rng: &mut Rng) -> String {
    let mut s = format!("{}://", gen_scheme(rng, "https"));
    // anything of URI characters may follow the scheme (rpki::uri::Https::from_bytes checks no more)
    match rng.below(6) {
        0 => {}
        1 => { s.push_str(&gen_seg(rng, 20)); }
        _ => {
            s.push_str(&gen_seg(rng, 14));
            for _ in 0..rng.below(4) { s.push('/'); if rng.chance(4, 5) { s.push_str(&gen_seg(rng, 10)); } }
        }
    }
    s
}
pub fn gen_i64(rng: &mut Rng) -> i64 {
    match rng.below(10) {
        0 => *rng.pick(&[0, 1, -1, i64::MAX, i64::MIN, i64::MIN + 1, i64::MAX - 1, 255, 256, -256, 1 << 32, -(1 << 32),
                         1 << 62, -(1 << 62), TIME_MIN, TIME_MAX, TIME_MIN - 1, TIME_MAX + 1]),
        1 | 2 => rng.next() as i64,
        3 => (rng.next() >> rng.below(64)) as i64,
        4 => -((rng.next() >> rng.below(63)) as i64),
        _ => 1_500_000_000 + rng.below(400_000_000) as i64,
    }
}
pub fn gen_u64(rng: &mut Rng) -> u64 {
    match rng.below(6) {
        0 => *rng.pick(&[0, 1, 255, 256, 65535, 65536, u32::MAX as u64, 1 << 32, 1 << 63, u64::MAX - 1, u64::MAX]),
        1 => rng.next(),
        2 => rng.next() >> rng.below(64),
        _ => rng.below(100_000),
    }
}
/// A time inside chrono's range; JSON form: number, or object with nanos when `sub`.
pub fn gen_time(rng: &mut Rng, sub: bool) -> Value {
    let s = match rng.below(10) {
        0 => *rng.pick(&[TIME_MIN, TIME_MAX, TIME_MIN + 1, TIME_MAX - 1, 0, -1, 1, 86399, 86400, -86400, -86401,
                         253402300799, 253402300800, -62135596800, -62135596801]),
        1 => TIME_MIN + rng.below((TIME_MAX - TIME_MIN) as u64) as i64,
        2 => -(rng.below(4_000_000_000) as i64),
        _ => 1_200_000_000 + rng.below(900_000_000) as i64,
    };
    if sub { json!({"secs": s, "nanos": 1 + rng.below(999_999_999)}) } else { json!(s) }
}
pub fn gen_blob(rng: &mut Rng) -> Vec<u8> {
    let n = match rng.below(20) { 0 => 0, 1 => 1, 2 => rng.range(200, 700), 3 => rng.range(255, 257), _ => rng.below(40) };
    gen_bytes(rng, n as usize)
}
pub fn gen_serial(rng: &mut Rng) -> Vec<u8> {
    let mut b = match rng.below(5) {
        0 => vec![0u8; 20],
        1 => vec![0xFFu8; 20],
        2 => { let mut v = vec![0u8; 20]; v[19] = rng.next() as u8; v }
        _ => gen_bytes(rng, 20),
    };
    b[0] &= 0x7F;
    b
}
pub fn gen_map(rng: &mut Rng, max: u64) -> Value {
    let n = match rng.below(8) { 0 => 0, 1 => 1, 2 => 2, 3 => rng.below(max + 1), _ => rng.below(12) };
    let mut keys = std::collections::BTreeSet::new();
    let base = gen_u64(rng);
    while (keys.len() as u64) < n {
        keys.insert(if rng.chance(3, 4) { base.wrapping_add(rng.below(2 * n + 2)) } else { gen_u64(rng) });
    }
    json!(keys.into_iter().map(|k| json!([k, hex(&gen_bytes(rng, 32))])).collect::<Vec<_>>())
}
fn gen_etag(rng: &mut Rng) -> Value {
    match rng.below(5) {
        0 => Value::Null,
        1 => json!(""),
        2 => { let n = rng.below(50) as usize; json!(hex(&gen_bytes(rng, n))) }
        _ => json!(hex(format!("{}\"{:x}\"", if rng.chance(1, 3) { "W/" } else { "" }, rng.next()).as_bytes())),
    }
}

/// One valid value of `kind`. `sub`: times carry a sub-second part (what `Time::now()` produces).
pub fn gen_value(rng: &mut Rng, kind: &str, sub: bool) -> Value {
    match kind {
        "u8" => json!(rng.below(256)),
        "u32" => json!(gen_u64(rng) as u32),
        "u64" => json!(gen_u64(rng)),
        "i64" => json!(gen_i64(rng)),
        "opt_i64" => if rng.chance(1, 4) { Value::Null } else { json!(gen_i64(rng)) },
        "rsync" => json!(gen_rsync(rng)),
        "https" => json!(gen_https(rng)),
        "opt_https" => if rng.chance(1, 4) { Value::Null } else { json!(gen_https(rng)) },
        "bytes" => json!(hex(&gen_blob(rng))),
        "opt_bytes" => if rng.chance(1, 4) { Value::Null } else { json!(hex(&gen_blob(rng))) },
        "uuid" => json!(hex(&gen_bytes(rng, 16))),
        "hash" => json!(hex(&gen_bytes(rng, 32))),
        "serial" => json!(hex(&gen_serial(rng))),
        "time" => gen_time(rng, sub),
        "opt_time" => if rng.chance(1, 4) { Value::Null } else { gen_time(rng, sub) },
        "map" => gen_map(rng, 40),
        "header" => json!({
            "manifest_uri": gen_rsync(rng),
            "rpki_notify": if rng.chance(1, 3) { Value::Null } else { json!(gen_https(rng)) },
            "success": rng.chance(1, 2), "time": gen_time(rng, sub)}),
        "status" => json!({"success": rng.chance(1, 2), "time": gen_time(rng, sub)}),
        "manifest" => json!({
            "not_after": gen_time(rng, sub), "manifest_number": hex(&gen_serial(rng)), "this_update": gen_time(rng, sub),
            "ca_repository": gen_rsync(rng), "manifest": hex(&gen_blob(rng)), "crl_uri": gen_rsync(rng),
            "crl": hex(&gen_blob(rng))}),
        "object" => json!({
            "uri": gen_rsync(rng),
            "hash": if rng.chance(1, 3) { Value::Null } else { json!(hex(&gen_bytes(rng, 32))) },
            "content": hex(&gen_blob(rng))}),
        "stored_status" => json!({"time": gen_time(rng, sub)}),
        "state" => json!({
            "rpki_notify": gen_https(rng), "session": hex(&gen_bytes(rng, 16)), "serial": gen_u64(rng),
            "updated_ts": gen_i64(rng), "best_before_ts": gen_i64(rng),
            "last_modified_ts": if rng.chance(1, 3) { Value::Null } else { json!(gen_i64(rng)) },
            "etag": gen_etag(rng), "delta_state": gen_map(rng, 40)}),
        k => panic!("unknown kind {}", k),
    }
}

pub fn has_time(kind: &str) -> bool {
    matches!(kind, "time" | "opt_time" | "header" | "status" | "manifest" | "stored_status")
}
