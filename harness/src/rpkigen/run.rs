//! Serving a built world from a local directory and running the real `routinator::engine::Engine`
//! on it through the rsync transport (RRDP disabled, `rsync-command` = a harness-written script).

use std::collections::{BTreeMap, BTreeSet};
use std::net::IpAddr;
use std::path::{Path, PathBuf};
use std::sync::Mutex;
use routinator::config::{Config, FilterPolicy};
use routinator::engine::Engine;
use routinator::payload::ValidationReport;
use routinator::slurm::LocalExceptions;
use routinator::store::StoredPoint;
use serde::{Deserialize, Serialize};
use crate::util::hex;
use super::build::{module_of, Built};

//------------ what to serve ---------------------------------------------------

/// Which state of the world the "network" shows in the next run.
#[derive(Serialize, Deserialize, Clone, Debug, Default, PartialEq)]
pub struct ServePlan {
    /// Default step: every CA serves version `min(step, last)`, every TA URI its entry `min(step, last)`.
    pub step: usize,
    /// Per CA id: `Some(v)` = serve version `v`, `None` = serve none of its files.
    #[serde(default)]
    pub ca_version: BTreeMap<String, Option<usize>>,
    /// Modules (`host/module`) that cannot be reached in this run: the fake rsync exits non-zero
    /// for them and the collector keeps whatever copy it has.
    #[serde(default)]
    pub unreachable: BTreeSet<String>,
}

impl ServePlan {
    pub fn step(step: usize) -> Self { ServePlan { step, ..Default::default() } }
    pub fn unreachable(mut self, module: &str) -> Self { self.unreachable.insert(module.into()); self }
    pub fn with_version(mut self, ca: &str, v: Option<usize>) -> Self { self.ca_version.insert(ca.into(), v); self }
}

//------------ configuration of a run -------------------------------------------

#[derive(Serialize, Deserialize, Clone, Debug, PartialEq)]
pub struct RunCfg {
    pub strict: bool,
    /// "reject" | "warn" | "accept"
    pub stale: String,
    pub unsafe_vrps: String,
    pub enable_bgpsec: bool,
    pub enable_aspa: bool,
    pub max_ca_depth: usize,
    pub validation_threads: usize,
    pub limit_v4_len: Option<u8>,
    pub limit_v6_len: Option<u8>,
    /// `config.dirty_repository`: skip the cleanup after the run.
    pub dirty: bool,
    /// Run without the collector (`Engine::new(config, false)`): only the store is used.
    pub no_update: bool,
    /// SLURM JSON text applied in `into_snapshot` (None = no exceptions).
    pub slurm: Option<String>,
}

impl Default for RunCfg {
    /// Routinator's defaults except BGPsec and ASPA enabled and one validation thread.
    fn default() -> Self {
        RunCfg {
            strict: false, stale: "reject".into(), unsafe_vrps: "accept".into(), enable_bgpsec: true, enable_aspa: true,
            max_ca_depth: 32, validation_threads: 1, limit_v4_len: None, limit_v6_len: None, dirty: false,
            no_update: false, slurm: None,
        }
    }
}

pub fn policy_of(s: &str) -> FilterPolicy {
    match s {
        "accept" => FilterPolicy::Accept,
        "warn" => FilterPolicy::Warn,
        "reject" => FilterPolicy::Reject,
        x => panic!("unknown policy {}", x),
    }
}

//------------ result of a run ---------------------------------------------------

#[derive(Serialize, Deserialize, Clone, Debug, PartialEq, Eq, PartialOrd, Ord)]
pub struct OriginOut { pub prefix: String, pub v4: bool, pub addr: String, pub len: u8, pub max_len: u8, pub asn: u32 }
#[derive(Serialize, Deserialize, Clone, Debug, PartialEq, Eq, PartialOrd, Ord)]
pub struct RouterKeyOut { pub key_id: String, pub asn: u32, pub key_info: String }
#[derive(Serialize, Deserialize, Clone, Debug, PartialEq, Eq, PartialOrd, Ord)]
pub struct AspaOut { pub customer: u32, pub providers: Vec<u32> }

/// The payload of a snapshot, each list sorted.
#[derive(Serialize, Deserialize, Clone, Debug, PartialEq, Eq, Default)]
pub struct PayloadOut {
    pub origins: Vec<OriginOut>,
    pub router_keys: Vec<RouterKeyOut>,
    pub aspas: Vec<AspaOut>,
}

/// `PublicationMetrics` of the whole run (sum over all publication points).
#[derive(Serialize, Deserialize, Clone, Debug, PartialEq, Eq, Default)]
pub struct PubMetricsOut {
    pub valid_points: u32, pub rejected_points: u32,
    pub valid_manifests: u32, pub invalid_manifests: u32, pub premature_manifests: u32,
    pub stale_manifests: u32, pub missing_manifests: u32,
    pub valid_crls: u32, pub invalid_crls: u32, pub stale_crls: u32, pub stray_crls: u32,
    pub valid_ca_certs: u32, pub valid_router_certs: u32, pub invalid_certs: u32,
    pub valid_roas: u32, pub invalid_roas: u32, pub valid_gbrs: u32, pub invalid_gbrs: u32,
    pub valid_aspas: u32, pub invalid_aspas: u32, pub others: u32,
}

#[derive(Serialize, Deserialize, Clone, Debug, PartialEq, Eq, Default)]
pub struct VrpMetricsOut { pub valid: u32, pub marked_unsafe: u32, pub locally_filtered: u32, pub duplicate: u32, pub contributed: u32 }

#[derive(Serialize, Deserialize, Clone, Debug, PartialEq, Eq, Default)]
pub struct MetricsOut {
    pub publication: PubMetricsOut,
    /// `(module URI, exit status was success)` for every module the collector tried, sorted.
    pub rsync: Vec<(String, bool)>,
    pub v4_origins: VrpMetricsOut,
    pub v6_origins: VrpMetricsOut,
    pub router_keys: VrpMetricsOut,
    pub aspas: VrpMetricsOut,
    /// `(TAL name, valid_points, rejected_points)`
    pub tals: Vec<(String, u32, u32)>,
}

/// One publication point as found in the store after a run.
#[derive(Serialize, Deserialize, Clone, Debug, PartialEq, Eq)]
pub struct StoredPointOut {
    pub manifest_uri: String,
    /// `None`: the point exists but holds no manifest (never successfully updated / rejected).
    pub manifest_number: Option<u64>,
    /// thisUpdate / EE notAfter as offsets from `Built::now`.
    pub this_update: Option<i64>,
    pub not_after: Option<i64>,
    /// SHA-256 (hex) of the stored manifest bytes (= `MftTruth::sha256` of the version it came from).
    pub manifest_sha256: Option<String>,
    /// The stored objects (full URIs) in stored order.
    pub objects: Vec<String>,
}

#[derive(Serialize, Deserialize, Clone, Debug, PartialEq, Eq)]
pub struct RunOutcome {
    /// "ok", "retry" or "fatal" (`ValidationReport::process`), or "engine: ..." if `Engine::new` failed.
    pub result: String,
    pub payload: PayloadOut,
    /// `snapshot.refresh()` as an offset from `Built::now` (seconds).
    pub refresh: Option<i64>,
    pub metrics: MetricsOut,
    /// Store content after the run, sorted by manifest URI.
    pub store: Vec<StoredPointOut>,
    /// Modules the fake rsync was asked for in this run, in order.
    pub fetched: Vec<String>,
    /// Process log lines of level warn and above plus per-publication-point log books
    /// (only meaningful when runs do not overlap in time within the process).
    pub log: Vec<String>,
    /// Wall-clock milliseconds of the engine run.
    pub millis: u64,
}

//------------ log capture ---------------------------------------------------------

static LOG_LINES: Mutex<Vec<String>> = Mutex::new(Vec::new());
struct Capture;
impl log::Log for Capture {
    fn enabled(&self, m: &log::Metadata) -> bool { m.level() <= log::Level::Warn }
    fn log(&self, r: &log::Record) {
        if self.enabled(r.metadata()) {
            if let Ok(mut l) = LOG_LINES.lock() { l.push(format!("{}: {}", r.level(), r.args())); }
        }
    }
    fn flush(&self) { }
}
static CAPTURE: Capture = Capture;

//------------ the binary itself as the rsync command ----------------------------------

static SELF_RSYNC: std::sync::atomic::AtomicBool = std::sync::atomic::AtomicBool::new(false);
const CHILD_ENV: &str = "RPKIGEN_ACT_AS_RSYNC";

/// Call this **first thing in `main()`** of a binary that runs worlds.
///
/// Routinator starts its rsync command once per module (and once with `-h` per engine).  With
/// this call the running binary itself is used as that command (one process per fetch instead
/// of `sh` + `rsync`): in the parent the function only registers the fact and returns; in a
/// child started by Routinator (recognised by an environment variable the parent sets) it
/// performs the copy `<dir>/served/<host>/<module>/` -> destination and exits.
/// Without the call `World` falls back to the shell script `<dir>/fake-rsync.sh`.
pub fn act_as_rsync_if_child() {
    if std::env::var_os(CHILD_ENV).is_none() {
        std::env::set_var(CHILD_ENV, "1");
        SELF_RSYNC.store(true, std::sync::atomic::Ordering::SeqCst);
        return
    }
    let args: Vec<String> = std::env::args().skip(1).collect();
    if args.first().map(|a| a == "-h" || a == "--help" || a == "--version").unwrap_or(true) {
        println!("rpkigen fake rsync");
        std::process::exit(0);
    }
    std::process::exit(fake_rsync(&args));
}

#[derive(Clone, Copy, Debug, PartialEq, Eq)]
pub enum RsyncMode { InProcess, SelfExe, Script }

/// How fetches are performed (see notes/rpkigen.md section 5):
/// `RPKIGEN_RSYNC=script|self|inprocess` selects explicitly; the default is `inprocess` (the
/// cfg(routinator_verif) hook `verif_rpkigen` in /repo/src/collector/rsync.rs, no process per
/// fetch) unless `RPKIGEN_USE_SCRIPT` is set.
pub fn rsync_mode() -> RsyncMode {
    match std::env::var("RPKIGEN_RSYNC").ok().as_deref() {
        Some("script") => return RsyncMode::Script,
        Some("self") => return if SELF_RSYNC.load(std::sync::atomic::Ordering::SeqCst) { RsyncMode::SelfExe } else { RsyncMode::Script },
        Some("inprocess") => return RsyncMode::InProcess,
        _ => { }
    }
    if std::env::var_os("RPKIGEN_USE_SCRIPT").is_some() { return RsyncMode::Script }
    RsyncMode::InProcess
}

/// `[args..] rsync://host/module/ <dir>/cache/rsync/host/module/`
fn fake_rsync(args: &[String]) -> i32 {
    if args.len() < 2 { eprintln!("fake rsync: too few arguments"); return 2 }
    let (src, dst) = (&args[args.len() - 2], &args[args.len() - 1]);
    let rel = match src.strip_prefix("rsync://") { Some(r) => r, None => { eprintln!("fake rsync: bad source '{}'", src); return 2 } };
    let pos = match dst.find("/cache/rsync/") { Some(p) => p, None => { eprintln!("fake rsync: unexpected destination '{}'", dst); return 2 } };
    let base = Path::new(&dst[..pos]);
    {
        use std::io::Write;
        if let Ok(mut f) = std::fs::OpenOptions::new().create(true).append(true).open(base.join("fetch.log")) {
            let _ = writeln!(f, "{}", rel);
        }
    }
    let from = base.join("served").join(rel);
    if !from.is_dir() { eprintln!("fake rsync: cannot reach {}", src); return 10 }
    let to = Path::new(dst);
    fn clear(dir: &Path) -> std::io::Result<()> {
        for e in std::fs::read_dir(dir)? {
            let p = e?.path();
            if p.is_dir() { std::fs::remove_dir_all(&p)?; } else { std::fs::remove_file(&p)?; }
        }
        Ok(())
    }
    fn copy(from: &Path, to: &Path) -> std::io::Result<()> {
        std::fs::create_dir_all(to)?;
        for e in std::fs::read_dir(from)? {
            let e = e?;
            let (p, t) = (e.path(), to.join(e.file_name()));
            if p.is_dir() { copy(&p, &t)?; } else { std::fs::copy(&p, &t)?; }
        }
        Ok(())
    }
    match std::fs::create_dir_all(to).and_then(|_| clear(to)).and_then(|_| copy(&from, to)) {
        Ok(()) => 0,
        Err(e) => { eprintln!("fake rsync: {}", e); 11 }
    }
}

//------------ the world -------------------------------------------------------------

/// A built world placed in a scratch directory:
/// `<dir>/served/<host>/<module>/...` (what the fake rsync copies from), `<dir>/tals/*.tal`,
/// `<dir>/cache` (Routinator's `repository-dir`; persists between runs), `<dir>/fake-rsync.sh`.
pub struct World {
    pub built: Built,
    pub dir: PathBuf,
    _tmp: Option<tempfile::TempDir>,
}

const SCRIPT: &str = r#"#!/bin/sh
# rpkigen stand-in for rsync: copies rsync://host/module/ from ROOT/host/module/ with the real rsync.
# Invoked by routinator as: <cmd> -h   and   <cmd> [args] -rtO --delete rsync://host/module/ <dest>/
ROOT="@ROOT@"
LOG="@LOG@"
case "$1" in -h|--help|--version) echo "rpkigen fake rsync"; exit 0;; esac
src=""; dst=""
for a in "$@"; do src="$dst"; dst="$a"; done
case "$src" in rsync://*) ;; *) echo "fake rsync: bad source '$src'" >&2; exit 2;; esac
rel="${src#rsync://}"
echo "$rel" >> "$LOG"
if [ ! -d "$ROOT/$rel" ]; then echo "fake rsync: cannot reach $src" >&2; exit 10; fi
exec rsync -rtI --delete "$ROOT/$rel" "$dst"
"#;

impl World {
    /// Places `built` in a fresh temporary directory (removed when the value is dropped) and serves step 0.
    pub fn new(built: Built) -> Result<World, String> {
        let tmp = tempfile::Builder::new().prefix("rpkigen-").tempdir().map_err(|e| e.to_string())?;
        let dir = tmp.path().to_path_buf();
        let mut w = World { built, dir, _tmp: Some(tmp) };
        w.init()?;
        Ok(w)
    }

    /// As `new` but in a directory of the caller's choice (created; not removed afterwards).
    pub fn new_in(built: Built, dir: &Path) -> Result<World, String> {
        std::fs::create_dir_all(dir).map_err(|e| e.to_string())?;
        let mut w = World { built, dir: dir.to_path_buf(), _tmp: None };
        w.init()?;
        Ok(w)
    }

    fn init(&mut self) -> Result<(), String> {
        let e = |e: std::io::Error| e.to_string();
        std::fs::create_dir_all(self.dir.join("tals")).map_err(e)?;
        std::fs::create_dir_all(self.dir.join("cache")).map_err(e)?;
        for (name, content) in &self.built.tal_files {
            std::fs::write(self.dir.join("tals").join(name), content).map_err(e)?;
        }
        let script = SCRIPT.replace("@ROOT@", &self.served_dir().display().to_string())
            .replace("@LOG@", &self.dir.join("fetch.log").display().to_string());
        let path = self.script_path();
        std::fs::write(&path, script).map_err(e)?;
        #[cfg(unix)]
        {
            use std::os::unix::fs::PermissionsExt;
            std::fs::set_permissions(&path, std::fs::Permissions::from_mode(0o755)).map_err(e)?;
        }
        self.serve(&ServePlan::step(0))
    }

    pub fn served_dir(&self) -> PathBuf { self.dir.join("served") }
    pub fn cache_dir(&self) -> PathBuf { self.dir.join("cache") }
    pub fn tal_dir(&self) -> PathBuf { self.dir.join("tals") }
    pub fn script_path(&self) -> PathBuf { self.dir.join("fake-rsync.sh") }

    /// All modules (`host/module`) the description mentions.
    pub fn modules(&self) -> BTreeSet<String> {
        let mut m = BTreeSet::new();
        for ca in &self.built.spec.cas { m.insert(module_of(&ca.repo)); }
        for t in &self.built.spec.tals { for u in &t.uris { m.insert(module_of(&u.uri)); } }
        m
    }

    /// Replaces the served directory by the state `plan` describes.
    pub fn serve(&self, plan: &ServePlan) -> Result<(), String> {
        let e = |e: std::io::Error| e.to_string();
        let root = self.served_dir();
        if root.exists() { std::fs::remove_dir_all(&root).map_err(e)?; }
        std::fs::create_dir_all(&root).map_err(e)?;
        for m in self.modules() {
            if !plan.unreachable.contains(&m) { std::fs::create_dir_all(root.join(&m)).map_err(e)?; }
        }
        let put = |uri: &str, bytes: &[u8]| -> Result<(), String> {
            if plan.unreachable.contains(&module_of(uri)) { return Ok(()) }
            let rel = uri.strip_prefix("rsync://").ok_or_else(|| format!("not an rsync URI: {}", uri))?;
            let path = root.join(rel);
            if let Some(p) = path.parent() { std::fs::create_dir_all(p).map_err(e)?; }
            std::fs::write(&path, bytes).map_err(e)
        };
        for per_uri in &self.built.ta_files {
            for steps in per_uri {
                if let Some(f) = &steps[plan.step.min(steps.len() - 1)] { put(&f.uri, &f.bytes)?; }
            }
        }
        for (i, ca) in self.built.spec.cas.iter().enumerate() {
            let v = match plan.ca_version.get(&ca.id) {
                Some(None) => continue,
                Some(Some(v)) => *v,
                None => plan.step,
            };
            let versions = &self.built.point_files[i];
            for f in &versions[v.min(versions.len() - 1)] { put(&f.uri, &f.bytes)?; }
        }
        Ok(())
    }

    /// `serve(&ServePlan::step(step))`.
    pub fn serve_step(&self, step: usize) -> Result<(), String> { self.serve(&ServePlan::step(step)) }

    /// Forgets everything Routinator has stored or collected (fresh cache).
    pub fn reset_cache(&self) -> Result<(), String> {
        let c = self.cache_dir();
        if c.exists() { std::fs::remove_dir_all(&c).map_err(|e| e.to_string())?; }
        std::fs::create_dir_all(&c).map_err(|e| e.to_string())
    }

    /// The Routinator configuration used for runs (before the engine is created you may adjust it
    /// further through `run_with`).
    pub fn config(&self, cfg: &RunCfg) -> Config {
        let mut c = Config::default_with_paths(Default::default(), self.cache_dir());
        c.no_rir_tals = true;
        c.extra_tals_dir = Some(self.tal_dir());
        c.disable_rrdp = true;
        c.rsync_command = match rsync_mode() {
            // the hook in collector/rsync.rs copies in-process; only the `-h` probe of
            // RsyncCommand::new still starts a process, so make it the cheapest one
            RsyncMode::InProcess => "/bin/true".into(),
            RsyncMode::SelfExe => std::env::current_exe().map(|p| p.display().to_string())
                .unwrap_or_else(|_| self.script_path().display().to_string()),
            RsyncMode::Script => self.script_path().display().to_string(),
        };
        c.rsync_args = Some(Vec::new());
        c.rsync_timeout = Some(std::time::Duration::from_secs(60));
        c.strict = cfg.strict;
        c.stale = policy_of(&cfg.stale);
        c.unsafe_vrps = policy_of(&cfg.unsafe_vrps);
        c.enable_bgpsec = cfg.enable_bgpsec;
        c.enable_aspa = cfg.enable_aspa;
        c.max_ca_depth = cfg.max_ca_depth;
        c.validation_threads = cfg.validation_threads.max(1);
        c.limit_v4_len = cfg.limit_v4_len;
        c.limit_v6_len = cfg.limit_v6_len;
        c.dirty_repository = cfg.dirty;
        c.log_repository_issues = true;
        c
    }

    /// One validation run against what is currently served, on the persistent cache.
    pub fn run(&self, cfg: &RunCfg) -> RunOutcome { self.run_with(cfg, |_| { }) }

    /// As `run`; `tweak` may change the `Config` before the engine is created.
    pub fn run_with(&self, cfg: &RunCfg, tweak: impl FnOnce(&mut Config)) -> RunOutcome {
        let _ = log::set_logger(&CAPTURE);
        log::set_max_level(log::LevelFilter::Warn);
        // (de)activate the in-process rsync hook; the registry entry is process-wide and only
        // rpkigen touches it
        routinator::verif::set_forced("rpkigen.inprocess_rsync", vec![if rsync_mode() == RsyncMode::InProcess { 1 } else { 0 }]);
        if let Ok(mut l) = LOG_LINES.lock() { l.clear(); }
        let _ = std::fs::remove_file(self.dir.join("fetch.log"));
        let mut config = self.config(cfg);
        tweak(&mut config);
        let start = std::time::Instant::now();
        let mut out = RunOutcome {
            result: String::new(), payload: PayloadOut::default(), refresh: None, metrics: MetricsOut::default(),
            store: Vec::new(), fetched: Vec::new(), log: Vec::new(), millis: 0,
        };
        let exceptions = match &cfg.slurm {
            None => LocalExceptions::empty(),
            Some(text) => LocalExceptions::from_json(text, false).expect("SLURM text"),
        };
        let timing = std::env::var_os("RPKIGEN_TIMING").is_some();
        let engine = Engine::new(&config, !cfg.no_update);
        if timing { eprintln!("rpkigen timing: Engine::new {} ms", start.elapsed().as_millis()); }
        match engine {
            Err(_) => out.result = "engine: Engine::new failed".into(),
            Ok(mut engine) => {
                if engine.ignite().is_err() { out.result = "engine: ignite failed".into(); }
                else {
                    match ValidationReport::process(&engine, &config, false) {
                        Err(err) => out.result = if err.is_fatal() { "fatal".into() } else { "retry".into() },
                        Ok((report, mut metrics)) => {
                            out.result = "ok".into();
                            let snapshot = report.into_snapshot(&exceptions, &mut metrics);
                            out.payload = payload_of(&snapshot);
                            out.refresh = snapshot.refresh().map(|t| t.timestamp() - self.built.now);
                            out.metrics = metrics_of(&metrics);
                            for (uri, book) in &metrics.pub_point_logs {
                                for m in book { out.log.push(format!("[{}] {}: {}", uri, m.level, m.content)); }
                            }
                        }
                    }
                }
            }
        }
        out.millis = start.elapsed().as_millis() as u64;
        if timing { eprintln!("rpkigen timing: run total {} ms", out.millis); }
        out.store = self.store_listing();
        if timing { eprintln!("rpkigen timing: with store listing {} ms", start.elapsed().as_millis()); }
        if let Ok(text) = std::fs::read_to_string(self.dir.join("fetch.log")) {
            out.fetched = text.lines().map(|l| l.trim_end_matches('/').to_string()).collect();
        }
        if let Ok(l) = LOG_LINES.lock() { out.log.extend(l.iter().cloned()); }
        out
    }

    /// Reads every stored publication point back with `StoredPoint::load_quietly`.
    pub fn store_listing(&self) -> Vec<StoredPointOut> {
        let mut res = Vec::new();
        let base = self.cache_dir().join("stored").join("rsync");
        let mut stack = vec![base];
        while let Some(dir) = stack.pop() {
            let rd = match std::fs::read_dir(&dir) { Ok(rd) => rd, Err(_) => continue };
            for entry in rd.flatten() {
                let path = entry.path();
                if path.is_dir() { stack.push(path); continue }
                // <cache>/stored/rsync/rsync/<authority>/<module>/<path>
                let rel = path.strip_prefix(self.cache_dir().join("stored").join("rsync").join("rsync")).ok()
                    .map(|p| p.display().to_string());
                if let Some(mut point) = StoredPoint::load_quietly(path.clone()) {
                    let uri = format!("rsync://{}", rel.unwrap_or_default());
                    let (num, this, na, sha) = match point.manifest() {
                        Some(m) => (
                            Some(serial_u64(m.manifest_number)),
                            Some(m.this_update.timestamp() - self.built.now),
                            Some(m.not_after.timestamp() - self.built.now),
                            Some(hex(rpki::crypto::DigestAlgorithm::default().digest(&m.manifest).as_ref())),
                        ),
                        None => (None, None, None, None),
                    };
                    let mut objects = Vec::new();
                    if num.is_some() {
                        for o in &mut point {
                            match o { Ok(o) => objects.push(o.uri.to_string()), Err(_) => { objects.push("<unreadable>".into()); break } }
                        }
                    }
                    res.push(StoredPointOut { manifest_uri: uri, manifest_number: num, this_update: this, not_after: na,
                                              manifest_sha256: sha, objects });
                }
            }
        }
        res.sort_by(|a, b| a.manifest_uri.cmp(&b.manifest_uri));
        res
    }
}

fn serial_u64(s: rpki::repository::x509::Serial) -> u64 {
    let a = s.into_array();
    if a[..12].iter().any(|b| *b != 0) { return u64::MAX }
    u64::from_be_bytes(a[12..].try_into().unwrap())
}

pub fn payload_of(s: &routinator::payload::PayloadSnapshot) -> PayloadOut {
    let mut origins: Vec<OriginOut> = s.origins().map(|(o, _)| {
        let p = o.prefix.prefix();
        let (v4, addr) = match p.addr() { IpAddr::V4(a) => (true, u32::from(a) as u128), IpAddr::V6(a) => (false, u128::from(a)) };
        OriginOut { prefix: format!("{}/{}", p.addr(), p.len()), v4, addr: addr.to_string(), len: p.len(),
                    max_len: o.prefix.resolved_max_len(), asn: o.asn.into_u32() }
    }).collect();
    origins.sort();
    let mut router_keys: Vec<RouterKeyOut> = s.router_keys().map(|(k, _)| RouterKeyOut {
        key_id: hex(k.key_identifier.as_slice()), asn: k.asn.into_u32(), key_info: hex(k.key_info.as_slice()),
    }).collect();
    router_keys.sort();
    let mut aspas: Vec<AspaOut> = s.aspas().map(|(a, _)| {
        let mut p: Vec<u32> = a.providers.iter().map(|p| p.into_u32()).collect();
        p.sort();
        AspaOut { customer: a.customer.into_u32(), providers: p }
    }).collect();
    aspas.sort();
    PayloadOut { origins, router_keys, aspas }
}

fn vrp_of(m: &routinator::metrics::VrpMetrics) -> VrpMetricsOut {
    VrpMetricsOut { valid: m.valid, marked_unsafe: m.marked_unsafe, locally_filtered: m.locally_filtered,
                    duplicate: m.duplicate, contributed: m.contributed }
}

pub fn metrics_of(m: &routinator::metrics::Metrics) -> MetricsOut {
    let p = &m.publication;
    let mut rsync: Vec<(String, bool)> = m.rsync.iter().map(|r| (
        r.module.to_string(), r.status.as_ref().map(|s| s.success()).unwrap_or(false)
    )).collect();
    rsync.sort();
    MetricsOut {
        publication: PubMetricsOut {
            valid_points: p.valid_points, rejected_points: p.rejected_points, valid_manifests: p.valid_manifests,
            invalid_manifests: p.invalid_manifests, premature_manifests: p.premature_manifests,
            stale_manifests: p.stale_manifests, missing_manifests: p.missing_manifests, valid_crls: p.valid_crls,
            invalid_crls: p.invalid_crls, stale_crls: p.stale_crls, stray_crls: p.stray_crls,
            valid_ca_certs: p.valid_ca_certs, valid_router_certs: p.valid_router_certs, invalid_certs: p.invalid_certs,
            valid_roas: p.valid_roas, invalid_roas: p.invalid_roas, valid_gbrs: p.valid_gbrs, invalid_gbrs: p.invalid_gbrs,
            valid_aspas: p.valid_aspas, invalid_aspas: p.invalid_aspas, others: p.others,
        },
        rsync,
        v4_origins: vrp_of(&m.snapshot.payload.v4_origins),
        v6_origins: vrp_of(&m.snapshot.payload.v6_origins),
        router_keys: vrp_of(&m.snapshot.payload.router_keys),
        aspas: vrp_of(&m.snapshot.payload.aspas),
        tals: m.tals.iter().map(|t| (t.tal.name().to_string(), t.publication.valid_points, t.publication.rejected_points)).collect(),
    }
}
