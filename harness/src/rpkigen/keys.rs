//! Fixture keys and a `rpki::crypto::signer::Signer` over `ring`.
//!
//! 16 RSA-2048 key pairs (`fixtures/keys/rsaNN.key.der`, PKCS#1 RSAPrivateKey DER, and `rsaNN.pub.der`,
//! SubjectPublicKeyInfo) and 4 ECDSA P-256 public keys (`ecN.pub.der`) were generated once
//! with the openssl CLI and are compiled in.  No key is generated at check time.
//!
//! Key ids are plain indexes.  By convention the spec helpers use keys `0..=11` for CAs and
//! `12..=15` as the "one-off" EE keys of signed objects, but any RSA key may be used anywhere.

use std::cell::Cell;
use std::sync::OnceLock;
use bytes::Bytes;
use rpki::crypto::keys::{PublicKey, PublicKeyFormat};
use rpki::crypto::signature::{Signature, SignatureAlgorithm};
use rpki::crypto::signer::{KeyError, Signer, SigningAlgorithm, SigningError};

pub const RSA_KEYS: usize = 16;
pub const EC_KEYS: usize = 4;
/// First of the RSA keys that the spec helpers reserve for EE certificates.
pub const FIRST_EE_KEY: usize = 12;

macro_rules! rsa_fixture {
    ($($n:literal),*) => {
        [ $( (
            include_bytes!(concat!("../../fixtures/keys/rsa", $n, ".key.der")).as_slice(),
            include_bytes!(concat!("../../fixtures/keys/rsa", $n, ".pub.der")).as_slice(),
        ) ),* ]
    }
}

static RSA_DER: [(&[u8], &[u8]); RSA_KEYS] = rsa_fixture!(
    "00", "01", "02", "03", "04", "05", "06", "07", "08", "09", "10", "11", "12", "13", "14", "15"
);

static EC_DER: [&[u8]; EC_KEYS] = [
    include_bytes!("../../fixtures/keys/ec0.pub.der").as_slice(),
    include_bytes!("../../fixtures/keys/ec1.pub.der").as_slice(),
    include_bytes!("../../fixtures/keys/ec2.pub.der").as_slice(),
    include_bytes!("../../fixtures/keys/ec3.pub.der").as_slice(),
];

struct Loaded {
    rsa: Vec<(ring::rsa::KeyPair, PublicKey)>,
    ec: Vec<PublicKey>,
}

fn loaded() -> &'static Loaded {
    static L: OnceLock<Loaded> = OnceLock::new();
    L.get_or_init(|| Loaded {
        rsa: RSA_DER.iter().map(|(sk, pk)| (
            ring::rsa::KeyPair::from_der(sk).expect("fixture RSA key"),
            PublicKey::decode(*pk).expect("fixture RSA public key"),
        )).collect(),
        ec: EC_DER.iter().map(|pk| PublicKey::decode(*pk).expect("fixture EC public key")).collect(),
    })
}

/// Public key of RSA fixture key `i` (panics if out of range).
pub fn rsa_public(i: usize) -> PublicKey { loaded().rsa[i].1.clone() }
/// Public key of ECDSA P-256 fixture key `i` (router certificates).
pub fn ec_public(i: usize) -> PublicKey { loaded().ec[i].clone() }
/// Hex of the key identifier (SHA-1 of the subjectPublicKey bits) of RSA key `i`.
pub fn rsa_key_id_hex(i: usize) -> String { crate::util::hex(rsa_public(i).key_identifier().as_slice()) }

/// What the signer should corrupt next (consumed by the first matching signature).
#[derive(Clone, Copy, Debug, PartialEq, Eq)]
pub enum Corrupt {
    None,
    /// the next signature made with a named key (`Signer::sign`: certificates, CRLs, EE certs)
    Issuer,
    /// the next one-off signature (`Signer::sign_one_off`: signed attributes of a signed object)
    OneOff,
}

/// A signer over the fixture keys.
///
/// `sign_one_off` (used by `SignedObjectBuilder::finalize` for the EE key) signs with the RSA key
/// selected by [`RingSigner::set_one_off`].  A pending [`Corrupt`] request flips one bit of the
/// produced signature value, which yields a well-formed object whose signature does not verify.
pub struct RingSigner {
    rng: ring::rand::SystemRandom,
    one_off: Cell<usize>,
    corrupt: Cell<Corrupt>,
    /// number of RSA signatures made (for cost accounting)
    pub count: Cell<u64>,
}

impl Default for RingSigner { fn default() -> Self { Self::new() } }

impl RingSigner {
    pub fn new() -> Self {
        RingSigner {
            rng: ring::rand::SystemRandom::new(), one_off: Cell::new(FIRST_EE_KEY),
            corrupt: Cell::new(Corrupt::None), count: Cell::new(0),
        }
    }
    pub fn set_one_off(&self, key: usize) { assert!(key < RSA_KEYS); self.one_off.set(key) }
    pub fn corrupt_next(&self, what: Corrupt) { self.corrupt.set(what) }
    pub fn pending_corruption(&self) -> Corrupt { self.corrupt.get() }

    fn do_sign<Alg: SignatureAlgorithm>(&self, key: usize, alg: Alg, data: &[u8], kind: Corrupt)
        -> Result<Signature<Alg>, String>
    {
        if !matches!(alg.signing_algorithm(), SigningAlgorithm::RsaSha256) {
            return Err("only RSA PKCS#1 v1.5 SHA-256 is supported".into())
        }
        let pair = &loaded().rsa.get(key).ok_or_else(|| format!("no RSA key {}", key))?.0;
        let mut sig = vec![0; pair.public().modulus_len()];
        pair.sign(&ring::signature::RSA_PKCS1_SHA256, &self.rng, data, &mut sig).map_err(|_| "sign".to_string())?;
        self.count.set(self.count.get() + 1);
        if self.corrupt.get() == kind && kind != Corrupt::None {
            self.corrupt.set(Corrupt::None);
            let n = sig.len();
            sig[n / 2] ^= 0x10;
        }
        Ok(Signature::new(alg, Bytes::from(sig)))
    }
}

impl Signer for RingSigner {
    type KeyId = usize;
    type Error = String;

    fn create_key(&self, _: PublicKeyFormat) -> Result<usize, String> {
        Err("no key generation: use the fixture key indexes".into())
    }
    fn get_key_info(&self, key: &usize) -> Result<PublicKey, KeyError<String>> {
        loaded().rsa.get(*key).map(|k| k.1.clone()).ok_or(KeyError::KeyNotFound)
    }
    fn destroy_key(&self, _: &usize) -> Result<(), KeyError<String>> { Ok(()) }
    fn sign<Alg: SignatureAlgorithm, D: AsRef<[u8]> + ?Sized>(&self, key: &usize, alg: Alg, data: &D)
        -> Result<Signature<Alg>, SigningError<String>>
    {
        self.do_sign(*key, alg, data.as_ref(), Corrupt::Issuer).map_err(SigningError::Signer)
    }
    fn sign_one_off<Alg: SignatureAlgorithm, D: AsRef<[u8]> + ?Sized>(&self, alg: Alg, data: &D)
        -> Result<(Signature<Alg>, PublicKey), String>
    {
        let key = self.one_off.get();
        Ok((self.do_sign(key, alg, data.as_ref(), Corrupt::OneOff)?, rsa_public(key)))
    }
    fn rand(&self, target: &mut [u8]) -> Result<(), String> {
        use ring::rand::SecureRandom;
        self.rng.fill(target).map_err(|_| "rng".to_string())
    }
}
