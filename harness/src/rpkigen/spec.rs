//! The abstract description of an RPKI world (plain serde data) and helpers to write one.
//!
//! All times are **offsets in seconds from "now"** (the instant `build()` is called).  Every
//! boundary must be at least one hour away from now (`RepoSpec::validate` enforces it) so that a
//! slow run cannot flip a verdict.
//!
//! A world is a *graph*: `cas` are the publication points (a key, a `caRepository` directory, a
//! manifest name, and a list of *versions* of what is published there); CA certificates are
//! ordinary objects (`ObjKind::Ca`) in the issuing CA's versions and name the CA they are for by
//! id.  Several certificates may name the same CA, a certificate may name an ancestor (cycle), two
//! CAs may share a key (key reuse).  Trust anchors are `TalSpec`s whose URIs serve certificates
//! that name a CA, too.

use serde::{Deserialize, Serialize};

pub const HOUR: i64 = 3600;
pub const DAY: i64 = 86400;
/// The minimum distance of every time boundary from "now".
pub const MARGIN: i64 = HOUR;

/// Resources that no helper-made issuer ever holds; `Fault::Overclaim` adds them.
pub const NOBODY_V4: &str = "203.0.113.0/24";
pub const NOBODY_V6: &str = "2001:db8:ffff::/48";
pub const NOBODY_ASN: u32 = 64511;

//------------ faults ----------------------------------------------------------

/// A fault injected into one certificate / object / manifest / CRL / TA certificate.
///
/// Which faults apply to which item (anything else makes `build` return an error):
///
/// | fault | CA cert | router cert | ROA/ASPA/GBR | other file | manifest | CRL | TA cert |
/// |---|---|---|---|---|---|---|---|
/// | `BadSignature` (issuer's signature on the certificate / EE certificate / CRL) | x | x | x |  | x | x | x |
/// | `BadContentSignature` (EE key's signature on the signed attributes) |  |  | x |  | x |  |  |
/// | `Overclaim` (adds `NOBODY_*` resources) | x | x | x |  |  |  |  |
/// | `Expired`, `NotYetValid` (certificate / EE certificate validity) | x | x | x |  | x |  | x |
/// | `Revoked` (serial is put on this version's CRL) | x | x | x |  | x |  |  |
/// | `WrongCrlUri` (CRL distribution point names `wrong.crl` in the same directory) | x | x | x |  | x |  |  |
/// | `HashMismatch` (manifest lists another hash) | x | x | x | x |  | x |  |
/// | `Missing` (listed on the manifest, file not served) | x | x | x | x | x (no manifest file) | x | x (no TA file) |
/// | `Unlisted` (served, not on the manifest) | x | x | x | x |  | x |  |
/// | `Garbage` (undecodable bytes; the manifest hash matches them) | x | x | x |  | x | x | x |
/// | `Stale` (nextUpdate two hours in the past, thisUpdate before it) |  |  |  |  | x | x |  |
/// | `Premature` (thisUpdate two hours in the future, nextUpdate after it) |  |  |  |  | x |  |  |
/// | `WrongKey` (self-signed with a key different from the TAL's) |  |  |  |  |  |  | x |
///
/// Manifest number / thisUpdate regressions, over-deep chains and key-reuse cycles are not faults of
/// one item but shapes of the description: write the numbers / certificates you want (see
/// `Scen::push_version`, `Scen::chain`, `Scen::add_ca_cert`).
#[derive(Serialize, Deserialize, Clone, Copy, Debug, PartialEq, Eq, PartialOrd, Ord, Hash)]
pub enum Fault {
    BadSignature,
    BadContentSignature,
    Overclaim,
    Expired,
    NotYetValid,
    Revoked,
    WrongCrlUri,
    HashMismatch,
    Missing,
    Unlisted,
    Garbage,
    Stale,
    Premature,
    WrongKey,
}

impl Fault {
    pub const ALL: [Fault; 14] = [
        Fault::BadSignature, Fault::BadContentSignature, Fault::Overclaim, Fault::Expired, Fault::NotYetValid,
        Fault::Revoked, Fault::WrongCrlUri, Fault::HashMismatch, Fault::Missing, Fault::Unlisted, Fault::Garbage,
        Fault::Stale, Fault::Premature, Fault::WrongKey,
    ];
    /// Faults applicable to a CA certificate or router certificate object.
    pub const FOR_CERT: [Fault; 10] = [
        Fault::BadSignature, Fault::Overclaim, Fault::Expired, Fault::NotYetValid, Fault::Revoked, Fault::WrongCrlUri,
        Fault::HashMismatch, Fault::Missing, Fault::Unlisted, Fault::Garbage,
    ];
    /// Faults applicable to a ROA, ASPA or GBR.
    pub const FOR_SIGNED: [Fault; 11] = [
        Fault::BadSignature, Fault::BadContentSignature, Fault::Overclaim, Fault::Expired, Fault::NotYetValid,
        Fault::Revoked, Fault::WrongCrlUri, Fault::HashMismatch, Fault::Missing, Fault::Unlisted, Fault::Garbage,
    ];
    pub const FOR_OTHER: [Fault; 3] = [Fault::HashMismatch, Fault::Missing, Fault::Unlisted];
    pub const FOR_MANIFEST: [Fault; 10] = [
        Fault::BadSignature, Fault::BadContentSignature, Fault::Expired, Fault::NotYetValid, Fault::Revoked,
        Fault::WrongCrlUri, Fault::Missing, Fault::Garbage, Fault::Stale, Fault::Premature,
    ];
    pub const FOR_CRL: [Fault; 6] = [
        Fault::BadSignature, Fault::HashMismatch, Fault::Missing, Fault::Unlisted, Fault::Garbage, Fault::Stale,
    ];
    pub const FOR_TA: [Fault; 6] = [
        Fault::BadSignature, Fault::Expired, Fault::NotYetValid, Fault::Missing, Fault::Garbage, Fault::WrongKey,
    ];
}

//------------ description -----------------------------------------------------

#[derive(Serialize, Deserialize, Clone, Debug, PartialEq, Default)]
pub struct RepoSpec {
    pub tals: Vec<TalSpec>,
    pub cas: Vec<CaSpec>,
}

#[derive(Serialize, Deserialize, Clone, Debug, PartialEq)]
pub struct TalSpec {
    /// File `<name>.tal`; the engine orders TALs by name.
    pub name: String,
    /// RSA fixture key whose public key is written into the TAL.
    pub key: usize,
    pub uris: Vec<TaUriSpec>,
}

#[derive(Serialize, Deserialize, Clone, Debug, PartialEq)]
pub struct TaUriSpec {
    /// `rsync://host/module/path/name.cer`
    pub uri: String,
    /// What is served at the URI per step (the last entry is repeated for later steps);
    /// `None` = nothing there.
    pub certs: Vec<Option<TaCertSpec>>,
}

#[derive(Serialize, Deserialize, Clone, Debug, PartialEq)]
pub struct TaCertSpec {
    /// The CA (publication point) the certificate's SIA points to.
    pub ca: String,
    /// Subject key = signing key of this self-signed certificate; `None` = the key of `ca`.
    #[serde(default)]
    pub key: Option<usize>,
    pub cert: CertSpec,
    pub resources: Resources,
    #[serde(default)]
    pub faults: Vec<Fault>,
}

/// A publication point: everything signed by one key and listed by one manifest.
#[derive(Serialize, Deserialize, Clone, Debug, PartialEq)]
pub struct CaSpec {
    pub id: String,
    /// RSA fixture key that signs manifest EE certs, CRL, EE certs and issued certificates.
    pub key: usize,
    /// caRepository: `rsync://host/module/dir/` (must end in `/`).
    pub repo: String,
    pub mft_name: String,
    pub crl_name: String,
    /// Successive states of the publication point (at least one).
    pub versions: Vec<VersionSpec>,
}

#[derive(Serialize, Deserialize, Clone, Debug, PartialEq)]
pub struct VersionSpec {
    pub mft: MftSpec,
    pub crl: CrlSpec,
    pub objects: Vec<ObjSpec>,
}

#[derive(Serialize, Deserialize, Clone, Debug, PartialEq)]
pub struct MftSpec {
    pub number: u64,
    pub this_update: i64,
    pub next_update: i64,
    pub ee: CertSpec,
    #[serde(default)]
    pub faults: Vec<Fault>,
}

#[derive(Serialize, Deserialize, Clone, Debug, PartialEq)]
pub struct CrlSpec {
    pub number: u64,
    pub this_update: i64,
    pub next_update: i64,
    /// Serials on the CRL (in addition to those of items carrying `Fault::Revoked`).
    pub revoked: Vec<u64>,
    #[serde(default)]
    pub faults: Vec<Fault>,
}

/// Serial number and validity of a certificate; for EE certificates of signed objects also the
/// RSA fixture key used as the "one-off" EE key.
#[derive(Serialize, Deserialize, Clone, Debug, PartialEq)]
pub struct CertSpec {
    pub serial: u64,
    pub not_before: i64,
    pub not_after: i64,
    #[serde(default = "default_ee_key")]
    pub ee_key: usize,
}
fn default_ee_key() -> usize { super::keys::FIRST_EE_KEY }

#[derive(Serialize, Deserialize, Clone, Debug, PartialEq, Default)]
pub struct Resources {
    /// IPv4 prefixes `a.b.c.d/len`.
    pub v4: Vec<String>,
    /// IPv6 prefixes.
    pub v6: Vec<String>,
    /// Inclusive AS ranges.
    pub asn: Vec<(u32, u32)>,
    /// All three families are "inherit" (the lists are ignored).  Not allowed on TA certificates.
    #[serde(default)]
    pub inherit: bool,
}

#[derive(Serialize, Deserialize, Clone, Debug, PartialEq)]
pub struct RoaPrefix {
    pub prefix: String,
    pub max_len: Option<u8>,
}

#[derive(Serialize, Deserialize, Clone, Debug, PartialEq)]
pub struct ObjSpec {
    /// File name inside the CA's directory; the extension decides how the engine treats it
    /// (`.cer`, `.roa`, `.asa`, `.gbr`, `.crl`, anything else = unknown type).
    pub name: String,
    pub kind: ObjKind,
    #[serde(default)]
    pub faults: Vec<Fault>,
}

#[derive(Serialize, Deserialize, Clone, Debug, PartialEq)]
pub enum ObjKind {
    /// A CA certificate for the CA `subject` (SIA = that CA's directory and manifest).
    /// `key`: subject key, `None` = the key of `subject`.
    Ca { subject: String, key: Option<usize>, resources: Resources, cert: CertSpec },
    Roa { asn: u32, prefixes: Vec<RoaPrefix>, ee: CertSpec },
    Aspa { customer: u32, providers: Vec<u32>, ee: CertSpec },
    /// A BGPsec router certificate for ECDSA fixture key `key`.
    Router { asns: Vec<(u32, u32)>, key: usize, cert: CertSpec },
    Gbr { ee: CertSpec },
    /// Arbitrary content under an arbitrary name (e.g. `x.txt`, or a stray `.crl`).
    Other { content: String },
}

impl RepoSpec {
    pub fn ca(&self, id: &str) -> Option<&CaSpec> { self.cas.iter().find(|c| c.id == id) }
    pub fn ca_mut(&mut self, id: &str) -> Option<&mut CaSpec> { self.cas.iter_mut().find(|c| c.id == id) }
    pub fn ca_index(&self, id: &str) -> Option<usize> { self.cas.iter().position(|c| c.id == id) }

    /// Number of steps a history over this description has (the longest version list).
    pub fn steps(&self) -> usize {
        let a = self.cas.iter().map(|c| c.versions.len()).max().unwrap_or(1);
        let b = self.tals.iter().flat_map(|t| t.uris.iter().map(|u| u.certs.len())).max().unwrap_or(1);
        a.max(b).max(1)
    }

    /// Structural checks: unique ids, references, key ranges, URI shapes, time margins.
    pub fn validate(&self) -> Result<(), String> {
        use std::collections::HashSet;
        let mut ids = HashSet::new();
        for ca in &self.cas {
            if !ids.insert(ca.id.as_str()) { return Err(format!("duplicate CA id {}", ca.id)) }
            if ca.key >= super::keys::RSA_KEYS { return Err(format!("CA {}: key out of range", ca.id)) }
            if !ca.repo.starts_with("rsync://") || !ca.repo.ends_with('/') || ca.repo.matches('/').count() < 5 {
                return Err(format!("CA {}: repo must look like rsync://host/module/dir/", ca.id))
            }
            if !ca.mft_name.ends_with(".mft") || !ca.crl_name.ends_with(".crl") {
                return Err(format!("CA {}: manifest/CRL names need .mft/.crl", ca.id))
            }
            if ca.versions.is_empty() { return Err(format!("CA {}: no versions", ca.id)) }
        }
        let margin = |what: &str, t: i64| -> Result<(), String> {
            if t.abs() < MARGIN { Err(format!("{}: time offset {} is closer than {} s to now", what, t, MARGIN)) } else { Ok(()) }
        };
        let cert_ok = |what: &str, c: &CertSpec| -> Result<(), String> {
            margin(what, c.not_before)?; margin(what, c.not_after)?;
            if c.ee_key >= super::keys::RSA_KEYS { return Err(format!("{}: ee_key out of range", what)) }
            Ok(())
        };
        for tal in &self.tals {
            if tal.key >= super::keys::RSA_KEYS { return Err(format!("TAL {}: key out of range", tal.name)) }
            for u in &tal.uris {
                if !u.uri.starts_with("rsync://") || !u.uri.ends_with(".cer") {
                    return Err(format!("TAL {}: URI {} must be an rsync URI of a .cer", tal.name, u.uri))
                }
                if u.certs.is_empty() { return Err(format!("TAL {}: URI {} has no steps", tal.name, u.uri)) }
                for c in u.certs.iter().flatten() {
                    if !ids.contains(c.ca.as_str()) { return Err(format!("TAL {}: unknown CA {}", tal.name, c.ca)) }
                    if c.resources.inherit { return Err(format!("TAL {}: TA certificate cannot inherit", tal.name)) }
                    cert_ok(&format!("TAL {}", tal.name), &c.cert)?;
                }
            }
        }
        for ca in &self.cas {
            for (vi, v) in ca.versions.iter().enumerate() {
                let w = format!("CA {} v{}", ca.id, vi);
                margin(&w, v.mft.this_update)?; margin(&w, v.mft.next_update)?;
                margin(&w, v.crl.this_update)?; margin(&w, v.crl.next_update)?;
                cert_ok(&w, &v.mft.ee)?;
                let mut names = HashSet::new();
                names.insert(ca.crl_name.as_str());
                names.insert(ca.mft_name.as_str());
                for o in &v.objects {
                    let w = format!("{} {}", w, o.name);
                    if !names.insert(o.name.as_str()) { return Err(format!("{}: duplicate file name", w)) }
                    if o.name.is_empty() || o.name.contains('/') || !o.name.is_ascii() { return Err(format!("{}: bad file name", w)) }
                    match &o.kind {
                        ObjKind::Ca { subject, key, cert, .. } => {
                            if !ids.contains(subject.as_str()) { return Err(format!("{}: unknown CA {}", w, subject)) }
                            if key.map(|k| k >= super::keys::RSA_KEYS).unwrap_or(false) { return Err(format!("{}: key out of range", w)) }
                            cert_ok(&w, cert)?;
                        }
                        ObjKind::Roa { ee, prefixes, .. } => {
                            if prefixes.is_empty() { return Err(format!("{}: ROA without prefixes", w)) }
                            cert_ok(&w, ee)?;
                        }
                        ObjKind::Aspa { ee, providers, .. } => {
                            let mut p = providers.clone(); p.sort(); p.dedup();
                            if p.len() != providers.len() { return Err(format!("{}: duplicate providers", w)) }
                            cert_ok(&w, ee)?;
                        }
                        ObjKind::Router { key, cert, asns } => {
                            if *key >= super::keys::EC_KEYS { return Err(format!("{}: EC key out of range", w)) }
                            if asns.is_empty() { return Err(format!("{}: router certificate without ASNs", w)) }
                            cert_ok(&w, cert)?;
                        }
                        ObjKind::Gbr { ee } => cert_ok(&w, ee)?,
                        ObjKind::Other { .. } => { }
                    }
                }
            }
        }
        Ok(())
    }
}

//------------ scenario helper ---------------------------------------------------

/// Convenience builder for well-formed descriptions (fresh serials, default validity windows).
///
/// Defaults: CA certificates valid from -1 day to +30 days, EE certificates -1 day .. +7 days,
/// manifests/CRLs thisUpdate -2 h, nextUpdate +1 day, manifest number 1.
#[derive(Clone, Debug, Default)]
pub struct Scen {
    pub spec: RepoSpec,
    next_serial: u64,
    next_ee_key: usize,
}

pub fn res(v4: &[&str], v6: &[&str], asn: &[(u32, u32)]) -> Resources {
    Resources { v4: v4.iter().map(|s| s.to_string()).collect(), v6: v6.iter().map(|s| s.to_string()).collect(),
                asn: asn.to_vec(), inherit: false }
}
pub fn inherit() -> Resources { Resources { inherit: true, ..Default::default() } }

impl Scen {
    pub fn new() -> Self { Scen { spec: RepoSpec::default(), next_serial: 100, next_ee_key: 0 } }

    pub fn serial(&mut self) -> u64 { self.next_serial += 1; self.next_serial }
    fn ee_key(&mut self) -> usize {
        let n = super::keys::RSA_KEYS - super::keys::FIRST_EE_KEY;
        self.next_ee_key = (self.next_ee_key + 1) % n;
        super::keys::FIRST_EE_KEY + self.next_ee_key
    }
    pub fn ca_cert_times(&mut self) -> CertSpec {
        CertSpec { serial: self.serial(), not_before: -DAY, not_after: 30 * DAY, ee_key: default_ee_key() }
    }
    pub fn ee(&mut self) -> CertSpec {
        CertSpec { serial: self.serial(), not_before: -DAY, not_after: 7 * DAY, ee_key: self.ee_key() }
    }
    fn version(&mut self) -> VersionSpec {
        VersionSpec {
            mft: MftSpec { number: 1, this_update: -2 * HOUR, next_update: DAY, ee: self.ee(), faults: vec![] },
            crl: CrlSpec { number: 1, this_update: -2 * HOUR, next_update: DAY, revoked: vec![], faults: vec![] },
            objects: vec![],
        }
    }

    /// Adds a publication point `id` with key `key` at `rsync://<host>/<module>/<id>/` (one empty version).
    pub fn add_point(&mut self, id: &str, key: usize, host: &str, module: &str) -> &mut CaSpec {
        let v = self.version();
        self.spec.cas.push(CaSpec {
            id: id.into(), key, repo: format!("rsync://{}/{}/{}/", host, module, id),
            mft_name: format!("{}.mft", id), crl_name: format!("{}.crl", id), versions: vec![v],
        });
        self.spec.cas.last_mut().unwrap()
    }

    /// Adds a TAL `name` with one URI `rsync://<host>/<module>/ta/<name>.cer` serving a certificate for a new
    /// publication point `id` (same host/module, key `key`).
    pub fn add_ta(&mut self, name: &str, id: &str, key: usize, host: &str, module: &str, resources: Resources) {
        self.add_point(id, key, host, module);
        let cert = self.ca_cert_times();
        self.spec.tals.push(TalSpec {
            name: name.into(), key,
            uris: vec![TaUriSpec {
                uri: format!("rsync://{}/{}/ta/{}.cer", host, module, name),
                certs: vec![Some(TaCertSpec { ca: id.into(), key: None, cert, resources, faults: vec![] })],
            }],
        });
    }

    /// Adds a new publication point `id` and a CA certificate for it (`<id>.cer`) to every version of `parent`.
    pub fn add_child(&mut self, parent: &str, id: &str, key: usize, host: &str, module: &str, resources: Resources) {
        self.add_point(id, key, host, module);
        self.add_ca_cert(parent, &format!("{}.cer", id), id, resources);
    }

    /// Adds a CA certificate for the existing point `subject` to every version of `parent`
    /// (use it for cycles: `subject` = an ancestor; for shared sub-trees: a second parent).
    pub fn add_ca_cert(&mut self, parent: &str, name: &str, subject: &str, resources: Resources) {
        let cert = self.ca_cert_times();
        self.add_object(parent, ObjSpec {
            name: name.into(),
            kind: ObjKind::Ca { subject: subject.into(), key: None, resources, cert },
            faults: vec![],
        });
    }

    /// Adds `obj` to every version of `ca`.
    pub fn add_object(&mut self, ca: &str, obj: ObjSpec) {
        let ca = self.spec.ca_mut(ca).unwrap_or_else(|| panic!("no CA {}", ca));
        for v in &mut ca.versions { v.objects.push(obj.clone()); }
    }

    pub fn add_roa(&mut self, ca: &str, name: &str, asn: u32, prefixes: &[(&str, Option<u8>)]) {
        let ee = self.ee();
        self.add_object(ca, ObjSpec {
            name: name.into(),
            kind: ObjKind::Roa {
                asn, ee,
                prefixes: prefixes.iter().map(|(p, m)| RoaPrefix { prefix: p.to_string(), max_len: *m }).collect(),
            },
            faults: vec![],
        });
    }
    pub fn add_aspa(&mut self, ca: &str, name: &str, customer: u32, providers: &[u32]) {
        let ee = self.ee();
        self.add_object(ca, ObjSpec {
            name: name.into(), kind: ObjKind::Aspa { customer, providers: providers.to_vec(), ee }, faults: vec![],
        });
    }
    pub fn add_router(&mut self, ca: &str, name: &str, asns: &[(u32, u32)], ec_key: usize) {
        let mut cert = self.ee();
        cert.ee_key = default_ee_key();
        self.add_object(ca, ObjSpec {
            name: name.into(), kind: ObjKind::Router { asns: asns.to_vec(), key: ec_key, cert }, faults: vec![],
        });
    }
    pub fn add_gbr(&mut self, ca: &str, name: &str) {
        let ee = self.ee();
        self.add_object(ca, ObjSpec { name: name.into(), kind: ObjKind::Gbr { ee }, faults: vec![] });
    }
    pub fn add_other(&mut self, ca: &str, name: &str, content: &str) {
        self.add_object(ca, ObjSpec { name: name.into(), kind: ObjKind::Other { content: content.into() }, faults: vec![] });
    }

    /// Appends a copy of the last version of `ca` with manifest/CRL number + 1, thisUpdate one
    /// hour later (still in the past: the defaults allow a handful of versions), a fresh manifest
    /// EE certificate; the objects are the same (hence byte-identical files).  Returns its index.
    pub fn push_version(&mut self, ca: &str) -> usize {
        let ee = self.ee();
        let ca = self.spec.ca_mut(ca).unwrap_or_else(|| panic!("no CA {}", ca));
        let mut v = ca.versions.last().unwrap().clone();
        v.mft.number += 1;
        v.crl.number += 1;
        // move thisUpdate later but keep it at least MARGIN in the past
        let step = |t: i64| if t + 600 <= -MARGIN { t + 600 } else { t };
        v.mft.this_update = step(v.mft.this_update);
        v.crl.this_update = step(v.crl.this_update);
        v.mft.ee = ee;
        v.mft.faults.clear();
        v.crl.faults.clear();
        ca.versions.push(v);
        ca.versions.len() - 1
    }

    /// A chain of `depth` CAs below `parent`, ids `<prefix>1 .. <prefix>depth`, keys from `keys` (cycled),
    /// all in `host/module`, each with resources `resources`. Returns the ids.
    pub fn chain(&mut self, parent: &str, prefix: &str, depth: usize, keys: &[usize], host: &str, module: &str,
                 resources: Resources) -> Vec<String> {
        let mut ids = Vec::new();
        let mut p = parent.to_string();
        for i in 0..depth {
            let id = format!("{}{}", prefix, i + 1);
            self.add_child(&p, &id, keys[i % keys.len()], host, module, resources.clone());
            p = id.clone();
            ids.push(id);
        }
        ids
    }

    /// The object `name` in version `version` of `ca`.
    pub fn object_mut(&mut self, ca: &str, version: usize, name: &str) -> &mut ObjSpec {
        self.spec.ca_mut(ca).unwrap().versions[version].objects.iter_mut().find(|o| o.name == name)
            .unwrap_or_else(|| panic!("no object {} in {}", name, ca))
    }
    pub fn version_mut(&mut self, ca: &str, version: usize) -> &mut VersionSpec {
        &mut self.spec.ca_mut(ca).unwrap().versions[version]
    }
}
