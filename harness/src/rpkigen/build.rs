//! Turns a `RepoSpec` into real RPKI objects (through the builders of the `rpki` crate) and the
//! ground truth.

use std::collections::{HashMap, HashSet, VecDeque};
use std::net::IpAddr;
use std::str::FromStr;
use bytes::Bytes;
use chrono::{TimeZone, Utc};
use rpki::crypto::keys::PublicKey;
use rpki::crypto::DigestAlgorithm;
use rpki::dep::bcder::{Mode, Oid};
use rpki::dep::bcder::encode::Values;
use rpki::repository::aspa::AspaBuilder;
use rpki::repository::cert::{ExtendedKeyUsage, KeyUsage, Overclaim, TbsCert};
use rpki::repository::crl::{CrlEntry, TbsCertList};
use rpki::repository::manifest::{FileAndHash, ManifestContent};
use rpki::repository::resources::{AsBlocksBuilder, AsResources, Asn, IpBlocksBuilder, IpResources, Prefix};
use rpki::repository::roa::{RoaBuilder, RoaIpAddress};
use rpki::repository::sigobj::SignedObjectBuilder;
use rpki::repository::x509::{Serial, Time, Validity};
use rpki::uri;
use crate::util::hex;
use super::keys::{self, Corrupt, RingSigner};
use super::spec::*;
use super::truth::*;

/// Content type of a Ghostbusters record, 1.2.840.113549.1.9.16.1.35.
const CT_GBR: [u8; 11] = [42, 134, 72, 134, 247, 13, 1, 9, 16, 1, 35];

#[derive(Clone, Debug)]
pub struct FileOut {
    /// Full rsync URI.
    pub uri: String,
    pub bytes: Bytes,
}

/// A built world: files per publication point version, TAL files, TA certificates, ground truth.
pub struct Built {
    pub spec: RepoSpec,
    /// Unix seconds all offsets refer to.
    pub now: i64,
    pub truth: Truth,
    /// `(file name, content)` of the TAL files.
    pub tal_files: Vec<(String, Vec<u8>)>,
    /// `ta_files[tal][uri][step]`
    pub ta_files: Vec<Vec<Vec<Option<FileOut>>>>,
    /// `point_files[ca][version]` = every file served for that version (manifest, CRL, objects).
    pub point_files: Vec<Vec<Vec<FileOut>>>,
    /// RSA signatures made.
    pub signatures: u64,
}

pub fn module_of(uri: &str) -> String {
    let rest = uri.strip_prefix("rsync://").unwrap_or(uri);
    let mut it = rest.splitn(3, '/');
    let host = it.next().unwrap_or("");
    let module = it.next().unwrap_or("");
    format!("{}/{}", host, module)
}

fn rsync(s: &str) -> Result<uri::Rsync, String> {
    uri::Rsync::from_str(s).map_err(|e| format!("bad rsync URI {}: {}", s, e))
}

fn sha256(data: &[u8]) -> Vec<u8> { DigestAlgorithm::default().digest(data).as_ref().to_vec() }

/// `(is_v4, natural address, length)`; host bits are cleared.
pub fn parse_prefix(s: &str) -> Result<(bool, u128, u8), String> {
    let (a, l) = s.split_once('/').ok_or_else(|| format!("bad prefix {}", s))?;
    let len: u8 = l.parse().map_err(|_| format!("bad prefix length in {}", s))?;
    match IpAddr::from_str(a).map_err(|_| format!("bad address in {}", s))? {
        IpAddr::V4(x) => {
            if len > 32 { return Err(format!("bad prefix length in {}", s)) }
            let bits = u32::from(x) as u128;
            let mask: u128 = if len == 0 { 0 } else { (!0u32 << (32 - len)) as u128 };
            Ok((true, bits & mask, len))
        }
        IpAddr::V6(x) => {
            if len > 128 { return Err(format!("bad prefix length in {}", s)) }
            let bits = u128::from(x);
            let mask: u128 = if len == 0 { 0 } else { !0u128 << (128 - len) };
            Ok((false, bits & mask, len))
        }
    }
}

fn prefix_range(v4: bool, addr: u128, len: u8) -> (u128, u128) {
    let width = if v4 { 32 } else { 128 };
    let host: u128 = if len == 0 { if v4 { 0xFFFF_FFFF } else { !0 } } else if len as u32 == width { 0 } else { (1u128 << (width - len as u32)) - 1 };
    (addr, addr | host)
}

fn rpki_prefix(v4: bool, addr: u128, len: u8) -> Prefix {
    if v4 { Prefix::new(std::net::Ipv4Addr::from(addr as u32), len) }
    else { Prefix::new(std::net::Ipv6Addr::from(addr), len) }
}

fn prefix_text(v4: bool, addr: u128, len: u8) -> String {
    if v4 { format!("{}/{}", std::net::Ipv4Addr::from(addr as u32), len) }
    else { format!("{}/{}", std::net::Ipv6Addr::from(addr), len) }
}

struct Res {
    v4: Vec<(u128, u8)>,
    v6: Vec<(u128, u8)>,
    asn: Vec<(u32, u32)>,
    inherit: bool,
}

impl Res {
    fn parse(r: &Resources) -> Result<Res, String> {
        let mut v4 = Vec::new();
        let mut v6 = Vec::new();
        for p in &r.v4 { let (is4, a, l) = parse_prefix(p)?; if !is4 { return Err(format!("{} is not IPv4", p)) } v4.push((a, l)); }
        for p in &r.v6 { let (is4, a, l) = parse_prefix(p)?; if is4 { return Err(format!("{} is not IPv6", p)) } v6.push((a, l)); }
        for (a, b) in &r.asn { if a > b { return Err(format!("bad AS range {}-{}", a, b)) } }
        Ok(Res { v4, v6, asn: r.asn.clone(), inherit: r.inherit })
    }
    fn truth(&self) -> ResTruth {
        if self.inherit { return ResTruth { inherit: true, ..Default::default() } }
        ResTruth {
            v4: canon128(self.v4.iter().map(|(a, l)| prefix_range(true, *a, *l)).collect()),
            v6: canon128(self.v6.iter().map(|(a, l)| prefix_range(false, *a, *l)).collect()),
            asn: canon32(self.asn.clone()),
            inherit: false,
        }
    }
    fn v4_res(&self) -> IpResources {
        if self.inherit { return IpResources::inherit() }
        if self.v4.is_empty() { return IpResources::missing() }
        let mut b = IpBlocksBuilder::new();
        for (a, l) in &self.v4 { b.push(rpki_prefix(true, *a, *l)); }
        IpResources::blocks(b.finalize())
    }
    fn v6_res(&self) -> IpResources {
        if self.inherit { return IpResources::inherit() }
        if self.v6.is_empty() { return IpResources::missing() }
        let mut b = IpBlocksBuilder::new();
        for (a, l) in &self.v6 { b.push(rpki_prefix(false, *a, *l)); }
        IpResources::blocks(b.finalize())
    }
    fn as_res(&self) -> AsResources {
        if self.inherit { return AsResources::inherit() }
        if self.asn.is_empty() { return AsResources::missing() }
        let mut b = AsBlocksBuilder::new();
        for (lo, hi) in &self.asn { b.push((Asn::from_u32(*lo), Asn::from_u32(*hi))); }
        AsResources::blocks(b.finalize())
    }
    fn add_nobody(&mut self) {
        if self.inherit { self.inherit = false; }
        let (_, a, l) = parse_prefix(NOBODY_V4).unwrap();
        self.v4.push((a, l));
        self.asn.push((NOBODY_ASN, NOBODY_ASN));
    }
}

struct Ctx<'a> {
    spec: &'a RepoSpec,
    now: i64,
    signer: RingSigner,
    /// canonical effective issuer resources per CA index
    issuer_res: Vec<ResTruth>,
    /// cache of built objects: key -> (bytes, truth without `revoked`)
    cache: HashMap<String, (Option<Bytes>, ObjTruth)>,
}

fn time(now: i64, off: i64) -> Time { Time::new(Utc.timestamp_opt(now + off, 0).single().expect("time")) }

fn adjust_validity(c: &CertSpec, faults: &[Fault]) -> (i64, i64) {
    let (mut nb, mut na) = (c.not_before, c.not_after);
    if faults.contains(&Fault::Expired) { na = -2 * HOUR; nb = nb.min(-2 * DAY); }
    if faults.contains(&Fault::NotYetValid) { nb = 2 * HOUR; na = na.max(2 * DAY); }
    (nb, na)
}

fn check_faults(what: &str, faults: &[Fault], allowed: &[Fault]) -> Result<(), String> {
    for f in faults {
        if !allowed.contains(f) { return Err(format!("{}: fault {:?} does not apply here", what, f)) }
    }
    if faults.contains(&Fault::Expired) && faults.contains(&Fault::NotYetValid) {
        return Err(format!("{}: Expired and NotYetValid together", what))
    }
    if faults.contains(&Fault::Stale) && faults.contains(&Fault::Premature) {
        return Err(format!("{}: Stale and Premature together", what))
    }
    Ok(())
}

const GARBAGE: &[u8] = b"\x30\x82\xff\xffthis is not DER: undecodable bytes injected by rpkigen";

impl<'a> Ctx<'a> {
    fn ca_index(&self, id: &str) -> usize { self.spec.ca_index(id).expect("validated") }

    fn crl_uri(&self, ca: &CaSpec) -> String { format!("{}{}", ca.repo, ca.crl_name) }
    fn aia(&self, ca: &CaSpec) -> String { format!("rsync://aia.rpkigen.example/aia/{}.cer", ca.id) }

    /// A certificate issued by `issuer` (CA cert or router cert).
    #[allow(clippy::too_many_arguments)]
    fn issued_cert(
        &self, issuer: &CaSpec, subject_key: PublicKey, usage: KeyUsage, c: &CertSpec, faults: &[Fault],
        res: &Res, sia: Option<(&str, &str)>, router: bool,
    ) -> Result<(Bytes, i64, i64), String> {
        let (nb, na) = adjust_validity(c, faults);
        let issuer_pub = keys::rsa_public(issuer.key);
        let mut cert = TbsCert::new(
            Serial::from(c.serial), issuer_pub.to_subject_name(),
            Validity::new(time(self.now, nb), time(self.now, na)),
            None, subject_key, usage, Overclaim::Refuse,
        );
        cert.set_authority_key_identifier(Some(issuer_pub.key_identifier()));
        let crl = if faults.contains(&Fault::WrongCrlUri) { format!("{}wrong.crl", issuer.repo) } else { self.crl_uri(issuer) };
        cert.set_crl_uri(Some(rsync(&crl)?));
        cert.set_ca_issuer(Some(rsync(&self.aia(issuer))?));
        if let Some((repo, mft)) = sia {
            cert.set_basic_ca(Some(true));
            cert.set_ca_repository(Some(rsync(repo)?));
            cert.set_rpki_manifest(Some(rsync(mft)?));
        }
        if router { cert.set_extended_key_usage(Some(ExtendedKeyUsage::create_router())); }
        if !router {
            cert.set_v4_resources(res.v4_res());
            cert.set_v6_resources(res.v6_res());
        }
        cert.set_as_resources(res.as_res());
        if faults.contains(&Fault::BadSignature) { self.signer.corrupt_next(Corrupt::Issuer); }
        let cert = cert.into_cert(&self.signer, &issuer.key).map_err(|e| format!("signing: {}", e))?;
        Ok((cert.to_captured().into_bytes(), nb, na))
    }

    fn sigobj_builder(&self, issuer: &CaSpec, name: &str, ee: &CertSpec, faults: &[Fault]) -> Result<(SignedObjectBuilder, i64, i64), String> {
        let (nb, na) = adjust_validity(ee, faults);
        let crl = if faults.contains(&Fault::WrongCrlUri) { format!("{}wrong.crl", issuer.repo) } else { self.crl_uri(issuer) };
        let mut b = SignedObjectBuilder::new(
            Serial::from(ee.serial), Validity::new(time(self.now, nb), time(self.now, na)),
            rsync(&crl)?, rsync(&self.aia(issuer))?, rsync(&format!("{}{}", issuer.repo, name))?,
        );
        b.set_signing_time(time(self.now, -MARGIN));
        self.signer.set_one_off(ee.ee_key);
        // finalize() signs the attributes with the one-off key first and the EE certificate second
        if faults.contains(&Fault::BadContentSignature) { self.signer.corrupt_next(Corrupt::OneOff); }
        else if faults.contains(&Fault::BadSignature) { self.signer.corrupt_next(Corrupt::Issuer); }
        Ok((b, nb, na))
    }

    fn ee_truth(&self, ca_idx: usize, ee: &CertSpec, nb: i64, na: i64, faults: &[Fault], claimed: ResTruth) -> CertTruth {
        let issuer = &self.issuer_res[ca_idx];
        let res_within = claimed.within(issuer);
        let effective = if claimed.inherit { issuer.clone() } else { claimed.clone() };
        CertTruth {
            subject: None, key: ee.ee_key, ski: keys::rsa_key_id_hex(ee.ee_key),
            decodes: !faults.contains(&Fault::Garbage),
            sig_ok: !faults.contains(&Fault::BadSignature),
            res_within,
            valid_now: nb <= 0 && 0 <= na,
            crl_uri_ok: !faults.contains(&Fault::WrongCrlUri),
            serial: ee.serial, revoked: false, not_before: nb, not_after: na,
            claimed, effective,
        }
    }

    /// Builds one object; returns the bytes to serve (None never: `Missing` is applied by the caller)
    /// and its truth with `revoked = false`.
    fn object(&mut self, ca_idx: usize, obj: &ObjSpec) -> Result<(Bytes, ObjTruth), String> {
        let ca = &self.spec.cas[ca_idx];
        let what = format!("CA {} object {}", ca.id, obj.name);
        // faults that only concern listing are irrelevant for the bytes
        let byte_faults: Vec<Fault> = obj.faults.iter().copied()
            .filter(|f| !matches!(f, Fault::HashMismatch | Fault::Missing | Fault::Unlisted | Fault::Revoked)).collect();
        let key = format!("{}|{}|{}|{}|{:?}|{}", ca.key, ca.repo, ca.crl_name, obj.name, byte_faults,
                          serde_json::to_string(&obj.kind).unwrap());
        if let Some((Some(b), t)) = self.cache.get(&key) { return Ok((b.clone(), t.clone())) }
        let faults = &byte_faults[..];
        let garbage = faults.contains(&Fault::Garbage);
        let (bytes, truth) = match &obj.kind {
            ObjKind::Ca { subject, key: skey, resources, cert } => {
                check_faults(&what, &obj.faults, &Fault::FOR_CERT)?;
                let sub_idx = self.ca_index(subject);
                let sub = &self.spec.cas[sub_idx];
                let skey = skey.unwrap_or(sub.key);
                let mut res = Res::parse(resources).map_err(|e| format!("{}: {}", what, e))?;
                if faults.contains(&Fault::Overclaim) { res.add_nobody(); }
                let claimed = res.truth();
                if claimed.is_empty() { return Err(format!("{}: a CA certificate needs resources", what)) }
                let mft = format!("{}{}", sub.repo, sub.mft_name);
                let (b, nb, na) = self.issued_cert(ca, keys::rsa_public(skey), KeyUsage::Ca, cert, faults, &res,
                                                   Some((&sub.repo, &mft)), false)?;
                let issuer = &self.issuer_res[ca_idx];
                let t = CertTruth {
                    subject: Some(subject.clone()), key: skey, ski: keys::rsa_key_id_hex(skey),
                    decodes: !garbage, sig_ok: !faults.contains(&Fault::BadSignature),
                    res_within: claimed.within(issuer), valid_now: nb <= 0 && 0 <= na,
                    crl_uri_ok: !faults.contains(&Fault::WrongCrlUri),
                    serial: cert.serial, revoked: false, not_before: nb, not_after: na,
                    effective: if claimed.inherit { issuer.clone() } else { claimed.clone() }, claimed,
                };
                (b, ObjTruth::Ca(t))
            }
            ObjKind::Router { asns, key: ec, cert } => {
                check_faults(&what, &obj.faults, &Fault::FOR_CERT)?;
                let mut res = Res { v4: vec![], v6: vec![], asn: asns.clone(), inherit: false };
                if faults.contains(&Fault::Overclaim) { res.asn.push((NOBODY_ASN, NOBODY_ASN)); }
                let claimed = res.truth();
                let pk = keys::ec_public(*ec);
                let (b, nb, na) = self.issued_cert(ca, pk.clone(), KeyUsage::Ee, cert, faults, &res, None, true)?;
                let issuer = &self.issuer_res[ca_idx];
                let key_id = hex(pk.key_identifier().as_slice());
                let key_info = hex(pk.to_info_bytes().as_ref());
                let mut ks = Vec::new();
                for (lo, hi) in &claimed.asn {
                    if (*hi as u64) - (*lo as u64) > 4096 { return Err(format!("{}: AS range too large for a router certificate", what)) }
                    for a in *lo..=*hi { ks.push(RouterKeyTruth { key_id: key_id.clone(), asn: a, key_info: key_info.clone() }); }
                }
                let t = CertTruth {
                    subject: None, key: *ec, ski: key_id, decodes: !garbage,
                    sig_ok: !faults.contains(&Fault::BadSignature), res_within: claimed.within(issuer),
                    valid_now: nb <= 0 && 0 <= na, crl_uri_ok: !faults.contains(&Fault::WrongCrlUri),
                    serial: cert.serial, revoked: false, not_before: nb, not_after: na,
                    effective: claimed.clone(), claimed,
                };
                (b, ObjTruth::Router { cert: t, keys: ks })
            }
            ObjKind::Roa { asn, prefixes, ee } => {
                check_faults(&what, &obj.faults, &Fault::FOR_SIGNED)?;
                let mut parsed = Vec::new();
                for p in prefixes {
                    let (v4, a, l) = parse_prefix(&p.prefix).map_err(|e| format!("{}: {}", what, e))?;
                    let width = if v4 { 32 } else { 128 };
                    let ml = p.max_len.unwrap_or(l);
                    if ml < l || ml > width { return Err(format!("{}: bad max length", what)) }
                    parsed.push((v4, a, l, p.max_len));
                }
                let mut vrps: Vec<Vrp> = parsed.iter().map(|(v4, a, l, ml)| Vrp {
                    prefix: prefix_text(*v4, *a, *l), v4: *v4, addr: Num(*a), len: *l, max_len: ml.unwrap_or(*l), asn: *asn,
                }).collect();
                if faults.contains(&Fault::Overclaim) {
                    let (v4, a, l) = parse_prefix(NOBODY_V4).unwrap();
                    parsed.push((v4, a, l, None));
                    vrps.push(Vrp { prefix: prefix_text(v4, a, l), v4, addr: Num(a), len: l, max_len: l, asn: *asn });
                }
                let mut rb = RoaBuilder::new(Asn::from_u32(*asn));
                for (v4, a, l, ml) in &parsed {
                    let addr = RoaIpAddress::new(rpki_prefix(*v4, *a, *l), *ml);
                    if *v4 { rb.push_v4(addr) } else { rb.push_v6(addr) }
                }
                let claimed = ResTruth {
                    v4: canon128(parsed.iter().filter(|p| p.0).map(|p| prefix_range(true, p.1, p.2)).collect()),
                    v6: canon128(parsed.iter().filter(|p| !p.0).map(|p| prefix_range(false, p.1, p.2)).collect()),
                    asn: vec![], inherit: false,
                };
                let (sb, nb, na) = self.sigobj_builder(ca, &obj.name, ee, faults)?;
                let roa = rb.finalize(sb, &self.signer, &ca.key).map_err(|e| format!("{}: signing: {}", what, e))?;
                let t = self.ee_truth(ca_idx, ee, nb, na, faults, claimed);
                (roa.to_captured().into_bytes(),
                 ObjTruth::Roa { decodes: !garbage, content_sig_ok: !faults.contains(&Fault::BadContentSignature), ee: t, vrps })
            }
            ObjKind::Aspa { customer, providers, ee } => {
                check_faults(&what, &obj.faults, &Fault::FOR_SIGNED)?;
                let mut provs = providers.clone();
                provs.sort();
                let ab = AspaBuilder::new(Asn::from_u32(*customer), provs.iter().map(|p| Asn::from_u32(*p)).collect::<Vec<_>>())
                    .map_err(|e| format!("{}: {}", what, e))?;
                let mut claimed = ResTruth { asn: vec![(*customer, *customer)], ..Default::default() };
                let bytes = if faults.contains(&Fault::Overclaim) {
                    // AspaBuilder::finalize fixes the EE resources to the customer AS: build once for
                    // the content, then sign that content again with an EE certificate claiming more.
                    claimed.asn = canon32(vec![(*customer, *customer), (NOBODY_ASN, NOBODY_ASN)]);
                    let (sb0, _, _) = self.sigobj_builder(ca, &obj.name, ee, &[])?;
                    let plain = ab.finalize(sb0, &self.signer, &ca.key).map_err(|e| format!("{}: signing: {}", what, e))?;
                    let content = plain.content().encode_ref().to_captured(Mode::Der).into_bytes();
                    let (mut sb, _, _) = self.sigobj_builder(ca, &obj.name, ee, faults)?;
                    let mut ab2 = AsBlocksBuilder::new();
                    ab2.push((Asn::from_u32(*customer), Asn::from_u32(*customer)));
                    ab2.push((Asn::from_u32(NOBODY_ASN), Asn::from_u32(NOBODY_ASN)));
                    sb.set_as_resources(AsResources::blocks(ab2.finalize()));
                    let so = sb.finalize(Oid(Bytes::copy_from_slice(rpki::oid::CT_ASPA.0)), content, &self.signer, &ca.key)
                        .map_err(|e| format!("{}: signing: {}", what, e))?;
                    let b = so.encode_ref().to_captured(Mode::Der).into_bytes();
                    b
                } else {
                    let (sb, _, _) = self.sigobj_builder(ca, &obj.name, ee, faults)?;
                    ab.finalize(sb, &self.signer, &ca.key).map_err(|e| format!("{}: signing: {}", what, e))?
                        .to_captured().into_bytes()
                };
                let (nb, na) = adjust_validity(ee, faults);
                let t = self.ee_truth(ca_idx, ee, nb, na, faults, claimed);
                // rpki refuses to decode an ASPA with no provider or with the customer among the providers
                let decodable = !provs.is_empty() && !provs.contains(customer);
                (bytes, ObjTruth::Aspa { decodes: !garbage && decodable, content_sig_ok: !faults.contains(&Fault::BadContentSignature),
                                         ee: t, customer: *customer, providers: provs })
            }
            ObjKind::Gbr { ee } => {
                check_faults(&what, &obj.faults, &Fault::FOR_SIGNED)?;
                let (mut sb, nb, na) = self.sigobj_builder(ca, &obj.name, ee, faults)?;
                let claimed = if faults.contains(&Fault::Overclaim) {
                    let mut r = Res { v4: vec![], v6: vec![], asn: vec![], inherit: false };
                    r.add_nobody();
                    sb.set_v4_resources(r.v4_res());
                    sb.set_as_resources(r.as_res());
                    r.truth()
                } else {
                    sb.set_v4_resources_inherit(); sb.set_v6_resources_inherit(); sb.set_as_resources_inherit();
                    ResTruth { inherit: true, ..Default::default() }
                };
                let vcard = Bytes::from_static(b"BEGIN:VCARD\r\nVERSION:4.0\r\nFN:rpkigen\r\nEMAIL:rpkigen@example.net\r\nEND:VCARD\r\n");
                let so = sb.finalize(Oid(Bytes::copy_from_slice(&CT_GBR)), vcard, &self.signer, &ca.key)
                    .map_err(|e| format!("{}: signing: {}", what, e))?;
                let t = self.ee_truth(ca_idx, ee, nb, na, faults, claimed);
                let b = so.encode_ref().to_captured(Mode::Der).into_bytes();
                (b,
                 ObjTruth::Gbr { decodes: !garbage, content_sig_ok: !faults.contains(&Fault::BadContentSignature), ee: t })
            }
            ObjKind::Other { content } => {
                check_faults(&what, &obj.faults, &Fault::FOR_OTHER)?;
                (Bytes::from(content.clone().into_bytes()), ObjTruth::Other { stray_crl: obj.name.ends_with(".crl") })
            }
        };
        if self.signer.pending_corruption() != Corrupt::None {
            return Err(format!("{}: internal: requested signature corruption was not applied", what))
        }
        let bytes = if garbage { Bytes::from_static(GARBAGE) } else { bytes };
        // cross-check the `decodes` bit with the decoders of the rpki crate (both modes)
        for strict in [false, true] {
            let (claimed, actual) = match &truth {
                ObjTruth::Ca(c) | ObjTruth::Router { cert: c, .. } => (c.decodes, rpki::repository::cert::Cert::decode(bytes.clone()).is_ok()),
                ObjTruth::Roa { decodes, .. } => (*decodes, rpki::repository::roa::Roa::decode(bytes.clone(), strict).is_ok()),
                ObjTruth::Aspa { decodes, .. } => (*decodes, rpki::repository::aspa::Aspa::decode(bytes.clone(), strict).is_ok()),
                ObjTruth::Gbr { decodes, .. } => (*decodes, rpki::repository::sigobj::SignedObject::decode(bytes.clone(), strict).is_ok()),
                ObjTruth::Other { .. } => (true, true),
            };
            if claimed != actual {
                return Err(format!("{}: ground truth says decodes={} but rpki (strict={}) says {}", what, claimed, strict, actual))
            }
        }
        self.cache.insert(key, (Some(bytes.clone()), truth.clone()));
        Ok((bytes, truth))
    }

    fn version(&mut self, ca_idx: usize, vi: usize) -> Result<(Vec<FileOut>, VersionTruth), String> {
        let ca = &self.spec.cas[ca_idx];
        let v = &ca.versions[vi];
        let what = format!("CA {} v{}", ca.id, vi);
        check_faults(&format!("{} manifest", what), &v.mft.faults, &Fault::FOR_MANIFEST)?;
        check_faults(&format!("{} CRL", what), &v.crl.faults, &Fault::FOR_CRL)?;
        let mut files = Vec::new();

        // revoked serials
        let mut revoked: Vec<u64> = v.crl.revoked.clone();
        if v.mft.faults.contains(&Fault::Revoked) { revoked.push(v.mft.ee.serial); }
        for o in &v.objects {
            if o.faults.contains(&Fault::Revoked) {
                match &o.kind {
                    ObjKind::Ca { cert, .. } | ObjKind::Router { cert, .. } => revoked.push(cert.serial),
                    ObjKind::Roa { ee, .. } | ObjKind::Aspa { ee, .. } | ObjKind::Gbr { ee } => revoked.push(ee.serial),
                    ObjKind::Other { .. } => return Err(format!("{} {}: Revoked does not apply", what, o.name)),
                }
            }
        }
        revoked.sort();
        revoked.dedup();

        // CRL
        let (mut crl_this, mut crl_next) = (v.crl.this_update, v.crl.next_update);
        if v.crl.faults.contains(&Fault::Stale) { crl_next = -2 * HOUR; crl_this = crl_this.min(-3 * HOUR); }
        let issuer_pub = keys::rsa_public(ca.key);
        let tbs = TbsCertList::new(
            Default::default(), issuer_pub.to_subject_name(), time(self.now, crl_this), time(self.now, crl_next),
            revoked.iter().map(|s| CrlEntry::new(Serial::from(*s), time(self.now, crl_this))).collect::<Vec<_>>(),
            issuer_pub.key_identifier(), Serial::from(v.crl.number),
        );
        if v.crl.faults.contains(&Fault::BadSignature) { self.signer.corrupt_next(Corrupt::Issuer); }
        let crl = tbs.into_crl(&self.signer, &ca.key).map_err(|e| format!("{}: signing CRL: {}", what, e))?;
        let crl_garbage = v.crl.faults.contains(&Fault::Garbage);
        let crl_bytes = if crl_garbage { Bytes::from_static(GARBAGE) } else { crl.to_captured().into_bytes() };
        let crl_present = !v.crl.faults.contains(&Fault::Missing);
        let crl_listed = !v.crl.faults.contains(&Fault::Unlisted);
        let crl_hash_ok = !v.crl.faults.contains(&Fault::HashMismatch);
        let crl_uri = self.crl_uri(ca);
        if crl_present { files.push(FileOut { uri: crl_uri.clone(), bytes: crl_bytes.clone() }); }
        let wrong_hash = |b: &[u8]| { let mut x = b.to_vec(); x.extend_from_slice(b"rpkigen hash mismatch"); sha256(&x) };
        let mut listing: Vec<(String, Vec<u8>)> = Vec::new();
        if crl_listed {
            listing.push((ca.crl_name.clone(), if crl_hash_ok { sha256(&crl_bytes) } else { wrong_hash(&crl_bytes) }));
        }
        let crl_truth = CrlTruth {
            listed: crl_listed, present: crl_present, hash_ok: crl_hash_ok, decodes: !crl_garbage,
            sig_ok: !v.crl.faults.contains(&Fault::BadSignature), number: v.crl.number,
            this_update: crl_this, next_update: crl_next, stale: crl_next < 0, revoked: revoked.clone(),
        };

        // objects
        let objects = v.objects.clone();
        let repo = ca.repo.clone();
        let mut entries = Vec::new();
        for o in &objects {
            let (bytes, mut t) = self.object(ca_idx, o)?;
            let set_rev = |c: &mut CertTruth| c.revoked = revoked.binary_search(&c.serial).is_ok();
            match &mut t {
                ObjTruth::Ca(c) => set_rev(c),
                ObjTruth::Router { cert, .. } => set_rev(cert),
                ObjTruth::Roa { ee, .. } | ObjTruth::Aspa { ee, .. } | ObjTruth::Gbr { ee, .. } => set_rev(ee),
                ObjTruth::Other { .. } => { }
            }
            let listed = !o.faults.contains(&Fault::Unlisted);
            let present = !o.faults.contains(&Fault::Missing);
            let hash_ok = !o.faults.contains(&Fault::HashMismatch);
            let uri = format!("{}{}", repo, o.name);
            if present { files.push(FileOut { uri: uri.clone(), bytes: bytes.clone() }); }
            if listed { listing.push((o.name.clone(), if hash_ok { sha256(&bytes) } else { wrong_hash(&bytes) })); }
            entries.push(EntryTruth { name: o.name.clone(), uri, listed, present, hash_ok, obj: t });
        }

        // manifest
        let ca = &self.spec.cas[ca_idx];
        let v = &ca.versions[vi];
        let (mut this, mut next) = (v.mft.this_update, v.mft.next_update);
        if v.mft.faults.contains(&Fault::Stale) { next = -2 * HOUR; this = this.min(-3 * HOUR); }
        if v.mft.faults.contains(&Fault::Premature) { this = 2 * HOUR; next = next.max(DAY); }
        if this > next { return Err(format!("{}: manifest thisUpdate after nextUpdate", what)) }
        let items: Vec<FileAndHash<Bytes, Bytes>> = listing.iter()
            .map(|(n, h)| FileAndHash::new(Bytes::from(n.clone().into_bytes()), Bytes::from(h.clone()))).collect();
        let content = ManifestContent::new(Serial::from(v.mft.number), time(self.now, this), time(self.now, next),
                                           DigestAlgorithm::default(), items.iter());
        let (sb, nb, na) = self.sigobj_builder(ca, &ca.mft_name, &v.mft.ee, &v.mft.faults)?;
        let mft = content.into_manifest(sb, &self.signer, &ca.key).map_err(|e| format!("{}: signing manifest: {}", what, e))?;
        if self.signer.pending_corruption() != Corrupt::None {
            return Err(format!("{}: internal: requested signature corruption was not applied", what))
        }
        let mft_garbage = v.mft.faults.contains(&Fault::Garbage);
        let mft_bytes = if mft_garbage { Bytes::from_static(GARBAGE) } else { mft.to_captured().into_bytes() };
        let mft_present = !v.mft.faults.contains(&Fault::Missing);
        if mft_present { files.push(FileOut { uri: format!("{}{}", ca.repo, ca.mft_name), bytes: mft_bytes.clone() }); }
        let mut ee = self.ee_truth(ca_idx, &v.mft.ee, nb, na, &v.mft.faults, ResTruth { inherit: true, ..Default::default() });
        ee.revoked = revoked.binary_search(&ee.serial).is_ok();
        let mft_truth = MftTruth {
            present: mft_present, decodes: !mft_garbage,
            content_sig_ok: !v.mft.faults.contains(&Fault::BadContentSignature),
            ee, number: v.mft.number, this_update: this, next_update: next, premature: this > 0, stale: next < 0,
            sha256: hex(&sha256(&mft_bytes)),
        };
        Ok((files, VersionTruth { mft: mft_truth, crl: crl_truth, entries }))
    }

    fn ta_cert(&self, tal: &TalSpec, c: &TaCertSpec) -> Result<(Option<FileOut>, CertTruth, String), String> {
        let what = format!("TAL {}", tal.name);
        check_faults(&what, &c.faults, &Fault::FOR_TA)?;
        let sub = &self.spec.cas[self.ca_index(&c.ca)];
        let mut key = c.key.unwrap_or(sub.key);
        if c.faults.contains(&Fault::WrongKey) && key == tal.key { key = (tal.key + 1) % keys::FIRST_EE_KEY; }
        let res = Res::parse(&c.resources).map_err(|e| format!("{}: {}", what, e))?;
        let claimed = res.truth();
        if claimed.is_empty() { return Err(format!("{}: a TA certificate needs resources", what)) }
        let (nb, na) = adjust_validity(&c.cert, &c.faults);
        let pk = keys::rsa_public(key);
        let mut cert = TbsCert::new(
            Serial::from(c.cert.serial), pk.to_subject_name(), Validity::new(time(self.now, nb), time(self.now, na)),
            None, pk.clone(), KeyUsage::Ca, Overclaim::Refuse,
        );
        cert.set_basic_ca(Some(true));
        cert.set_ca_repository(Some(rsync(&sub.repo)?));
        cert.set_rpki_manifest(Some(rsync(&format!("{}{}", sub.repo, sub.mft_name))?));
        cert.set_v4_resources(res.v4_res());
        cert.set_v6_resources(res.v6_res());
        cert.set_as_resources(res.as_res());
        if c.faults.contains(&Fault::BadSignature) { self.signer.corrupt_next(Corrupt::Issuer); }
        let cert = cert.into_cert(&self.signer, &key).map_err(|e| format!("{}: signing: {}", what, e))?;
        let garbage = c.faults.contains(&Fault::Garbage);
        let bytes = if garbage { Bytes::from_static(GARBAGE) } else { cert.to_captured().into_bytes() };
        let t = CertTruth {
            subject: Some(c.ca.clone()), key, ski: keys::rsa_key_id_hex(key), decodes: !garbage,
            sig_ok: !c.faults.contains(&Fault::BadSignature), res_within: true, valid_now: nb <= 0 && 0 <= na,
            crl_uri_ok: true, serial: c.cert.serial, revoked: false, not_before: nb, not_after: na,
            effective: claimed.clone(), claimed,
        };
        let file = if c.faults.contains(&Fault::Missing) { None } else { Some(bytes) };
        Ok((file.map(|bytes| FileOut { uri: String::new(), bytes }), t, c.ca.clone()))
    }
}

/// Effective resources of the canonical certificate of every CA (see `truth` module docs).
fn canonical_resources(spec: &RepoSpec) -> Result<(Vec<ResTruth>, Vec<bool>), String> {
    let n = spec.cas.len();
    let mut res: Vec<Option<(ResTruth, usize)>> = vec![None; n];   // (effective, key)
    let mut fallback: Vec<Option<(ResTruth, usize)>> = vec![None; n];
    let mut ambiguous = vec![false; n];
    let mut queue: VecDeque<usize> = VecDeque::new();
    let mut seen: HashSet<usize> = HashSet::new();
    let mut offer = |idx: usize, eff: ResTruth, key: usize, good: bool,
                     res: &mut Vec<Option<(ResTruth, usize)>>, fallback: &mut Vec<Option<(ResTruth, usize)>>,
                     ambiguous: &mut Vec<bool>, queue: &mut VecDeque<usize>| {
        if good {
            match &res[idx] {
                None => { res[idx] = Some((eff, key)); if seen.insert(idx) { queue.push_back(idx); } }
                Some((e, k)) => if *e != eff || *k != key { ambiguous[idx] = true },
            }
        } else if fallback[idx].is_none() { fallback[idx] = Some((eff, key)); }
    };
    for tal in &spec.tals {
        for u in &tal.uris {
            for c in u.certs.iter().flatten() {
                let idx = spec.ca_index(&c.ca).unwrap();
                let eff = Res::parse(&c.resources)?.truth();
                let good = !c.faults.contains(&Fault::Garbage);
                offer(idx, eff, c.key.unwrap_or(spec.cas[idx].key), good, &mut res, &mut fallback, &mut ambiguous, &mut queue);
            }
        }
    }
    // breadth first; CAs never reached from a TAL are handled afterwards in description order
    let mut pending: Vec<usize> = (0..n).collect();
    loop {
        while let Some(i) = queue.pop_front() {
            let issuer = res[i].clone().map(|x| x.0).unwrap_or_default();
            for v in &spec.cas[i].versions {
                for o in &v.objects {
                    if let ObjKind::Ca { subject, key, resources, .. } = &o.kind {
                        let idx = spec.ca_index(subject).unwrap();
                        let mut r = Res::parse(resources)?;
                        if o.faults.contains(&Fault::Overclaim) { r.add_nobody(); }
                        let claimed = r.truth();
                        let good = claimed.within(&issuer) && !o.faults.contains(&Fault::Garbage);
                        let eff = if claimed.inherit { issuer.clone() } else { claimed };
                        offer(idx, eff, key.unwrap_or(spec.cas[idx].key), good, &mut res, &mut fallback, &mut ambiguous, &mut queue);
                    }
                }
            }
        }
        // a CA only named by overclaiming/garbage certificates, or not named at all
        pending.retain(|i| res[*i].is_none());
        match pending.first().copied() {
            None => break,
            Some(i) => {
                res[i] = Some(fallback[i].clone().unwrap_or((ResTruth::default(), spec.cas[i].key)));
                queue.push_back(i);
            }
        }
    }
    Ok((res.into_iter().map(|r| r.unwrap().0).collect(), ambiguous))
}

/// Builds every object of the description.  "Now" is the current wall clock (whole seconds).
pub fn build(spec: &RepoSpec) -> Result<Built, String> {
    build_at(spec, Utc::now().timestamp())
}

/// As `build` with an explicit "now" (unix seconds).
pub fn build_at(spec: &RepoSpec, now: i64) -> Result<Built, String> {
    spec.validate()?;
    let (issuer_res, ambiguous) = canonical_resources(spec)?;
    let mut ctx = Ctx { spec, now, signer: RingSigner::new(), issuer_res, cache: HashMap::new() };

    let mut tal_files = Vec::new();
    let mut ta_files = Vec::new();
    let mut tal_truth = Vec::new();
    for tal in &spec.tals {
        let mut text = String::new();
        for u in &tal.uris { text.push_str(&u.uri); text.push('\n'); }
        text.push('\n');
        let spki = keys::rsa_public(tal.key).encode_ref().to_captured(Mode::Der);
        let b64 = rpki::util::base64::Xml.encode(spki.as_slice());
        for chunk in b64.as_bytes().chunks(64) { text.push_str(std::str::from_utf8(chunk).unwrap()); text.push('\n'); }
        tal_files.push((format!("{}.tal", tal.name), text.into_bytes()));
        let mut per_uri = Vec::new();
        let mut uri_truth = Vec::new();
        for u in &tal.uris {
            let mut steps = Vec::new();
            let mut ts = Vec::new();
            for c in &u.certs {
                match c {
                    None => { steps.push(None); ts.push(None); }
                    Some(c) => {
                        let (f, t, _) = ctx.ta_cert(tal, c)?;
                        steps.push(f.map(|f| FileOut { uri: u.uri.clone(), bytes: f.bytes }));
                        // a missing file is still described (the model sees "download failed")
                        ts.push(if c.faults.contains(&Fault::Missing) { None } else { Some(t) });
                    }
                }
            }
            per_uri.push(steps);
            uri_truth.push(TaUriTruth { uri: u.uri.clone(), module: module_of(&u.uri), certs: ts });
        }
        ta_files.push(per_uri);
        tal_truth.push(TalTruth { name: tal.name.clone(), key: tal.key, uris: uri_truth });
    }

    let mut point_files = Vec::new();
    let mut cas = Vec::new();
    for (i, ca) in spec.cas.iter().enumerate() {
        let mut fv = Vec::new();
        let mut tv = Vec::new();
        for vi in 0..ca.versions.len() {
            let (f, t) = ctx.version(i, vi)?;
            fv.push(f);
            tv.push(t);
        }
        point_files.push(fv);
        cas.push(CaTruth {
            id: ca.id.clone(), key: ca.key, ski: keys::rsa_key_id_hex(ca.key), repo: ca.repo.clone(),
            module: module_of(&ca.repo), mft_uri: format!("{}{}", ca.repo, ca.mft_name),
            crl_uri: format!("{}{}", ca.repo, ca.crl_name),
            issuer_resources: ctx.issuer_res[i].clone(), ambiguous: ambiguous[i], versions: tv,
        });
    }
    let signatures = ctx.signer.count.get();
    Ok(Built {
        spec: spec.clone(), now, truth: Truth { now, tals: tal_truth, cas }, tal_files, ta_files, point_files, signatures,
    })
}
