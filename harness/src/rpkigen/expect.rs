//! A small reference evaluator: the payload a *single run on an empty cache* is expected to yield,
//! computed from the ground truth alone.  It exists for the self-test and as a sanity check for
//! users of the generator; the Coq engine model (`coq/Engine/Model.v`) is the authoritative oracle
//! and also covers histories (stored fallback), which this function does not.
//!
//! Assumptions: no CA is `ambiguous` (see `truth`), at most one ASPA per customer AS, file name
//! extensions match the object kinds, no SLURM.

use std::collections::BTreeSet;
use super::run::{AspaOut, OriginOut, PayloadOut, RouterKeyOut, RunCfg, ServePlan};
use super::truth::*;

struct Eval<'a> {
    truth: &'a Truth,
    plan: &'a ServePlan,
    cfg: &'a RunCfg,
    out: PayloadOut,
    /// address ranges of rejected CAs: (v4, lo, hi)
    rejected: Vec<(bool, u128, u128)>,
}

fn kind_matches(name: &str, obj: &ObjTruth) -> bool {
    match obj {
        ObjTruth::Ca(_) | ObjTruth::Router { .. } => name.ends_with(".cer"),
        ObjTruth::Roa { .. } => name.ends_with(".roa"),
        ObjTruth::Aspa { .. } => name.ends_with(".asa"),
        ObjTruth::Gbr { .. } => name.ends_with(".gbr"),
        ObjTruth::Other { .. } => !(name.ends_with(".cer") || name.ends_with(".roa") || name.ends_with(".asa") || name.ends_with(".gbr")),
    }
}

impl<'a> Eval<'a> {
    fn reachable(&self, module: &str) -> bool { !self.plan.unreachable.contains(module) }

    fn version_of(&self, ca: &'a CaTruth) -> Option<&'a VersionTruth> {
        if !self.reachable(&ca.module) { return None }
        match self.plan.ca_version.get(&ca.id) {
            Some(None) => None,
            Some(Some(v)) => ca.versions.get((*v).min(ca.versions.len() - 1)),
            None => ca.versions.get(self.plan.step.min(ca.versions.len() - 1)),
        }
    }

    fn reject(&mut self, cert: &CertTruth) {
        for (lo, hi) in &cert.effective.v4 { if !(lo.0 == 0 && hi.0 == 0xFFFF_FFFF) { self.rejected.push((true, lo.0, hi.0)); } }
        for (lo, hi) in &cert.effective.v6 { if !(lo.0 == 0 && hi.0 == u128::MAX) { self.rejected.push((false, lo.0, hi.0)); } }
    }

    fn point(&mut self, ca: &'a CaTruth, cert: &'a CertTruth, chain: &mut Vec<String>, depth: usize) {
        let stale_reject = self.cfg.stale == "reject";
        let v = match self.version_of(ca) { Some(v) => v, None => return self.reject(cert) };
        let key_ok = cert.key == ca.key;
        let m = &v.mft;
        let mft_ok = m.present && m.decodes && key_ok && m.content_sig_ok && m.ee.sig_ok && m.ee.valid_now && m.ee.res_within
            && !m.premature && !(m.stale && stale_reject);
        let c = &v.crl;
        let crl_ok = m.ee.crl_uri_ok && c.listed && c.present && c.hash_ok && c.decodes && c.sig_ok
            && !(c.stale && stale_reject) && !m.ee.revoked;
        if !(mft_ok && crl_ok) { return self.reject(cert) }
        if v.entries.iter().any(|e| e.listed && !(e.present && e.hash_ok)) { return self.reject(cert) }
        let mut children: Vec<&'a CertTruth> = Vec::new();
        let mut origins = Vec::new();
        let mut keys = Vec::new();
        let mut aspas = Vec::new();
        for e in v.entries.iter().filter(|e| e.listed) {
            if !kind_matches(&e.name, &e.obj) || !e.obj.all_good() { continue }
            match &e.obj {
                ObjTruth::Ca(c) => {
                    if chain.contains(&c.ski) { continue }
                    if depth + 1 > self.cfg.max_ca_depth { continue }
                    children.push(c);
                }
                ObjTruth::Router { keys: ks, .. } => if self.cfg.enable_bgpsec { keys.extend(ks.iter().cloned()) },
                ObjTruth::Roa { vrps, .. } => {
                    for r in vrps {
                        let lim = if r.v4 { self.cfg.limit_v4_len } else { self.cfg.limit_v6_len };
                        if lim.map(|l| r.len > l).unwrap_or(false) { continue }
                        origins.push(r.clone());
                    }
                }
                ObjTruth::Aspa { customer, providers, .. } => if self.cfg.enable_aspa { aspas.push((*customer, providers.clone())) },
                ObjTruth::Gbr { .. } | ObjTruth::Other { .. } => { }
            }
        }
        for r in origins {
            self.out.origins.push(OriginOut { prefix: r.prefix.clone(), v4: r.v4, addr: r.addr.to_string(), len: r.len,
                                              max_len: r.max_len, asn: r.asn });
        }
        for k in keys { self.out.router_keys.push(RouterKeyOut { key_id: k.key_id, asn: k.asn, key_info: k.key_info }); }
        for (c, p) in aspas { if !self.out.aspas.iter().any(|a| a.customer == c) { self.out.aspas.push(AspaOut { customer: c, providers: p }); } }
        for c in children {
            let sub = match c.subject.as_ref().and_then(|s| self.truth.ca(s)) { Some(s) => s, None => continue };
            chain.push(c.ski.clone());
            self.point(sub, c, chain, depth + 1);
            chain.pop();
        }
    }
}

/// Expected payload of one run on an empty cache with `plan` served.
pub fn expected_fresh(truth: &Truth, plan: &ServePlan, cfg: &RunCfg) -> PayloadOut {
    let mut ev = Eval { truth, plan, cfg, out: PayloadOut::default(), rejected: Vec::new() };
    for tal in &truth.tals {
        for u in &tal.uris {
            if !ev.reachable(&u.module) { continue }
            let cert = match &u.certs[plan.step.min(u.certs.len() - 1)] { Some(c) => c, None => continue };
            if !cert.decodes { continue }
            if cert.key != tal.key { continue }
            if !(cert.valid_now && cert.sig_ok) { continue }
            if let Some(ca) = cert.subject.as_ref().and_then(|s| truth.ca(s)) {
                let mut chain = vec![cert.ski.clone()];
                ev.point(ca, cert, &mut chain, 0);
            }
            break
        }
    }
    let mut out = ev.out;
    if cfg.unsafe_vrps == "reject" {
        let rej = ev.rejected;
        out.origins.retain(|o| {
            let addr: u128 = o.addr.parse().unwrap();
            let width: u32 = if o.v4 { 32 } else { 128 };
            let host = if o.len == 0 { if o.v4 { 0xFFFF_FFFFu128 } else { u128::MAX } } else if o.len as u32 == width { 0 } else { (1u128 << (width - o.len as u32)) - 1 };
            let (lo, hi) = (addr, addr | host);
            !rej.iter().any(|(v4, a, b)| *v4 == o.v4 && *a <= hi && lo <= *b)
        });
    }
    let o: BTreeSet<OriginOut> = out.origins.into_iter().collect();
    out.origins = o.into_iter().collect();
    let k: BTreeSet<RouterKeyOut> = out.router_keys.into_iter().collect();
    out.router_keys = k.into_iter().collect();
    out.aspas.sort();
    out
}
