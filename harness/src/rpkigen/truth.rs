//! The generator's ground truth: for every item what the `rpki` crate will decide about it
//! (verdict bits) plus the plain data the engine itself compares (names, hashes, numbers, times).
//!
//! It mirrors DESIGN.md Appendix A.2: a model that sees only this value (no bytes) can compute
//! the expected payload.  Times are offsets in seconds from `Truth::now`.
//!
//! Conventions for the bits that depend on the *issuer*:
//! * `sig_ok` = "the signature is a correct signature **by the key of the CA the item is published
//!   by**" (`CaTruth::key`; for a TA certificate: by its own subject key).  Whether the certificate
//!   through which the engine reaches that CA carries the same key is `cert.key == ca.key`, which
//!   the model compares itself (`CertTruth::key`).
//! * `res_within` = "all resources are contained in `CaTruth::issuer_resources`", the effective
//!   resources of the *canonical* certificate for the publishing CA (first certificate naming the
//!   CA in breadth-first order from the TALs whose own `res_within` holds).  If several
//!   certificates with different resources or keys name the CA, `CaTruth::ambiguous` is set and a
//!   model that wants the exact verdict must use `claimed`/`effective` (canonical interval lists:
//!   sorted, disjoint, non-adjacent, so containment = "inside a single block").

use serde::{Deserialize, Serialize};

/// A 128-bit number serialised as a decimal string (JSON numbers stop at 2^64).
#[derive(Clone, Copy, Debug, PartialEq, Eq, PartialOrd, Ord, Hash, Default)]
pub struct Num(pub u128);
impl Serialize for Num {
    fn serialize<S: serde::Serializer>(&self, s: S) -> Result<S::Ok, S::Error> { s.serialize_str(&self.0.to_string()) }
}
impl<'de> Deserialize<'de> for Num {
    fn deserialize<D: serde::Deserializer<'de>>(d: D) -> Result<Self, D::Error> {
        let s = String::deserialize(d)?;
        s.parse::<u128>().map(Num).map_err(serde::de::Error::custom)
    }
}
impl std::fmt::Display for Num {
    fn fmt(&self, f: &mut std::fmt::Formatter) -> std::fmt::Result { self.0.fmt(f) }
}

/// Resources as canonical inclusive ranges.  IPv4 addresses are numbers below 2^32, IPv6 below 2^128.
#[derive(Serialize, Deserialize, Clone, Debug, PartialEq, Eq, Default)]
pub struct ResTruth {
    pub v4: Vec<(Num, Num)>,
    pub v6: Vec<(Num, Num)>,
    pub asn: Vec<(u32, u32)>,
    pub inherit: bool,
}

pub fn canon128(mut r: Vec<(u128, u128)>) -> Vec<(Num, Num)> {
    r.sort();
    let mut out: Vec<(u128, u128)> = Vec::new();
    for (lo, hi) in r {
        if let Some(last) = out.last_mut() {
            if lo <= last.1 || (last.1 != u128::MAX && lo == last.1 + 1) {
                if hi > last.1 { last.1 = hi }
                continue
            }
        }
        out.push((lo, hi));
    }
    out.into_iter().map(|(a, b)| (Num(a), Num(b))).collect()
}
pub fn canon32(r: Vec<(u32, u32)>) -> Vec<(u32, u32)> {
    canon128(r.into_iter().map(|(a, b)| (a as u128, b as u128)).collect())
        .into_iter().map(|(a, b)| (a.0 as u32, b.0 as u32)).collect()
}
fn within128(parent: &[(Num, Num)], child: &[(Num, Num)]) -> bool {
    child.iter().all(|c| parent.iter().any(|p| p.0 <= c.0 && c.1 <= p.1))
}
fn within32(parent: &[(u32, u32)], child: &[(u32, u32)]) -> bool {
    child.iter().all(|c| parent.iter().any(|p| p.0 <= c.0 && c.1 <= p.1))
}

impl ResTruth {
    /// Containment of `self` (not inherited) in canonical `parent`.
    pub fn within(&self, parent: &ResTruth) -> bool {
        self.inherit || (within128(&parent.v4, &self.v4) && within128(&parent.v6, &self.v6) && within32(&parent.asn, &self.asn))
    }
    pub fn is_empty(&self) -> bool { !self.inherit && self.v4.is_empty() && self.v6.is_empty() && self.asn.is_empty() }
}

#[derive(Serialize, Deserialize, Clone, Debug, PartialEq)]
pub struct Truth {
    /// Unix time (seconds) all offsets are relative to.
    pub now: i64,
    pub tals: Vec<TalTruth>,
    pub cas: Vec<CaTruth>,
}

#[derive(Serialize, Deserialize, Clone, Debug, PartialEq)]
pub struct TalTruth {
    pub name: String,
    pub key: usize,
    pub uris: Vec<TaUriTruth>,
}

#[derive(Serialize, Deserialize, Clone, Debug, PartialEq)]
pub struct TaUriTruth {
    pub uri: String,
    /// `host/module` of the URI.
    pub module: String,
    /// Per step; `None` = no file served.
    pub certs: Vec<Option<CertTruth>>,
}

/// What holds of a certificate (CA, router, TA or the EE certificate inside a signed object).
#[derive(Serialize, Deserialize, Clone, Debug, PartialEq)]
pub struct CertTruth {
    /// CA and TA certificates: the id of the CA whose directory/manifest the SIA names.
    pub subject: Option<String>,
    /// Subject key: RSA fixture index (CA, TA, EE certificates) or ECDSA fixture index (router).
    pub key: usize,
    /// Hex of the subject key identifier (what `CaCert::check_loop` compares).
    pub ski: String,
    /// `Cert::decode` succeeds (for EE certificates: the enclosing object decodes).
    pub decodes: bool,
    /// See the module documentation.
    pub sig_ok: bool,
    /// See the module documentation.
    pub res_within: bool,
    /// notBefore <= now <= notAfter.
    pub valid_now: bool,
    /// The CRL distribution point equals the CRL URI of the publishing CA (`repo + crl_name`).
    /// TA certificates: `true` (they carry none).
    pub crl_uri_ok: bool,
    pub serial: u64,
    /// The serial is on the CRL of the version the item is published in.
    pub revoked: bool,
    pub not_before: i64,
    pub not_after: i64,
    /// Resources as written into the certificate.
    pub claimed: ResTruth,
    /// `claimed`, or the canonical issuer resources if inherited.
    pub effective: ResTruth,
}

#[derive(Serialize, Deserialize, Clone, Debug, PartialEq)]
pub struct CaTruth {
    pub id: String,
    pub key: usize,
    pub ski: String,
    pub repo: String,
    /// `host/module` of `repo`.
    pub module: String,
    pub mft_uri: String,
    pub crl_uri: String,
    /// Effective resources of the canonical certificate for this CA (empty if no certificate names it).
    pub issuer_resources: ResTruth,
    /// Certificates with differing key or effective resources name this CA.
    pub ambiguous: bool,
    pub versions: Vec<VersionTruth>,
}

#[derive(Serialize, Deserialize, Clone, Debug, PartialEq)]
pub struct VersionTruth {
    pub mft: MftTruth,
    pub crl: CrlTruth,
    /// The objects in description order.  The manifest lists the CRL first (if listed), then the
    /// listed objects in this order.
    pub entries: Vec<EntryTruth>,
}

#[derive(Serialize, Deserialize, Clone, Debug, PartialEq)]
pub struct MftTruth {
    /// A file is served at the manifest URI.
    pub present: bool,
    /// `Manifest::decode` succeeds.
    pub decodes: bool,
    /// EE key's signature over the signed attributes verifies.
    pub content_sig_ok: bool,
    /// The EE certificate (its `sig_ok`, `valid_now`, `crl_uri_ok`, `revoked`, `serial`, `not_after`).
    pub ee: CertTruth,
    pub number: u64,
    pub this_update: i64,
    pub next_update: i64,
    /// this_update > now.
    pub premature: bool,
    /// next_update < now.
    pub stale: bool,
    /// SHA-256 of the served manifest file (hex), to recognise it in the store.
    pub sha256: String,
}

#[derive(Serialize, Deserialize, Clone, Debug, PartialEq)]
pub struct CrlTruth {
    /// An entry with the CRL's name is on the manifest.
    pub listed: bool,
    pub present: bool,
    /// The listed hash equals the hash of the served file.
    pub hash_ok: bool,
    pub decodes: bool,
    /// Signed correctly by the CA's key.
    pub sig_ok: bool,
    pub number: u64,
    pub this_update: i64,
    pub next_update: i64,
    pub stale: bool,
    /// All serials on the CRL, sorted.
    pub revoked: Vec<u64>,
}

#[derive(Serialize, Deserialize, Clone, Debug, PartialEq)]
pub struct EntryTruth {
    pub name: String,
    pub uri: String,
    /// On the manifest.
    pub listed: bool,
    /// A file is served.
    pub present: bool,
    /// Listed hash = hash of the served file (meaningless unless listed and present).
    pub hash_ok: bool,
    pub obj: ObjTruth,
}

#[derive(Serialize, Deserialize, Clone, Debug, PartialEq)]
pub struct Vrp {
    /// Prefix in text form as `RouteOrigin` displays it (`10.0.0.0/24`).
    pub prefix: String,
    pub v4: bool,
    pub addr: Num,
    pub len: u8,
    pub max_len: u8,
    pub asn: u32,
}

#[derive(Serialize, Deserialize, Clone, Debug, PartialEq)]
pub struct RouterKeyTruth {
    pub key_id: String,
    pub asn: u32,
    pub key_info: String,
}

#[derive(Serialize, Deserialize, Clone, Debug, PartialEq)]
pub enum ObjTruth {
    Ca(CertTruth),
    Router { cert: CertTruth, keys: Vec<RouterKeyTruth> },
    Roa { decodes: bool, content_sig_ok: bool, ee: CertTruth, vrps: Vec<Vrp> },
    Aspa { decodes: bool, content_sig_ok: bool, ee: CertTruth, customer: u32, providers: Vec<u32> },
    Gbr { decodes: bool, content_sig_ok: bool, ee: CertTruth },
    /// A file the engine does not interpret; `stray_crl` = the name ends in `.crl`.
    Other { stray_crl: bool },
}

impl CertTruth {
    /// All of rpki's own checks pass and the serial is not revoked (issuer key match not included).
    pub fn all_good(&self) -> bool {
        self.decodes && self.sig_ok && self.res_within && self.valid_now && self.crl_uri_ok && !self.revoked
    }
}

impl ObjTruth {
    pub fn cert(&self) -> Option<&CertTruth> {
        match self {
            ObjTruth::Ca(c) => Some(c),
            ObjTruth::Router { cert, .. } => Some(cert),
            ObjTruth::Roa { ee, .. } | ObjTruth::Aspa { ee, .. } | ObjTruth::Gbr { ee, .. } => Some(ee),
            ObjTruth::Other { .. } => None,
        }
    }
    /// Would the engine accept the object (given it reaches it with the right issuer key)?
    pub fn all_good(&self) -> bool {
        match self {
            ObjTruth::Ca(c) => c.all_good(),
            ObjTruth::Router { cert, .. } => cert.all_good(),
            ObjTruth::Roa { decodes, content_sig_ok, ee, .. }
            | ObjTruth::Aspa { decodes, content_sig_ok, ee, .. }
            | ObjTruth::Gbr { decodes, content_sig_ok, ee } => *decodes && *content_sig_ok && ee.all_good(),
            ObjTruth::Other { .. } => true,
        }
    }
}

impl Truth {
    pub fn ca(&self, id: &str) -> Option<&CaTruth> { self.cas.iter().find(|c| c.id == id) }
}
