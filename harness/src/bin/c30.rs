//! C30: the local paths built from URIs vs the Coq model (coq/C30).
//!
//! One case = a set of rsync and HTTPS URIs (raw bytes).  For every URI the real path builders are run:
//!   hooks   Store::verif_{ta_path, rrdp_repository_path, point_path} (src/store.rs),
//!           Config::verif_rsync_paths (collector/rsync.rs: WorkingDir::module_path / uri_path),
//!           Config::verif_rrdp_repository_path (collector/rrdp/base.rs: Collector::repository_path);
//!   public  UriExt::unique_path (must agree with the store hooks), Store Run::update_ta end to end
//!           (the file found on disk afterwards), DumpRegistry::get_repo_path;
//!   hook    Store::verif_dump_object end to end (the file found on disk).
use routinator::config::Config;
use routinator::store::Store;
use routinator::utils::dump::DumpRegistry;
use routinator::utils::uri::UriExt;
use rpki::repository::tal::TalUri;
use rpki::uri;
use rv_harness::util::*;
use serde_json::{json, Value};
use std::path::{Path, PathBuf};

fn to_bytes(s: &str) -> Vec<u8> { s.chars().map(|c| c as u32 as u8).collect() }
fn from_bytes(b: &[u8]) -> String { b.iter().map(|&c| c as char).collect() }

//------------ generators ----------------------------------------------------------------------

const R_AUTH: &[&str] = &["a", "A", "b", "rpki.example.net", "RPKI.Example.NET", "rsync", "rrdp", "stored", "ta", "tmp",
    "a.b", "a..b", "...", "..a", "a..", "~", "!$&'()*+,;=", "h:873", "%2e%2e", "%2F", "-", "_", "1.2.3.4", "localhost",
    "0123456789abcdef0123456789abcdef0123456789abcdef0123456789abcdef"];
const H_AUTH: &[&str] = &["a", "A", "b", "rpki.example.net", "RPKI.Example.NET", ".", "..", "", "...", "rsync", "rrdp", "tmp",
    "stored", "ta", "a-1", "a-2", "A-1", "h:8080", "~", "!$&'()*+,;=", "%2e%2e", "..a",
    "0123456789abcdef0123456789abcdef0123456789abcdef0123456789abcdef"];
const MODS: &[&str] = &["m", "M", "repo", "rsync", "a", "..a", "a..", "...", "m.n", "~", "%2e", "!$&'()*+,;=", "a:b"];
const R_PATHS: &[&str] = &["", "x", "x/", "X", "x/y", "x/y/", "x.mft", "a/b/c/d/e/f/g/h/i/j/k/l/m/n/o/p.cer", "...", "..a/b..", "rsync/a/m",
    "~/$/&", "x;y=z", "a:b", "%2e%2e/x", "%2F", "ta.cer", "d/e.roa"];
const H_PATHS: &[&str] = &["", "/", "/n.xml", "/N.xml", "/n.xml/", "//n.xml", "/a/../n.xml", "/..", "/../../x", "/.", "/a/./b",
    "/rrdp/notification.xml", "/a/b/c/d/e/f/g/h/i.xml", "/~/$&", "/x;y=z", "/%2e%2e"];

fn rsync_uri(rng: &mut Rng, a: &str, m: &str, p: &str) -> String {
    let sch = match rng.below(6) { 0 => "RSYNC", 1 => "Rsync", _ => "rsync" };
    format!("{}://{}/{}/{}", sch, a, m, p)
}
fn https_uri(rng: &mut Rng, a: &str, p: &str) -> String {
    let sch = match rng.below(6) { 0 => "HTTPS", 1 => "Https", _ => "https" };
    format!("{}://{}{}", sch, a, p)
}
fn flip_case(rng: &mut Rng, s: &str) -> String {
    s.chars().map(|c| if rng.chance(1, 2) { c.to_ascii_uppercase() } else { c.to_ascii_lowercase() }).collect()
}
fn rand_comp(rng: &mut Rng) -> String {
    let n = rng.range(1, 6);
    (0..n).map(|_| *rng.pick(&['a', 'B', 'c', '.', '.', '-', '_', '~', '0', '9', '!', '$', '&', '\'', '(', ')', '*', '+', ',', ';', '=', ':', '%'])).collect()
}

fn gen(rng: &mut Rng, tier: &str) -> Vec<(String, Value)> {
    let mut cases = Vec::new();
    let mut push = |class: &str, rs: Vec<String>, hs: Vec<String>| {
        cases.push((class.to_string(), json!({"rsync": rs, "https": hs})));
    };
    // (a) small scope: every pair of rsync URIs over a 2x2x3 universe, with every HTTPS authority form
    let ra = ["a", "A"]; let rm = ["m", "n"]; let rp = ["", "x", "x/"];
    let mut all_r = Vec::new();
    for a in ra { for m in rm { for p in rp { all_r.push(format!("rsync://{}/{}/{}", a, m, p)); } } }
    let hform = ["https://a/n.xml", "https://A/n.xml", "https://./n.xml", "https://../n.xml", "https:///n.xml", "https://a", "https://a/"];
    for i in 0..all_r.len() {
        for j in i + 1..all_r.len() {
            let h = hform[(i * 5 + j) % hform.len()].to_string();
            push("exhaustive.rsync_pairs", vec![all_r[i].clone(), all_r[j].clone()], vec![h]);
        }
    }
    for i in 0..hform.len() {
        for j in i + 1..hform.len() {
            push("exhaustive.https_pairs", vec!["rsync://a/m/x.mft".into()], vec![hform[i].into(), hform[j].into()]);
        }
    }
    // (b) boundary classes (case splits of the proofs: authority normal / "." / ".." / empty, trailing slash,
    //     upper-case in authority, scheme case, hash-like and directory-name-like components)
    for a in H_AUTH {
        let mut r = rng.fork();
        push("boundary.https_authority",
             vec![rsync_uri(&mut r, "a", "m", "x/y.mft"), rsync_uri(&mut r, "rsync", "rsync", "rsync")],
             vec![https_uri(&mut r, a, "/n.xml"), https_uri(&mut r, &a.to_ascii_uppercase(), "/n.xml"), https_uri(&mut r, a, "")]);
    }
    for a in R_AUTH {
        let mut r = rng.fork();
        let fa = flip_case(&mut r, a);
        push("boundary.rsync_authority",
             vec![rsync_uri(&mut r, a, "m", "x"), rsync_uri(&mut r, &fa, "m", "x"), rsync_uri(&mut r, a, "m", "x/"),
                  rsync_uri(&mut r, a, "m", "")],
             vec!["https://../n.xml".into(), https_uri(&mut r, a, "/n.xml")]);
    }
    for m in MODS {
        let mut r = rng.fork();
        push("boundary.module", vec![rsync_uri(&mut r, "h", m, ""), rsync_uri(&mut r, "H", m, "x"), rsync_uri(&mut r, "h", "m", m)],
             vec!["https://h/n.xml".into()]);
    }
    for p in R_PATHS {
        let mut r = rng.fork();
        push("boundary.rsync_path", vec![rsync_uri(&mut r, "h", "m", p), rsync_uri(&mut r, "h", "m", &format!("{}/", p.trim_end_matches('/'))),
                                         rsync_uri(&mut r, "h", "m", &p.to_ascii_uppercase())],
             vec!["https://h/n.xml".into(), "https://./n.xml".into()]);
    }
    for p in H_PATHS {
        let mut r = rng.fork();
        push("boundary.https_path", vec!["rsync://h/m/x.mft".into()],
             vec![https_uri(&mut r, "h", p), https_uri(&mut r, "H", p), https_uri(&mut r, "..", p), https_uri(&mut r, "", p)]);
    }
    // the dump tree: repository directories that are not plain new names
    push("boundary.dump_dirs", vec!["rsync://store/m/a/b/c".into(), "rsync://a/b/c".into()],
         vec!["https://../n.xml".into(), "https://m/n.xml".into()]);
    push("boundary.dump_dirs", vec!["rsync://m/a/b/c".into(), "rsync://a/b/c".into()],
         vec!["https://./n.xml".into(), "https://m/n.xml".into()]);
    push("boundary.dump_dirs", vec!["rsync://m/a/b/c".into(), "rsync://a/b/c".into()],
         vec!["https:///n.xml".into(), "https://M/n.xml".into()]);
    push("boundary.dump_dirs", vec!["rsync://a/m/x.cer".into()], vec!["https://rsync/n.xml".into(), "https://RSYNC/other.xml".into()]);
    push("boundary.dump_dirs", vec!["rsync://a/m/x".into(), "rsync://a/m/x/y".into(), "rsync://a/m/x/".into(), "rsync://A/m/x".into()],
         vec!["https://a/n.xml".into(), "https://A/other.xml".into(), "https://a-1/n.xml".into()]);
    // the same URI up to letter case in different places: the authority is case-insensitive, the path is not
    for hs in [
        vec!["https://RRDP.example.net/A/notification.xml", "https://rrdp.example.net/a/notification.xml"],
        vec!["https://rrdp.example.net/A/notification.xml", "https://RRDP.example.net/A/notification.xml", "https://rrdp.example.net/a/notification.xml"],
        vec!["https://Host.example/Path/N.xml", "https://host.example/path/n.xml", "https://HOST.EXAMPLE/PATH/N.XML", "https://host.example/Path/N.xml"],
        vec!["HTTPS://a.example/x/Y.xml", "https://A.example/x/y.xml", "https://a.example/X/y.xml"],
    ] {
        push("boundary.case_in_path", vec!["rsync://Host.example/Mod/A/b.mft".into(), "rsync://host.example/mod/a/b.mft".into(), "rsync://HOST.example/Mod/a/B.mft".into()],
             hs.into_iter().map(String::from).collect());
    }
    // authorities that look like the names the registry generates ("<authority>-<i>"), in every order, also on
    // top of the reserved names
    for hs in [
        vec!["https://a/1.xml", "https://a/2.xml", "https://a-1/3.xml"],
        vec!["https://a-1/3.xml", "https://a/1.xml", "https://a/2.xml"],
        vec!["https://a/1.xml", "https://a-1/3.xml", "https://a/2.xml", "https://a/4.xml", "https://a-2/5.xml", "https://A-1/6.xml"],
        vec!["https://a/1.xml", "https://a/2.xml", "https://a/3.xml", "https://a-2/4.xml", "https://a-1/5.xml", "https://a-1/6.xml", "https://a-1-1/7.xml"],
        vec!["https://rsync/1.xml", "https://rsync-1/2.xml", "https://rsync/3.xml", "https://RSYNC-1/4.xml"],
        vec!["https://rsync-1/2.xml", "https://rsync/1.xml", "https://rsync/3.xml"],
        vec!["https://../1.xml", "https://..-1/2.xml", "https://../3.xml", "https://-1/4.xml", "https:///5.xml", "https:///6.xml"],
        vec!["https://./1.xml", "https://./2.xml", "https://.-1/3.xml", "https://.-2/4.xml"],
    ] {
        push("boundary.dump_numbered", vec!["rsync://a/m/x.cer".into(), "rsync://a-1/m/x.cer".into()], hs.into_iter().map(String::from).collect());
    }
    // (c) structured random: small pools so that equivalent and near-equivalent URIs meet
    let n = if tier == "thorough" { 1500 } else { 100 };
    for _ in 0..n {
        let mut r = rng.fork();
        let nr = r.range(1, 3); let nh = r.range(0, 2);
        let mut rs = Vec::new(); let mut hs = Vec::new();
        for _ in 0..nr {
            let a = if r.chance(1, 4) { rand_comp(&mut r) } else { r.pick(R_AUTH).to_string() };
            let a = if r.chance(1, 3) { flip_case(&mut r, &a) } else { a };
            let m = if r.chance(1, 4) { rand_comp(&mut r) } else { r.pick(MODS).to_string() };
            let p = if r.chance(1, 4) { format!("{}/{}", rand_comp(&mut r), rand_comp(&mut r)) } else { r.pick(R_PATHS).to_string() };
            rs.push(rsync_uri(&mut r, &a, &m, &p));
        }
        for _ in 0..nh {
            let a = if r.chance(1, 4) { rand_comp(&mut r) } else { r.pick(H_AUTH).to_string() };
            let a = if r.chance(1, 3) { flip_case(&mut r, &a) } else { a };
            let p = if r.chance(1, 4) { format!("/{}/{}", rand_comp(&mut r), rand_comp(&mut r)) } else { r.pick(H_PATHS).to_string() };
            hs.push(https_uri(&mut r, &a, &p));
        }
        push("random.sets", rs, hs);
    }
    // (d) malformed URIs next to valid ones
    let bad_r = ["rsync://h/../x", "rsync://../m/x", "rsync://./m/x", "rsync://h/m/../x", "rsync://h/m/./x", "rsync://h//x", "rsync:///m/x",
                 "rsync://h/m//x", "rsync://h/m", "rsync://h", "rsync://h/m/x//", "rsync://h/m/x y", "rsync://h/m/x\\y", "rsync://h/m/\u{e9}",
                 "rsync:/h/m/x", "https://h/m/x", "rsync://h/m/x?y", "/etc/passwd", "rsync://h/m/..", "rsync://h/m/x/..", "rsync://h/m/x/."];
    let bad_h = ["http://h/x", "https:/h/x", "https://h/x y", "https://h/x\\y", "https://h/x?y", "https://h/x#y", "rsync://h/m/x", "https://h\u{0}/x",
                 "https://h/\u{ff}", "file:///etc/passwd", "https://[::1]/x"];
    for (i, b) in bad_r.iter().enumerate() {
        push("malformed.rsync", vec![b.to_string(), "rsync://h/m/x".into()], vec![bad_h[i % bad_h.len()].to_string(), "https://h/n.xml".into()]);
    }
    cases
}

//------------ running the implementation ------------------------------------------------------

/// The path as a byte string.  The (long, random) name of the case's temporary cache directory at the
/// front is replaced by ALIAS, which is also what the model is given as cache directory: the builders only
/// ever push onto it.  A path that does not start with the cache directory is left as it is.
const ALIAS: &str = "/c";
thread_local! { static CACHE: std::cell::RefCell<String> = std::cell::RefCell::new(String::new()); }
fn rel_str(p: &Path) -> Option<Vec<u8>> {
    p.to_str().map(|s| CACHE.with(|c| {
        let c = c.borrow();
        match s.strip_prefix(c.as_str()) {
            Some(rest) if rest.is_empty() || rest.starts_with('/') => format!("{}{}", ALIAS, rest).into_bytes(),
            _ => s.as_bytes().to_vec(),
        }
    }))
}

fn walk_files(dir: &Path, out: &mut Vec<PathBuf>) {
    if let Ok(rd) = std::fs::read_dir(dir) {
        for e in rd.flatten() {
            let p = e.path();
            match e.file_type() { Ok(t) if t.is_dir() => walk_files(&p, out), Ok(_) => out.push(p), Err(_) => {} }
        }
    }
}

/// The only file below `dir`, relative to `dir`.
fn single_file(dir: &Path) -> Option<Vec<u8>> {
    let mut v = Vec::new();
    walk_files(dir, &mut v);
    if v.len() != 1 { return None }
    v[0].strip_prefix(dir).ok().and_then(|p| p.to_str()).map(|s| s.as_bytes().to_vec())
}

fn coq_ob(o: &Option<Vec<u8>>) -> String { coq_opt(o.as_ref().map(|b| coq_bytes(b))) }
fn coq_obs(v: &[Option<Vec<u8>>]) -> String { coq_list(v.iter(), coq_ob) }
fn js(v: &[Option<Vec<u8>>]) -> Value { json!(v.iter().map(|o| o.as_ref().map(|b| from_bytes(b))).collect::<Vec<_>>()) }

fn run(input: &Value) -> CaseOut {
    let rs: Vec<Vec<u8>> = input["rsync"].as_array().unwrap().iter().map(|u| to_bytes(u.as_str().unwrap())).collect();
    let hs: Vec<Vec<u8>> = input["https"].as_array().unwrap().iter().map(|u| to_bytes(u.as_str().unwrap())).collect();
    let root = tempfile::tempdir().unwrap();
    let cache = root.path().join("cache");
    CACHE.with(|c| *c.borrow_mut() = cache.to_str().unwrap().to_string());
    let config = Config::default_with_paths(Default::default(), cache.clone());
    let store = Store::new(&config).expect("store");
    let pr: Vec<Option<uri::Rsync>> = rs.iter().map(|b| uri::Rsync::from_slice(b).ok()).collect();
    let ph: Vec<Option<uri::Https>> = hs.iter().map(|b| uri::Https::from_slice(b).ok()).collect();

    // the path builders, in the order of C30.Spec.entries
    let mut paths: Vec<Option<Vec<u8>>> = Vec::new();
    let mut side_ok = true;
    for r in &pr {
        match r {
            None => for _ in 0..4 + hs.len() { paths.push(None) },
            Some(u) => {
                let ta = store.verif_ta_path(&TalUri::Rsync(u.clone()));
                // the public unique_path is what ta_path joins to the store directory
                side_ok &= ta == cache.join("stored").join(u.unique_path("ta/rsync", ".cer"));
                paths.push(rel_str(&ta));
                let (mp, up) = config.verif_rsync_paths(u);
                paths.push(rel_str(&mp));
                paths.push(rel_str(&up));
                paths.push(rel_str(&store.verif_point_path(None, u)));
                for h in &ph {
                    paths.push(h.as_ref().and_then(|n| rel_str(&store.verif_point_path(Some(n), u))));
                }
            }
        }
    }
    for h in &ph {
        match h {
            None => for _ in 0..3 { paths.push(None) },
            Some(n) => {
                let ta = store.verif_ta_path(&TalUri::Https(n.clone()));
                side_ok &= ta == cache.join("stored").join(n.unique_path("ta/https", ".cer"));
                paths.push(rel_str(&ta));
                let rp = store.verif_rrdp_repository_path(n);
                side_ok &= rp == cache.join("stored").join(n.unique_path("rrdp", ""));
                paths.push(rel_str(&rp));
                paths.push(config.verif_rrdp_repository_path(n).and_then(|p| rel_str(&p)));
            }
        }
    }
    if !side_ok { paths.push(Some(b"unique_path disagrees with the store".to_vec())); }

    // end to end: Run::update_ta in a fresh cache directory per URI
    let mut tafiles: Vec<Option<Vec<u8>>> = Vec::new();
    let tals: Vec<Option<TalUri>> = pr.iter().map(|r| r.clone().map(TalUri::Rsync))
        .chain(ph.iter().map(|h| h.clone().map(TalUri::Https))).collect();
    for (k, t) in tals.iter().enumerate() {
        tafiles.push(t.as_ref().and_then(|t| {
            let c = root.path().join(format!("e{}", k));
            let cfg = Config::default_with_paths(Default::default(), c.clone());
            let st = Store::new(&cfg).ok()?;
            st.start().update_ta(t, b"ta").ok()?;
            single_file(&c)
        }));
    }

    // DumpRegistry::get_repo_path: every valid HTTPS URI, None, the URIs again in reverse
    let base = cache.join("dump").join("store");
    let mut reg = DumpRegistry::new(base);
    let valid: Vec<&uri::Https> = ph.iter().flatten().collect();
    let mut dumpnames: Vec<Option<Vec<u8>>> = Vec::new();
    for n in &valid { dumpnames.push(rel_str(&reg.get_repo_path(Some(n)))); }
    dumpnames.push(rel_str(&reg.get_repo_path(None)));
    for n in valid.iter().rev() { dumpnames.push(rel_str(&reg.get_repo_path(Some(n)))); }

    // Store::dump_object end to end in a fresh directory per URI
    let mut dumpfiles: Vec<Option<Vec<u8>>> = Vec::new();
    for (k, r) in pr.iter().enumerate() {
        dumpfiles.push(r.as_ref().and_then(|u| {
            let d = root.path().join(format!("d{}", k));
            std::fs::create_dir_all(&d).ok()?;
            store.verif_dump_object(&d, u, b"object").ok()?;
            single_file(&d)
        }));
    }

    // one dump tree: the rsync repository and the first two RRDP repositories, every valid rsync URI written
    // into each (as Store::dump_point does: DumpRegistry::get_repo_path, then dump_object); afterwards
    // look where the content of each write is
    let dump_root = cache.join("dump");
    let mut repo_dirs: Vec<PathBuf> = vec![reg.get_repo_path(None)];
    for n in valid.iter().take(2) { repo_dirs.push(reg.get_repo_path(Some(n))); }
    let mut n_writes = 0usize;
    for dir in &repo_dirs {
        for u in pr.iter().flatten() {
            let _ = store.verif_dump_object(dir, u, format!("{}", n_writes).as_bytes());
            n_writes += 1;
        }
    }
    let mut found: Vec<Option<Vec<u8>>> = vec![None; n_writes];
    let mut files = Vec::new();
    walk_files(&dump_root, &mut files);
    for f in files {
        if let Ok(txt) = std::fs::read_to_string(&f) {
            if let Ok(k) = txt.parse::<usize>() {
                if k < n_writes {
                    found[k] = f.strip_prefix(&dump_root).ok().and_then(|p| p.to_str()).map(|s| s.as_bytes().to_vec());
                }
            }
        }
    }
    let dumptree = found;

    let cache_b = ALIAS.as_bytes().to_vec();
    let obs = json!({"cache": from_bytes(&cache_b), "paths": js(&paths), "ta_files": js(&tafiles),
                     "dump_names": js(&dumpnames), "dump_files": js(&dumpfiles), "dump_tree": js(&dumptree)});
    let coq = format!("{{| c_cache := {}; c_rs := {}; c_hs := {}; c_paths := {}; c_tafiles := {}; c_dumpnames := {}; c_dumpfiles := {}; c_dumptree := {} |}}",
        coq_bytes(&cache_b), coq_list(rs.iter(), |u| coq_bytes(u)), coq_list(hs.iter(), |u| coq_bytes(u)),
        coq_obs(&paths), coq_obs(&tafiles), coq_obs(&dumpnames), coq_obs(&dumpfiles), coq_obs(&dumptree));
    let nontrivial = pr.iter().flatten().count() + ph.iter().flatten().count() >= 2;
    CaseOut { obs, coq, nontrivial }
}

fn main() { drive(gen, run) }
