//! C35: printed configuration reads back identically (coq/C35, table from lib/c35_extract.py).
//!
//! One case = a command line (plus, optionally, a base config file).  The real code builds the
//! `Config` exactly as `routinator config` does (`Config::from_arg_matches`, which reads the `-c`
//! file, then `apply_server_arg_matches`), prints it (`Display` = `to_toml`), the text is written to
//! a file and read back through the same public entry point (`-c printed.conf`, no other options,
//! which is `ConfigFile::read` + `Config::from_config_file`), and the two configurations are
//! compared field by field.  Everything the Coq side needs (fields by config key, the TOML bindings
//! of both files, FromStr/Display of the std::net types for the strings involved) is exported.
use std::collections::BTreeSet;
use std::ffi::OsString;
use std::net::{IpAddr, SocketAddr};
use std::os::unix::ffi::{OsStrExt, OsStringExt};
use std::panic::{catch_unwind, AssertUnwindSafe};
use std::path::Path;
use std::str::FromStr;

use clap::Command;
use routinator::config::{Config, LogTarget};
use rv_harness::util::*;
use serde_json::{json, Value};
use toml_edit as toml;

const WORK: &str = "/tmp/rv_c35_work";
const CUR_DIR: &str = "/test";

//------------ model values ---------------------------------------------------

type Bytes = Vec<u8>;

#[derive(Clone, Debug, PartialEq, Eq)]
enum Val {
    U,
    B(bool),
    N(u64),
    ON(Option<u64>),
    S(Bytes),
    OS(Option<Bytes>),
    L(Vec<Bytes>),
    OL(Option<Vec<Bytes>>),
    M(Vec<(Bytes, Bytes)>),
    E(String),
    LogDefault(String),
    LogSyslog(String),
    LogStderr,
    LogFile(Bytes),
}

#[derive(Clone, Debug, PartialEq)]
enum TVal {
    Bool(bool),
    Int(i64),
    Str(Bytes),
    Arr(Vec<Bytes>),
    Pairs(Vec<(Bytes, Bytes)>),
    Other,
}

fn cs(b: &[u8]) -> String {
    if b.iter().all(|&c| (0x20..0x7f).contains(&c)) {
        let mut r = String::from("\"");
        for &c in b {
            if c == b'"' { r.push_str("\"\""); } else { r.push(c as char); }
        }
        r.push_str("\"%string");
        r
    } else {
        format!("(bs {})", coq_nlist(b.iter()))
    }
}
fn cs_list(l: &[Bytes]) -> String { coq_list(l.iter(), |s| cs(s)) }
fn cs_pairs(l: &[(Bytes, Bytes)]) -> String { coq_list(l.iter(), |(a, b)| format!("({}, {})", cs(a), cs(b))) }
fn js(b: &[u8]) -> Value {
    match std::str::from_utf8(b) {
        Ok(s) => json!(s),
        Err(_) => json!({"hex": hex(b), "lossy": String::from_utf8_lossy(b)}),
    }
}

impl Val {
    fn coq(&self) -> String {
        match self {
            Val::U => "VU".into(),
            Val::B(b) => format!("(VB {})", coq_bool(*b)),
            Val::N(n) => format!("(VN {})", n),
            Val::ON(o) => format!("(VON {})", coq_opt(o.map(|n| n.to_string()))),
            Val::S(s) => format!("(VS {})", cs(s)),
            Val::OS(o) => format!("(VOS {})", coq_opt(o.as_ref().map(|s| cs(s)))),
            Val::L(l) => format!("(VL {})", cs_list(l)),
            Val::OL(o) => format!("(VOL {})", coq_opt(o.as_ref().map(|l| cs_list(l)))),
            Val::M(m) => format!("(VM {})", cs_pairs(m)),
            Val::E(v) => format!("(VE {})", cs(v.as_bytes())),
            Val::LogDefault(f) => format!("(VLog (LDefault {}))", cs(f.as_bytes())),
            Val::LogSyslog(f) => format!("(VLog (LSyslog {}))", cs(f.as_bytes())),
            Val::LogStderr => "(VLog LStderr)".into(),
            Val::LogFile(p) => format!("(VLog (LFile {}))", cs(p)),
        }
    }
    fn json(&self) -> Value {
        match self {
            Val::U => Value::Null,
            Val::B(b) => json!(b),
            Val::N(n) => json!(n),
            Val::ON(o) => json!(o),
            Val::S(s) => js(s),
            Val::OS(o) => o.as_ref().map(|s| js(s)).unwrap_or(Value::Null),
            Val::L(l) => Value::Array(l.iter().map(|s| js(s)).collect()),
            Val::OL(o) => o.as_ref().map(|l| Value::Array(l.iter().map(|s| js(s)).collect())).unwrap_or(Value::Null),
            Val::M(m) => Value::Array(m.iter().map(|(a, b)| json!([js(a), js(b)])).collect()),
            Val::E(v) => json!(v),
            Val::LogDefault(f) => json!({"default": f}),
            Val::LogSyslog(f) => json!({"syslog": f}),
            Val::LogStderr => json!("stderr"),
            Val::LogFile(p) => json!({"file": js(p)}),
        }
    }
    fn strings(&self, out: &mut BTreeSet<Bytes>) {
        match self {
            Val::S(s) | Val::OS(Some(s)) | Val::LogFile(s) => { out.insert(s.clone()); }
            Val::L(l) | Val::OL(Some(l)) => { for s in l { out.insert(s.clone()); } }
            _ => {}
        }
    }
}

impl TVal {
    fn coq(&self) -> String {
        match self {
            TVal::Bool(b) => format!("(TBool {})", coq_bool(*b)),
            TVal::Int(z) => if *z < 0 { format!("(TInt ({})%Z)", z) } else { format!("(TInt {}%Z)", z) },
            TVal::Str(s) => format!("(TStr {})", cs(s)),
            TVal::Arr(l) => format!("(TArr {})", cs_list(l)),
            TVal::Pairs(l) => format!("(TPairs {})", cs_pairs(l)),
            TVal::Other => "TOther".into(),
        }
    }
    fn strings(&self, out: &mut BTreeSet<Bytes>) {
        match self {
            TVal::Str(s) => { out.insert(s.clone()); }
            TVal::Arr(l) => { for s in l { out.insert(s.clone()); } }
            _ => {}
        }
    }
}

/// Order of `vals` below = `hkeys` of coq/C35/Spec.v; file keys are written as an index into
/// `dkeys` (= hkeys + the two extra keys of the log target) when they are in it.
const DKEYS: &[&str] = &["log", "repository-dir", "no-rir-tals", "tals", "extra-tals-dir", "exceptions", "strict", "stale",
    "unsafe-vrps", "unknown-objects", "limit-v4-len", "limit-v6-len", "allow-dubious-hosts", "disable-rsync",
    "rsync-command", "rsync-args", "rsync-timeout", "disable-rrdp", "rrdp-fallback", "rrdp-fallback-time",
    "rrdp-max-delta-count", "rrdp-max-delta-list-len", "rrdp-timeout", "rrdp-read-timeout",
    "rrdp-connect-timeout", "rrdp-tcp-keepalive", "rrdp-local-addr", "rrdp-root-certs", "rrdp-proxies",
    "max-object-size", "max-ca-depth", "enable-bgpsec", "enable-aspa", "dirty", "validation-threads", "refresh",
    "min-refresh", "retry", "expire", "history-size", "rtr-listen", "rtr-tls-listen", "http-listen",
    "http-tls-listen", "systemd-listen", "rtr-tcp-keepalive", "rtr-client-metrics", "rtr-tls-key",
    "rtr-tls-cert", "http-tls-key", "http-tls-cert", "log-level", "log-repository-issues", "pid-file",
    "working-dir", "chroot", "user", "group", "tal-labels", "tal-dir", "syslog-facility", "log-file"];

fn coq_key(k: &str) -> String {
    match DKEYS.iter().position(|x| *x == k) {
        Some(i) => format!("K {}", i),
        None => format!("S {}", cs(k.as_bytes())),
    }
}
fn coq_doc(d: &[(String, TVal)]) -> String {
    coq_list(d.iter(), |(k, v)| format!("({}, {})", coq_key(k), v.coq()))
}
fn coq_conf(c: &[(&'static str, Val)]) -> String {
    assert!(c.len() + 2 == DKEYS.len() && c.iter().zip(DKEYS.iter()).all(|(a, b)| a.0 == *b), "vals() order != DKEYS");
    coq_list(c.iter(), |(_, v)| v.coq())
}

/// The TOML bindings of a config file as the reader classifies them.
fn doc_of(text: &str) -> Option<Vec<(String, TVal)>> {
    let doc = toml::DocumentMut::from_str(text).ok()?;
    let mut res = Vec::new();
    for (k, item) in doc.iter() {
        let v = match item {
            toml::Item::Value(v) => match v {
                toml::Value::Boolean(b) => TVal::Bool(*b.value()),
                toml::Value::Integer(i) => TVal::Int(*i.value()),
                toml::Value::String(s) => TVal::Str(s.value().as_bytes().to_vec()),
                toml::Value::Array(a) => {
                    let strs: Vec<Option<Bytes>> = a.iter().map(|x| x.as_str().map(|s| s.as_bytes().to_vec())).collect();
                    if strs.iter().all(|x| x.is_some()) {
                        TVal::Arr(strs.into_iter().map(|x| x.unwrap()).collect())
                    } else {
                        let pairs: Vec<Option<(Bytes, Bytes)>> = a.iter().map(|x| {
                            let p = x.as_array()?;
                            if p.len() != 2 { return None; }
                            Some((p.get(0)?.as_str()?.as_bytes().to_vec(), p.get(1)?.as_str()?.as_bytes().to_vec()))
                        }).collect();
                        if !pairs.is_empty() && pairs.iter().all(|x| x.is_some()) {
                            let mut ps: Vec<(Bytes, Bytes)> = pairs.into_iter().map(|x| x.unwrap()).collect();
                            ps.sort();     // the reader builds a HashMap: order is not observable
                            TVal::Pairs(ps)
                        } else {
                            TVal::Other
                        }
                    }
                }
                _ => TVal::Other,
            },
            _ => TVal::Other,
        };
        res.push((k.to_string(), v));
    }
    Some(res)
}

fn pb(p: &Path) -> Bytes { p.as_os_str().as_bytes().to_vec() }
fn secs(d: std::time::Duration) -> u64 { d.as_secs() }

/// The fields of a configuration by config key (the hand-written part of the tie).
fn vals(c: &Config) -> Vec<(&'static str, Val)> {
    let sl = |l: &Vec<String>| Val::L(l.iter().map(|s| s.as_bytes().to_vec()).collect());
    let pl = |l: &Vec<std::path::PathBuf>| Val::L(l.iter().map(|p| pb(p)).collect());
    let al = |l: &Vec<SocketAddr>| Val::L(l.iter().map(|a| a.to_string().into_bytes()).collect());
    let op = |o: &Option<std::path::PathBuf>| Val::OS(o.as_ref().map(|p| pb(p)));
    let os = |o: &Option<String>| Val::OS(o.as_ref().map(|s| s.as_bytes().to_vec()));
    let od = |o: &Option<std::time::Duration>| Val::ON(o.map(secs));
    let mut labels: Vec<(Bytes, Bytes)> = c.tal_labels.iter().map(|(a, b)| (a.as_bytes().to_vec(), b.as_bytes().to_vec())).collect();
    labels.sort();
    vec![
        ("log", match &c.log_target {
            LogTarget::Default(f) => Val::LogDefault(format!("{:?}", f)),
            LogTarget::Syslog(f) => Val::LogSyslog(format!("{:?}", f)),
            LogTarget::Stderr => Val::LogStderr,
            LogTarget::File(p) => Val::LogFile(pb(p)),
        }),
        ("repository-dir", Val::S(pb(&c.cache_dir))),
        ("no-rir-tals", Val::B(c.no_rir_tals)),
        ("tals", sl(&c.bundled_tals)),
        ("extra-tals-dir", op(&c.extra_tals_dir)),
        ("exceptions", pl(&c.exceptions)),
        ("strict", Val::B(c.strict)),
        ("stale", Val::E(format!("{:?}", c.stale))),
        ("unsafe-vrps", Val::E(format!("{:?}", c.unsafe_vrps))),
        ("unknown-objects", Val::E(format!("{:?}", c.unknown_objects))),
        ("limit-v4-len", Val::ON(c.limit_v4_len.map(u64::from))),
        ("limit-v6-len", Val::ON(c.limit_v6_len.map(u64::from))),
        ("allow-dubious-hosts", Val::B(c.allow_dubious_hosts)),
        ("disable-rsync", Val::B(c.disable_rsync)),
        ("rsync-command", Val::S(c.rsync_command.as_bytes().to_vec())),
        ("rsync-args", Val::OL(c.rsync_args.as_ref().map(|l| l.iter().map(|s| s.as_bytes().to_vec()).collect()))),
        ("rsync-timeout", od(&c.rsync_timeout)),
        ("disable-rrdp", Val::B(c.disable_rrdp)),
        ("rrdp-fallback", Val::E(format!("{:?}", c.rrdp_fallback))),
        ("rrdp-fallback-time", Val::N(secs(c.rrdp_fallback_time))),
        ("rrdp-max-delta-count", Val::N(c.rrdp_max_delta_count as u64)),
        ("rrdp-max-delta-list-len", Val::N(c.rrdp_max_delta_list_len as u64)),
        ("rrdp-timeout", od(&c.rrdp_timeout)),
        ("rrdp-read-timeout", od(&c.rrdp_read_timeout)),
        ("rrdp-connect-timeout", od(&c.rrdp_connect_timeout)),
        ("rrdp-tcp-keepalive", od(&c.rrdp_tcp_keepalive)),
        ("rrdp-local-addr", Val::OS(c.rrdp_local_addr.map(|a| a.to_string().into_bytes()))),
        ("rrdp-root-certs", pl(&c.rrdp_root_certs)),
        ("rrdp-proxies", sl(&c.rrdp_proxies)),
        ("max-object-size", Val::ON(c.max_object_size)),
        ("max-ca-depth", Val::N(c.max_ca_depth as u64)),
        ("enable-bgpsec", Val::B(c.enable_bgpsec)),
        ("enable-aspa", Val::B(c.enable_aspa)),
        ("dirty", Val::B(c.dirty_repository)),
        ("validation-threads", Val::N(c.validation_threads as u64)),
        ("refresh", Val::N(secs(c.refresh))),
        ("min-refresh", od(&c.min_refresh)),
        ("retry", Val::N(secs(c.retry))),
        ("expire", Val::N(secs(c.expire))),
        ("history-size", Val::N(c.history_size as u64)),
        ("rtr-listen", al(&c.rtr_listen)),
        ("rtr-tls-listen", al(&c.rtr_tls_listen)),
        ("http-listen", al(&c.http_listen)),
        ("http-tls-listen", al(&c.http_tls_listen)),
        ("systemd-listen", Val::B(c.systemd_listen)),
        ("rtr-tcp-keepalive", od(&c.rtr_tcp_keepalive)),
        ("rtr-client-metrics", Val::B(c.rtr_client_metrics)),
        ("rtr-tls-key", op(&c.rtr_tls_key)),
        ("rtr-tls-cert", op(&c.rtr_tls_cert)),
        ("http-tls-key", op(&c.http_tls_key)),
        ("http-tls-cert", op(&c.http_tls_cert)),
        ("log-level", Val::E(format!("{:?}", c.log_level))),
        ("log-repository-issues", Val::B(c.log_repository_issues)),
        ("pid-file", op(&c.pid_file)),
        ("working-dir", op(&c.working_dir)),
        ("chroot", op(&c.chroot)),
        ("user", os(&c.user)),
        ("group", os(&c.group)),
        ("tal-labels", Val::M(labels)),
        ("tal-dir", Val::U),
    ]
}

//------------ running the implementation -------------------------------------

fn arg_of(v: &Value) -> OsString {
    match v {
        Value::String(s) => OsString::from(s),
        Value::Object(o) => {
            let h = o["hex"].as_str().unwrap();
            let bytes: Vec<u8> = (0..h.len() / 2).map(|i| u8::from_str_radix(&h[2 * i..2 * i + 2], 16).unwrap()).collect();
            OsString::from_vec(bytes)
        }
        _ => panic!("bad argument {}", v),
    }
}

/// `routinator [-c file] <args> config <server args>` up to the point where the config is printed.
fn build(args: Vec<OsString>) -> Result<Config, String> {
    // `--tal list` prints the bundled TALs and exits the process: not a configuration
    for w in args.windows(2) {
        if w[0] == "--tal" && w[1] == "list" { return Err("tal-list".into()); }
    }
    if args.iter().any(|a| a == "--tal=list") { return Err("tal-list".into()); }
    let cmd = Config::server_args(Config::config_args(Command::new("routinator")));
    let matches = cmd.try_get_matches_from(args).map_err(|e| format!("clap:{:?}", e.kind()))?;
    let mut config = Config::from_arg_matches(&matches, Path::new(CUR_DIR)).map_err(|_| "config".to_string())?;
    config.apply_server_arg_matches(&matches, Path::new(CUR_DIR)).map_err(|_| "server-args".to_string())?;
    Ok(config)
}

fn guarded(args: Vec<OsString>) -> Result<Config, String> {
    match catch_unwind(AssertUnwindSafe(|| build(args))) {
        Ok(r) => r,
        Err(_) => Err("panic".into()),
    }
}

fn run(input: &Value) -> CaseOut {
    std::env::set_var("HOME", "/home/test");      // as the tests of config.rs do: no ~/.routinator.conf
    std::fs::create_dir_all(WORK).unwrap();
    let in_path = format!("{}/routinator.conf", WORK);
    let out_path = format!("{}/printed.conf", WORK);
    let file = input["file"].as_str();
    let in_args: Vec<OsString> = input["args"].as_array().map(|a| a.iter().map(arg_of).collect()).unwrap_or_default();
    let mut args: Vec<OsString> = vec!["routinator".into()];
    if let Some(text) = file {
        std::fs::write(&in_path, text).unwrap();
        args.push("-c".into());
        args.push(in_path.clone().into());
    }
    args.extend(in_args.iter().cloned());
    let src_doc = match file { Some(text) if in_args.is_empty() => doc_of(text), _ => None };
    let nproc = std::thread::available_parallelism().map(|x| x.get()).unwrap_or(1);

    let first = guarded(args);
    let mut strings: BTreeSet<Bytes> = BTreeSet::new();
    if let Some(d) = &src_doc { for (_, v) in d { v.strings(&mut strings); } }

    let mut obs = json!({"accepted": first.is_ok()});
    let (conf_term, doc_term, back_term, rest, nontrivial);
    match &first {
        Err(why) => {
            obs["rejected_by"] = json!(why);
            conf_term = "None".to_string();
            doc_term = "[]".to_string();
            back_term = "BRejected".to_string();
            rest = true;
            nontrivial = false;
        }
        Ok(c1) => {
            let v1 = vals(c1);
            let text = c1.to_string();
            std::fs::write(&out_path, &text).unwrap();
            let printed = doc_of(&text);
            let second = guarded(vec!["routinator".into(), "-c".into(), out_path.clone().into()]);
            for (_, v) in &v1 { v.strings(&mut strings); }
            if let Some(d) = &printed { for (_, v) in d { v.strings(&mut strings); } }
            obs["config"] = Value::Object(v1.iter().map(|(k, v)| (k.to_string(), v.json())).collect());
            obs["printed"] = json!(text);
            conf_term = format!("(Some {})", coq_conf(&v1));
            doc_term = match &printed { Some(d) => coq_doc(d), None => "[(S \"<unparsable>\"%string, TOther)]".into() };
            match &second {
                Err(why) => {
                    obs["reread"] = json!({"rejected_by": why});
                    back_term = "BRejected".to_string();
                    rest = true;
                }
                Ok(c2) => {
                    let v2 = vals(c2);
                    let differing: Vec<&str> = v1.iter().zip(v2.iter()).filter(|(a, b)| a.1 != b.1).map(|(a, _)| a.0).collect();
                    let mut c2n = c2.clone();
                    c2n.config_file = c1.config_file.clone();   // by construction the path the file is read from
                    c2n.fresh = c1.fresh;                       // transient command line action (DESIGN.md section 8)
                    let eq_full = c2n == *c1;
                    let rest_eq = c1.rrdp_user_agent == c2.rrdp_user_agent && !c2.fresh;
                    // a field that `vals` does not list must not hide a difference
                    rest = if differing.is_empty() { eq_full && rest_eq } else { rest_eq };
                    obs["reread"] = json!({"equal": eq_full, "differing_keys": differing,
                        "values": differing.iter().map(|k| {
                            let b = v2.iter().find(|x| x.0 == *k).unwrap();
                            json!([k, b.1.json()])
                        }).collect::<Vec<_>>()});
                    if differing.is_empty() {
                        back_term = "BSame".to_string();
                    } else {
                        for (_, v) in &v2 { v.strings(&mut strings); }
                        back_term = format!("(BConf {})", coq_conf(&v2));
                    }
                }
            }
            let dflt = vals(&Config::default());
            nontrivial = v1.iter().zip(dflt.iter()).any(|(a, b)| a.1 != b.1);
        }
    }
    // FromStr + Display of the std::net types on every string involved
    let mut ips = Vec::new();
    let mut socks = Vec::new();
    for s in &strings {
        if let Ok(t) = std::str::from_utf8(s) {
            if let Ok(a) = IpAddr::from_str(t) { ips.push((s.clone(), a.to_string().into_bytes())); }
            if let Ok(a) = SocketAddr::from_str(t) { socks.push((s.clone(), a.to_string().into_bytes())); }
        }
    }
    let coq = format!(
        "{{| c_dir := {}; c_ip := {}; c_sock := {}; c_nproc := {}; c_src := {}; c_conf := {}; c_doc := {}; c_back := {}; c_rest := {} |}}",
        cs(WORK.as_bytes()), cs_pairs(&ips), cs_pairs(&socks), nproc,
        coq_opt(src_doc.as_ref().map(|d| coq_doc(d))), conf_term, doc_term, back_term, coq_bool(rest));
    CaseOut { obs, coq, nontrivial }
}

//------------ generators -------------------------------------------------------

const FLAGS: &[&str] = &["--no-rir-tals", "--strict", "--allow-dubious-hosts", "--fresh", "--disable-rsync",
    "--disable-rrdp", "--enable-bgpsec", "--enable-aspa", "--dirty-repository", "--syslog",
    "--log-repository-issues", "--systemd-listen", "--rtr-client-metrics", "-v", "-vv", "-q", "-qq"];
const U64_OPTS: &[&str] = &["--rsync-timeout", "--rrdp-fallback-time", "--rrdp-timeout", "--rrdp-read-timeout",
    "--rrdp-connect-timeout", "--rrdp-tcp-keepalive", "--max-object-size", "--refresh", "--min-refresh", "--retry",
    "--expire", "--rtr-tcp-keepalive"];
const USIZE_OPTS: &[&str] = &["--rrdp-max-delta-count", "--rrdp-max-delta-list-len", "--max-ca-depth",
    "--validation-threads", "--history"];
const U8_OPTS: &[&str] = &["--limit-v4-len", "--limit-v6-len"];
const POLICY_OPTS: &[&str] = &["--stale", "--unsafe-vrps", "--unknown-objects"];
const STRING_OPTS: &[&str] = &["--rsync-command", "--user", "--group"];
const PATH_OPTS: &[&str] = &["--repository-dir", "--extra-tals-dir", "--rtr-tls-key", "--rtr-tls-cert",
    "--http-tls-key", "--http-tls-cert", "--pid-file", "--working-dir", "--chroot", "--logfile"];
const PATHLIST_OPTS: &[&str] = &["--exceptions", "--rrdp-root-cert"];
const STRLIST_OPTS: &[&str] = &["--tal", "--rrdp-proxy"];
const SOCK_OPTS: &[&str] = &["--rtr", "--rtr-tls", "--http", "--http-tls"];

const NUM_EDGES: &[&str] = &["0", "1", "2", "31", "32", "33", "127", "128", "129", "255", "256", "65534", "65535",
    "65536", "2147483648", "4294967295", "4294967296", "9223372036854775806", "9223372036854775807",
    "9223372036854775808", "18446744073709551614", "18446744073709551615", "18446744073709551616", "-1", "x"];
const STRINGS: &[&str] = &["rsync", "", " ", "a b", "quo\"te", "back\\slash", "new\nline", "tab\there", "\u{fc}n\u{ef}",
    "\u{65e5}\u{672c}", "'''", "\"\"\"", "#hash", "[x]", "a=b", "\u{7f}", "\u{1}", "\r", "\u{feff}bom", "\u{1f600}",
    "-dash", "list", "nobody", "0"];
const PATHS: &[&str] = &["/abs", "/abs/sub dir/f.txt", "rel", "rel/f.txt", "./dot", "../up", "/", "/trailing/",
    "//double//slash", "~tilde", "/\u{fc}/\u{f1}", "/with\"quote", "/with\nnewline", "/back\\slash", "-", "/a/./b/../c"];
const SOCKS: &[&str] = &["127.0.0.1:323", "[::1]:3323", "0.0.0.0:0", "192.0.2.4:65535", "[2001:db8::4]:323",
    "[::ffff:1.2.3.4]:80", "[fe80::1%3]:80", "[2001:DB8:0:0::1]:8080", "localhost:80", "1.2.3.4", "1.2.3.4:65536"];
const IPS: &[&str] = &["127.0.0.1", "::1", "::", "2001:db8::1", "::ffff:192.0.2.1", "0.0.0.0", "2001:DB8:0:0:0:0:0:1", "x"];
const FACILITIES: &[&str] = &["kern", "user", "mail", "daemon", "auth", "syslog", "lpr", "news", "uucp", "cron",
    "authpriv", "ftp", "ntp", "audit", "alert", "clock_daemon", "local0", "local1", "local2", "local3", "local4",
    "local5", "local6", "local7", "log_kern", "LOG_CLOCK_DAEMON", "KERN", "clockdaemon", "foo"];
const TALS: &[&str] = &["nlnetlabs-testbed", "apnic-testbed", "arin-ote", "afrinic", "x y", ""];

fn case(class: &str, file: Option<String>, args: Vec<Value>) -> (String, Value) {
    (class.to_string(), json!({"file": file, "args": args}))
}
fn sargs(a: &[&str]) -> Vec<Value> { a.iter().map(|s| json!(s)).collect() }

/// A random value for an option; mostly valid.
fn random_option(rng: &mut Rng, out: &mut Vec<Value>) {
    let pick_num = |rng: &mut Rng, max: u64| -> String {
        match rng.below(6) {
            0 => "0".into(),
            1 => max.to_string(),
            2 => rng.range(0, max.min(100)).to_string(),
            3 => (max - rng.below(max.min(3) + 1).min(max)).to_string(),
            _ => (if max == u64::MAX { rng.next() } else { rng.range(0, max) }).to_string(),
        }
    };
    match rng.below(13) {
        0 | 1 => out.push(json!(*rng.pick(FLAGS))),
        2 | 3 => {
            let o = *rng.pick(U64_OPTS);
            let max = if rng.chance(1, 12) { u64::MAX } else { i64::MAX as u64 };
            out.push(json!(o)); out.push(json!(pick_num(rng, max)));
        }
        4 => {
            let o = *rng.pick(USIZE_OPTS);
            let max = if o == "--history" || o == "--validation-threads" { 65535 } else { i64::MAX as u64 };
            out.push(json!(o)); out.push(json!(pick_num(rng, max)));
        }
        5 => {
            let o = *rng.pick(U8_OPTS);
            let max = if o == "--limit-v4-len" { 32 } else { 128 };
            out.push(json!(o)); out.push(json!(pick_num(rng, max)));
        }
        6 => {
            if rng.chance(1, 4) { out.push(json!("--rrdp-fallback")); out.push(json!(*rng.pick(&["never", "stale", "new"]))); }
            else { out.push(json!(*rng.pick(POLICY_OPTS))); out.push(json!(*rng.pick(&["reject", "warn", "accept"]))); }
        }
        7 => { out.push(json!(*rng.pick(STRING_OPTS))); out.push(json!(*rng.pick(STRINGS))); }
        8 | 9 => { out.push(json!(*rng.pick(PATH_OPTS))); out.push(json!(*rng.pick(PATHS))); }
        10 => {
            let o = if rng.chance(1, 2) { *rng.pick(PATHLIST_OPTS) } else { *rng.pick(STRLIST_OPTS) };
            for _ in 0..rng.range(1, 3) {
                out.push(json!(o));
                let v = if PATHLIST_OPTS.contains(&o) { *rng.pick(PATHS) } else if o == "--tal" { *rng.pick(TALS) } else { *rng.pick(STRINGS) };
                out.push(json!(v));
            }
        }
        11 => {
            let o = *rng.pick(SOCK_OPTS);
            for _ in 0..rng.range(1, 3) { out.push(json!(o)); out.push(json!(*rng.pick(&SOCKS[..8]))); }
        }
        _ => {
            if rng.chance(1, 2) { out.push(json!("--rrdp-local-addr")); out.push(json!(*rng.pick(&IPS[..7]))); }
            else { out.push(json!("--syslog")); out.push(json!("--syslog-facility")); out.push(json!(*rng.pick(&FACILITIES[..27]))); }
        }
    }
}

fn tstr(s: &str) -> toml::Value { toml::Value::from(s) }
fn tarr(l: &[&str]) -> toml::Value { toml::Value::Array(l.iter().map(|s| toml::Value::from(*s)).collect()) }

/// A random, mostly valid config file.
fn random_file(rng: &mut Rng, malformed: bool) -> String {
    let mut t = toml::DocumentMut::new();
    let mut put = |k: &str, v: toml::Value| { t.insert(k, toml::Item::Value(v)); };
    put("repository-dir", tstr(*rng.pick(PATHS)));
    let num = |rng: &mut Rng, max: u64| -> toml::Value {
        let v = match rng.below(5) { 0 => 0, 1 => max, 2 => rng.range(0, max.min(50)), 3 => max - rng.below(max.min(2) + 1), _ => rng.range(0, max) };
        toml::Value::from(v as i64)
    };
    for k in ["no-rir-tals", "strict", "allow-dubious-hosts", "disable-rsync", "disable-rrdp", "enable-bgpsec",
              "enable-aspa", "dirty", "systemd-listen", "rtr-client-metrics", "log-repository-issues"] {
        if rng.chance(1, 3) { put(k, toml::Value::from(rng.chance(1, 2))); }
    }
    for k in ["rsync-timeout", "rrdp-fallback-time", "rrdp-max-delta-count", "rrdp-max-delta-list-len", "rrdp-timeout",
              "rrdp-read-timeout", "rrdp-connect-timeout", "rrdp-tcp-keepalive", "max-object-size", "max-ca-depth",
              "refresh", "min-refresh", "retry", "expire", "rtr-tcp-keepalive"] {
        if rng.chance(1, 3) { let v = num(rng, i64::MAX as u64); put(k, v); }
    }
    for k in ["validation-threads", "history-size"] {
        if rng.chance(1, 3) { let v = num(rng, 65535); put(k, v); }
    }
    if rng.chance(1, 3) { let v = num(rng, 32); put("limit-v4-len", v); }
    if rng.chance(1, 3) { let v = num(rng, 128); put("limit-v6-len", v); }
    for k in ["stale", "unsafe-vrps", "unknown-objects"] {
        if rng.chance(1, 3) { put(k, tstr(*rng.pick(&["reject", "warn", "accept"]))); }
    }
    if rng.chance(1, 3) { put("rrdp-fallback", tstr(*rng.pick(&["never", "stale", "new"]))); }
    if rng.chance(1, 3) { put("log-level", tstr(*rng.pick(&["off", "error", "warn", "info", "debug", "trace", "WARN", "Info"]))); }
    for k in ["rsync-command", "user", "group"] {
        if rng.chance(1, 4) { put(k, tstr(*rng.pick(STRINGS))); }
    }
    for k in ["extra-tals-dir", "rtr-tls-key", "rtr-tls-cert", "http-tls-key", "http-tls-cert", "pid-file", "working-dir", "chroot"] {
        if rng.chance(1, 4) { put(k, tstr(*rng.pick(PATHS))); }
    }
    for k in ["exceptions", "rrdp-root-certs"] {
        if rng.chance(1, 3) {
            let n = rng.below(4) as usize;
            let l: Vec<&str> = (0..n).map(|_| *rng.pick(PATHS)).collect();
            if k == "exceptions" && n == 1 && rng.chance(1, 2) { put(k, tstr(l[0])); } else { put(k, tarr(&l)); }
        }
    }
    for k in ["tals", "rrdp-proxies", "rsync-args"] {
        if rng.chance(1, 3) {
            let n = rng.below(4) as usize;
            let l: Vec<&str> = (0..n).map(|_| if k == "tals" { *rng.pick(TALS) } else { *rng.pick(STRINGS) }).collect();
            put(k, tarr(&l));
        }
    }
    for k in ["rtr-listen", "rtr-tls-listen", "http-listen", "http-tls-listen"] {
        if rng.chance(1, 3) {
            let n = rng.below(3) as usize;
            let l: Vec<&str> = (0..n).map(|_| *rng.pick(&SOCKS[..8])).collect();
            put(k, tarr(&l));
        }
    }
    if rng.chance(1, 4) { put("rrdp-local-addr", tstr(*rng.pick(&IPS[..7]))); }
    match rng.below(6) {
        0 => { put("log", tstr("default")); }
        1 => { put("log", tstr("syslog")); put("syslog-facility", tstr(*rng.pick(&FACILITIES[..27]))); }
        2 => { put("log", tstr("stderr")); if rng.chance(1, 2) { put("syslog-facility", tstr(*rng.pick(&FACILITIES[..27]))); } }
        3 => { put("log", tstr("file")); put("log-file", tstr(*rng.pick(PATHS))); }
        4 => { put("syslog-facility", tstr(*rng.pick(&FACILITIES[..27]))); }
        _ => {}
    }
    if rng.chance(1, 4) {
        let n = rng.below(4);
        let mut arr = toml::Array::new();
        for i in 0..n {
            let mut p = toml::Array::new();
            p.push(format!("{}{}", rng.pick(TALS), i));
            p.push(*rng.pick(STRINGS));
            arr.push(toml::Value::Array(p));
        }
        put("tal-labels", toml::Value::Array(arr));
    }
    if rng.chance(1, 10) { put("tal-dir", tstr("/old/tals")); }
    if malformed {
        // one defect
        let keys: Vec<String> = t.iter().map(|(k, _)| k.to_string()).collect();
        let k = rng.pick(&keys).clone();
        let bad: toml::Value = match rng.below(12) {
            0 => toml::Value::from(-1i64),
            1 => toml::Value::from(65536i64),
            2 => toml::Value::from(33i64),
            3 => toml::Value::from(129i64),
            4 => toml::Value::from(true),
            5 => tstr("bogus"),
            6 => { let mut a = toml::Array::new(); a.push(1i64); toml::Value::Array(a) }
            7 => { let mut a = toml::Array::new(); a.push("x"); a.push(2i64); toml::Value::Array(a) }
            8 => toml::Value::from(1.5f64),
            9 => { let mut a = toml::Array::new(); let mut p = toml::Array::new(); p.push("a"); p.push("b"); p.push("c"); a.push(toml::Value::Array(p)); toml::Value::Array(a) }
            10 => { let mut a = toml::Array::new(); for _ in 0..2 { let mut p = toml::Array::new(); p.push("dup"); p.push("b"); a.push(toml::Value::Array(p)); } toml::Value::Array(a) }
            _ => tarr(&["localhost:80"]),
        };
        match rng.below(5) {
            0 => { t.insert("no-such-key", toml::Item::Value(bad)); }
            1 => { t.remove("repository-dir"); }
            _ => { t.insert(&k, toml::Item::Value(bad)); }
        }
    }
    t.to_string()
}

fn gen(rng: &mut Rng, tier: &str) -> Vec<(String, Value)> {
    let thorough = tier == "thorough";
    let mut cases = Vec::new();
    // (a) exhaustive small scope: every option alone, at every edge value of its type
    cases.push(case("default", None, vec![]));
    for f in FLAGS { cases.push(case("one.flag", None, sargs(&[f]))); }
    if thorough {
        for o in U64_OPTS.iter().chain(USIZE_OPTS).chain(U8_OPTS) {
            for v in NUM_EDGES { cases.push(case("one.number", None, sargs(&[o, v]))); }
        }
    } else {
        // the edges of each option's own type and of the ranges involved (i64, u16, the prefix lengths)
        for o in U64_OPTS {
            for v in ["0", "1", "9223372036854775806", "9223372036854775807", "9223372036854775808",
                      "18446744073709551615", "18446744073709551616", "-1", "x"] {
                cases.push(case("one.number", None, sargs(&[o, v])));
            }
        }
        for o in USIZE_OPTS {
            for v in ["0", "1", "65534", "65535", "65536", "4294967296", "9223372036854775807",
                      "9223372036854775808", "18446744073709551615", "18446744073709551616"] {
                cases.push(case("one.number", None, sargs(&[o, v])));
            }
        }
        for o in U8_OPTS {
            for v in ["0", "1", "31", "32", "33", "127", "128", "129", "255", "256"] {
                cases.push(case("one.number", None, sargs(&[o, v])));
            }
        }
    }
    for o in POLICY_OPTS { for v in ["reject", "warn", "accept", "Reject", "bogus"] { cases.push(case("one.enum", None, sargs(&[o, v]))); } }
    for v in ["never", "stale", "new", "x"] { cases.push(case("one.enum", None, sargs(&["--rrdp-fallback", v]))); }
    for (i, o) in STRING_OPTS.iter().enumerate() {
        for (j, v) in STRINGS.iter().enumerate() {
            if thorough || i == 0 || (i + j) % 4 == 0 { cases.push(case("one.string", None, sargs(&[o, v]))); }
        }
    }
    for (i, o) in PATH_OPTS.iter().enumerate() {
        for (j, v) in PATHS.iter().enumerate() {
            if thorough || (i + j) % 3 == 0 { cases.push(case("one.path", None, sargs(&[o, v]))); }
        }
    }
    for o in PATHLIST_OPTS {
        for v in PATHS { cases.push(case("one.list", None, sargs(&[o, v]))); }
        cases.push(case("one.list", None, sargs(&[o, "/a", o, "b", o, "/a"])));
    }
    for v in TALS { cases.push(case("one.list", None, sargs(&["--tal", v]))); }
    cases.push(case("one.list", None, sargs(&["--tal", "apnic-testbed", "--tal", "arin-ote"])));
    cases.push(case("one.list", None, sargs(&["--tal", "list"])));
    for v in STRINGS { if *v != "list" { cases.push(case("one.list", None, sargs(&["--rrdp-proxy", v]))); } }
    for o in SOCK_OPTS {
        for v in SOCKS { cases.push(case("one.addr", None, sargs(&[o, v]))); }
        cases.push(case("one.addr", None, sargs(&[o, "127.0.0.1:1", o, "[::1]:2"])));
    }
    for v in IPS { cases.push(case("one.addr", None, sargs(&["--rrdp-local-addr", v]))); }
    for f in FACILITIES {
        cases.push(case("one.log", None, sargs(&["--syslog", "--syslog-facility", f])));
    }
    cases.push(case("one.log", None, sargs(&["--syslog"])));
    cases.push(case("one.log", None, sargs(&["--syslog-facility", "auth"])));
    cases.push(case("one.log", None, sargs(&["--logfile", "-"])));
    cases.push(case("one.log", None, sargs(&["--syslog", "--logfile", "/x.log"])));
    // a path that is not valid UTF-8 (known class K2)
    for o in ["--repository-dir", "--exceptions", "--pid-file", "--logfile"] {
        let mut a = sargs(&[o]);
        if o == "--logfile" { a.push(json!("/f\u{fffd}")); } else { a.push(json!({"hex": "2f66ff6f"})); }
        cases.push(case("one.nonutf8", None, a));
    }
    // (b) boundary classes of the proof's case splits, on files: each reader kind at the edges of its range
    let base = "repository-dir = \"/repo\"\n";
    for (k, vs) in [
        ("history-size", vec!["0", "1", "65535", "65536", "-1", "9223372036854775807"]),
        ("validation-threads", vec!["0", "65535", "65536"]),
        ("refresh", vec!["0", "9223372036854775807", "-1", "9223372036854775808", "1.0", "\"600\""]),
        ("rsync-timeout", vec!["0", "1", "9223372036854775807"]),
        ("rtr-tcp-keepalive", vec!["0", "1"]),
        ("max-object-size", vec!["0", "1", "0x10", "1_000"]),
        ("rrdp-connect-timeout", vec!["0", "5"]),
        ("min-refresh", vec!["0", "7"]),
        ("limit-v4-len", vec!["0", "32", "33", "255", "256", "-1"]),
        ("limit-v6-len", vec!["0", "128", "129"]),
        ("max-ca-depth", vec!["0", "9223372036854775807"]),
        ("strict", vec!["true", "false", "1", "\"true\""]),
        ("stale", vec!["\"reject\"", "\"warn\"", "\"accept\"", "\"Reject\"", "1"]),
        ("rrdp-fallback", vec!["\"never\"", "\"stale\"", "\"new\"", "\"NEW\""]),
        ("log-level", vec!["\"off\"", "\"ERROR\"", "\"Trace\"", "\"bogus\""]),
        ("exceptions", vec!["[]", "\"single\"", "[\"a\", \"/b\"]", "[1]", "true"]),
        ("rrdp-root-certs", vec!["[]", "[\"rel.pem\", \"/abs.pem\"]", "\"single\""]),
        ("rsync-args", vec!["[]", "[\"-a\", \"--x y\"]", "\"-a\""]),
        ("tals", vec!["[]", "[\"apnic-testbed\"]", "\"apnic-testbed\""]),
        ("no-rir-tals", vec!["true", "false"]),
        ("tal-labels", vec!["[]", "[[\"a\", \"b\"]]", "[[\"b\", \"1\"], [\"a\", \"2\"]]", "[[\"a\", \"b\"], [\"a\", \"c\"]]",
                            "[[\"a\"]]", "[[\"a\", \"b\", \"c\"]]", "[\"a\"]", "[[\"a\", 1]]", "\"x\""]),
        ("rtr-listen", vec!["[\"127.0.0.1:323\"]", "[\"[2001:DB8::1]:323\"]", "[\"nohost:1\"]", "[]"]),
        ("rrdp-local-addr", vec!["\"::1\"", "\"2001:DB8::1\"", "\"x\"", "5"]),
        ("extra-tals-dir", vec!["\"rel\"", "\"/abs\"", "\"\"", "7"]),
        ("log", vec!["\"default\"", "\"syslog\"", "\"stderr\"", "\"file\"", "\"bogus\"", "3"]),
        ("log-file", vec!["\"x.log\"", "1"]),
        ("syslog-facility", vec!["\"auth\"", "\"LOG_LOCAL7\"", "\"clock_daemon\"", "\"clockdaemon\"", "\"bogus\"", "1"]),
        ("tal-dir", vec!["\"/old\"", "5"]),
        ("unknown-key", vec!["1"]),
        ("user", vec!["\"\"", "\"nobody\"", "1"]),
    ] {
        for v in vs { cases.push(case("file.edge", Some(format!("{}{} = {}\n", base, k, v)), vec![])); }
    }
    cases.push(case("file.edge", Some("".into()), vec![]));
    cases.push(case("file.edge", Some(base.into()), vec![]));
    cases.push(case("file.edge", Some("repository-dir = \"rel/repo\"\nlog = \"file\"\nlog-file = \"rel.log\"\n".into()), vec![]));
    cases.push(case("file.edge", Some(format!("{}log = \"file\"\n", base)), vec![]));
    cases.push(case("file.edge", Some(format!("{}log = \"stderr\"\nsyslog-facility = \"bogus\"\n", base)), vec![]));
    cases.push(case("file.edge", Some(format!("{}[section]\nx = 1\n", base)), vec![]));
    cases.push(case("file.edge", Some(format!("{}refresh.x = 1\n", base)), vec![]));
    cases.push(case("file.syntax", Some("repository-dir = \n".into()), vec![]));
    cases.push(case("file.syntax", Some(format!("{}strict = true\nstrict = false\n", base)), vec![]));
    // file plus options: the command line overrides
    cases.push(case("file.args", Some(format!("{}history-size = 7\nrtr-listen = [\"127.0.0.1:1\"]\ntal-labels = [[\"a\", \"b\"]]\nrsync-args = [\"-x\"]\n", base)),
        sargs(&["--history", "9", "--rtr", "[::1]:2", "--no-rir-tals", "--tal", "arin-ote"])));
    // (c) structured random: several options, with and without a base file
    let n = if thorough { 4000 } else { 300 };
    for i in 0..n {
        let mut r = rng.fork();
        let mut a = Vec::new();
        for _ in 0..r.range(1, 8) { random_option(&mut r, &mut a); }
        if i % 3 == 0 {
            cases.push(case("random.file+args", Some(random_file(&mut r, false)), a));
        } else {
            cases.push(case("random.args", None, a));
        }
    }
    let n = if thorough { 2500 } else { 200 };
    for _ in 0..n {
        let mut r = rng.fork();
        cases.push(case("random.file", Some(random_file(&mut r, false)), vec![]));
    }
    // (d) malformed stream
    let n = if thorough { 1500 } else { 150 };
    for _ in 0..n {
        let mut r = rng.fork();
        cases.push(case("malformed.file", Some(random_file(&mut r, true)), vec![]));
    }
    cases
}

fn main() {
    drive(gen, run);
    let _ = std::fs::remove_dir_all(WORK);
}
