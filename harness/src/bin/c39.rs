//! C39: the refresh deadline of a data set (`PayloadSnapshot::refresh`) vs the Coq model (coq/C39).
//!
//! Every case is a real RPKI world built by `rv_harness::rpkigen` (signed objects, several rsync
//! modules), one or two real engine runs on a fresh cache, and the deadline the run attached to its
//! snapshot (`RunOutcome::refresh`, whole seconds relative to the build instant).  The Coq case is the
//! *validated tree* (which certificates / objects reached the processor, with their notAfter /
//! nextUpdate times), derived from the generator's ground truth by `abstract_world` below (the same
//! acceptance rules as `rpkigen::expected_fresh`; trusted), plus the observed deadline.
//!
//! Input JSON: `{"spec": RepoSpec, "cfg": RunCfg, "runs": 1|2}`; with `runs = 2` the second run (which
//! validates from the store because the collected manifest is unchanged) is the one observed.
use rv_harness::rpkigen::*;
use rv_harness::util::*;
use serde_json::{json, Value};

//------------ the validated tree ---------------------------------------------

#[derive(Clone, Debug)]
enum Node {
    Leaf { kind: &'static str, na: i64 },
    Sub { na: i64, accepted: bool, mft_na: i64, mft_next: i64, crl_next: i64, objs: Vec<Node> },
}

fn z(v: i64) -> String { format!("({})%Z", v) }

impl Node {
    fn coq(&self) -> String {
        match self {
            Node::Leaf { kind, na } => format!("(Leaf {} {})", kind, z(*na)),
            Node::Sub { na, accepted, mft_na, mft_next, crl_next, objs } => format!(
                "(Sub {} {} {} {} {} {})", z(*na), coq_bool(*accepted), z(*mft_na), z(*mft_next), z(*crl_next),
                coq_list(objs.iter(), |o| o.coq())),
        }
    }
    fn contributing(&self, cfg: &RunCfg) -> usize {
        match self {
            Node::Leaf { kind, .. } => match *kind {
                "(LRoa true)" => 1,
                "LAspa" => cfg.enable_aspa as usize,
                "LRouter" => cfg.enable_bgpsec as usize,
                _ => 0,
            },
            Node::Sub { accepted, objs, .. } => if *accepted { objs.iter().map(|o| o.contributing(cfg)).sum() } else { 0 },
        }
    }
}

fn kind_matches(name: &str, obj: &ObjTruth) -> bool {
    match obj {
        ObjTruth::Ca(_) | ObjTruth::Router { .. } => name.ends_with(".cer"),
        ObjTruth::Roa { .. } => name.ends_with(".roa"),
        ObjTruth::Aspa { .. } => name.ends_with(".asa"),
        ObjTruth::Gbr { .. } => name.ends_with(".gbr"),
        ObjTruth::Other { .. } => !(name.ends_with(".cer") || name.ends_with(".roa") || name.ends_with(".asa") || name.ends_with(".gbr")),
    }
}

/// The publication point of `ca` reached through the valid certificate `cert` (single run on an empty
/// cache, version 0 of everything served).
fn point(truth: &Truth, cfg: &RunCfg, ca: &CaTruth, cert: &CertTruth, chain: &mut Vec<String>, depth: usize) -> Node {
    let stale_reject = cfg.stale == "reject";
    let v = &ca.versions[0];
    let m = &v.mft;
    let c = &v.crl;
    let key_ok = cert.key == ca.key;
    let mft_ok = m.present && m.decodes && key_ok && m.content_sig_ok && m.ee.sig_ok && m.ee.valid_now && m.ee.res_within
        && !m.premature && !(m.stale && stale_reject);
    let crl_ok = m.ee.crl_uri_ok && c.listed && c.present && c.hash_ok && c.decodes && c.sig_ok
        && !(c.stale && stale_reject) && !m.ee.revoked;
    let files_ok = !v.entries.iter().any(|e| e.listed && !(e.present && e.hash_ok));
    let accepted = mft_ok && crl_ok && files_ok;
    let mut objs = Vec::new();
    if accepted {
        for e in v.entries.iter().filter(|e| e.listed) {
            let good = kind_matches(&e.name, &e.obj) && e.obj.all_good();
            let na = e.obj.cert().map(|c| c.not_after).unwrap_or(0);
            if !good { objs.push(Node::Leaf { kind: "LSkip", na }); continue }
            match &e.obj {
                ObjTruth::Ca(cc) => {
                    let sub = cc.subject.as_ref().and_then(|s| truth.ca(s));
                    if chain.contains(&cc.ski) || depth + 1 > cfg.max_ca_depth || sub.is_none() {
                        objs.push(Node::Leaf { kind: "LSkip", na });
                    } else {
                        chain.push(cc.ski.clone());
                        objs.push(point(truth, cfg, sub.unwrap(), cc, chain, depth + 1));
                        chain.pop();
                    }
                }
                ObjTruth::Router { .. } => objs.push(Node::Leaf { kind: "LRouter", na }),
                ObjTruth::Roa { vrps, .. } => {
                    let kept = vrps.iter().any(|r| {
                        let lim = if r.v4 { cfg.limit_v4_len } else { cfg.limit_v6_len };
                        !lim.map(|l| r.len > l).unwrap_or(false)
                    });
                    objs.push(Node::Leaf { kind: if kept { "(LRoa true)" } else { "(LRoa false)" }, na });
                }
                ObjTruth::Aspa { .. } => objs.push(Node::Leaf { kind: "LAspa", na }),
                ObjTruth::Gbr { .. } | ObjTruth::Other { .. } => objs.push(Node::Leaf { kind: "LSkip", na }),
            }
        }
    }
    Node::Sub { na: cert.not_after, accepted, mft_na: m.ee.not_after, mft_next: m.next_update, crl_next: c.next_update, objs }
}

fn abstract_world(truth: &Truth, cfg: &RunCfg) -> Vec<Node> {
    let mut res = Vec::new();
    for tal in &truth.tals {
        for u in &tal.uris {
            let cert = match &u.certs[0] { Some(c) => c, None => continue };
            if !cert.decodes || cert.key != tal.key || !(cert.valid_now && cert.sig_ok) { continue }
            if let Some(ca) = cert.subject.as_ref().and_then(|s| truth.ca(s)) {
                let mut chain = vec![cert.ski.clone()];
                res.push(point(truth, cfg, ca, cert, &mut chain, 0));
            }
            break
        }
    }
    res
}

//------------ running one case --------------------------------------------------

fn run_case(input: &Value) -> CaseOut {
    let spec: RepoSpec = serde_json::from_value(input["spec"].clone()).expect("spec");
    let cfg: RunCfg = serde_json::from_value(input["cfg"].clone()).expect("cfg");
    let runs = input["runs"].as_u64().unwrap_or(1);
    let built = build(&spec).unwrap_or_else(|e| panic!("build: {}", e));
    let tree = abstract_world(&built.truth, &cfg);
    let world = World::new(built).expect("world");
    let mut out = world.run(&cfg);
    for _ in 1..runs { out = world.run(&cfg); }
    let impl_obs = if out.result == "ok" { out.refresh } else { None };
    let ncontrib: usize = tree.iter().map(|n| n.contributing(&cfg)).sum();
    let coq = format!(
        "{{| c_cfg := {{| enable_aspa := {}; enable_bgpsec := {} |}}; c_tals := {}; c_impl := {} |}}",
        coq_bool(cfg.enable_aspa), coq_bool(cfg.enable_bgpsec), coq_list(tree.iter(), |n| n.coq()),
        coq_opt(impl_obs.map(z)));
    let npayload = out.payload.origins.len() + out.payload.router_keys.len() + out.payload.aspas.len();
    CaseOut {
        obs: json!({"result": out.result, "refresh": out.refresh, "payload_items": npayload,
                    "contributing_objects": ncontrib, "valid_points": out.metrics.publication.valid_points,
                    "rejected_points": out.metrics.publication.rejected_points}),
        coq,
        nontrivial: impl_obs.is_some() && ncontrib > 0,
    }
}

//------------ generators ------------------------------------------------------------

const H: &str = "rpki.alpha.example";
const H2: &str = "rpki.beta.example";

/// depth 1..=3 below one TA plus (for `two`) a second TAL of depth 1; objects of every type.
fn shape(depth: usize, two: bool, extra: bool) -> Scen { shape_h(depth, two, extra, false) }

/// `hollow`: only the deepest CA of the alpha tree publishes payload (the CAs above it are never pushed to the
/// report themselves, so their times reach the deadline only through `PubPoint::new_ca`).
fn shape_h(depth: usize, two: bool, extra: bool, hollow: bool) -> Scen {
    let mut s = shape_full(depth, two, extra);
    if hollow {
        let deepest = ["A", "A1", "A2"][depth - 1];
        for ca in &mut s.spec.cas {
            if ca.id != deepest && ca.id.starts_with('A') {
                for v in &mut ca.versions { v.objects.retain(|o| matches!(o.kind, ObjKind::Ca { .. } | ObjKind::Gbr { .. } | ObjKind::Other { .. })); }
            }
        }
    }
    s
}

fn shape_full(depth: usize, two: bool, extra: bool) -> Scen {
    let mut s = Scen::new();
    s.add_ta("alpha", "A", 0, H, "repo", res(&["10.0.0.0/8"], &["2001:db8::/32"], &[(64496, 64510)]));
    s.add_roa("A", "a.roa", 64496, &[("10.0.0.0/16", Some(20))]);
    if depth >= 2 {
        s.add_child("A", "A1", 1, H, "members", res(&["10.1.0.0/16"], &[], &[(64496, 64503)]));
        s.add_roa("A1", "a1.roa", 64497, &[("10.1.0.0/16", Some(24))]);
        s.add_aspa("A1", "a1.asa", 64500, &[64501, 64502]);
        if extra {
            s.add_router("A1", "a1r.cer", &[(64496, 64497)], 0);
            s.add_gbr("A1", "a1.gbr");
            s.add_other("A1", "notes.txt", "hello");
            // an empty sibling CA (contributes nothing) and a sibling with one ROA
            s.add_child("A", "E", 6, H2, "repo", res(&["10.9.0.0/16"], &[], &[]));
            s.add_child("A", "S", 7, H2, "repo", res(&["10.8.0.0/16"], &[], &[]));
            s.add_roa("S", "s.roa", 64496, &[("10.8.0.0/16", None)]);
        }
    }
    if depth >= 3 {
        s.add_child("A1", "A2", 2, H2, "repo", res(&["10.1.2.0/24"], &[], &[(64497, 64498)]));
        s.add_roa("A2", "a2.roa", 64497, &[("10.1.2.0/24", Some(28))]);
        if extra { s.add_router("A2", "a2r.cer", &[(64498, 64498)], 1); }
    }
    if two {
        s.add_ta("beta", "B", 4, H2, "beta", res(&["172.16.0.0/12"], &[], &[(65000, 65010)]));
        s.add_aspa("B", "b.asa", 65001, &[65000, 65002]);
    }
    s
}

/// Mutable references to every expiry time of version 0 the deadline could depend on, with a label.
fn slots(spec: &mut RepoSpec) -> Vec<(String, &mut i64)> {
    let mut v: Vec<(String, &mut i64)> = Vec::new();
    for t in &mut spec.tals {
        for u in &mut t.uris {
            if let Some(Some(c)) = u.certs.first_mut() { v.push((format!("ta:{}", t.name), &mut c.cert.not_after)); }
        }
    }
    for ca in &mut spec.cas {
        let id = ca.id.clone();
        let ver = &mut ca.versions[0];
        v.push((format!("{}:mft-ee", id), &mut ver.mft.ee.not_after));
        v.push((format!("{}:mft-next", id), &mut ver.mft.next_update));
        v.push((format!("{}:crl-next", id), &mut ver.crl.next_update));
        for o in &mut ver.objects {
            let label = format!("{}:{}", id, o.name);
            match &mut o.kind {
                ObjKind::Ca { cert, .. } | ObjKind::Router { cert, .. } => v.push((label, &mut cert.not_after)),
                ObjKind::Roa { ee, .. } | ObjKind::Aspa { ee, .. } | ObjKind::Gbr { ee } => v.push((label, &mut ee.not_after)),
                ObjKind::Other { .. } => { }
            }
        }
    }
    v
}

/// All times distinct: slot i expires (10 + i) days from now.
fn spread(spec: &mut RepoSpec) -> usize {
    let mut n = 0;
    for (i, (_, t)) in slots(spec).into_iter().enumerate() { *t = (10 + i as i64) * DAY + 17 * i as i64; n += 1; }
    n
}

fn case(class: &str, s: &RepoSpec, cfg: &RunCfg, runs: u64) -> (String, Value) {
    (class.to_string(), json!({"spec": serde_json::to_value(s).unwrap(), "cfg": serde_json::to_value(cfg).unwrap(), "runs": runs}))
}

fn gen(rng: &mut Rng, tier: &str) -> Vec<(String, Value)> {
    let thorough = tier == "thorough";
    let mut out = Vec::new();
    let cfg = RunCfg::default();

    // 1. every time in turn the unique minimum, on trees of depth 1..3
    let shapes: Vec<(usize, bool, bool, bool)> = if thorough {
        vec![(1, false, false, false), (2, false, false, false), (2, true, true, false), (3, false, true, false),
             (3, true, true, false), (2, false, false, true), (3, false, true, true)]
    } else {
        vec![(1, false, false, false), (2, true, false, false), (3, false, true, false), (3, false, false, true)]
    };
    for (depth, two, extra, hollow) in shapes {
        let mut base = shape_h(depth, two, extra, hollow).spec;
        let n = spread(&mut base);
        let depth = if hollow { format!("{}-hollow", depth) } else { depth.to_string() };
        out.push(case(&format!("spread-depth{}", depth), &base, &cfg, 1));
        for k in 0..n {
            let mut s = base.clone();
            let label = { let mut sl = slots(&mut s); *sl[k].1 = 2 * HOUR; sl[k].0.clone() };
            let kind = if label.starts_with("ta:") { "ta" } else if label.ends_with(":mft-ee") { "mft-ee" }
                else if label.ends_with(":mft-next") { "mft-next" } else if label.ends_with(":crl-next") { "crl-next" }
                else if label.ends_with(".roa") { "roa" } else if label.ends_with(".asa") { "aspa" }
                else if label.ends_with(".gbr") { "gbr" } else if label.ends_with("r.cer") { "router" } else { "ca-cert" };
            out.push(case(&format!("min-{}-depth{}", kind, depth), &s, &cfg, 1));
        }
    }

    // 2. boundary classes of the model's case splits
    {
        let mut base = shape(3, true, true).spec;
        spread(&mut base);
        // objects that do not contribute carry the earliest time: type switched off / all prefixes filtered / GBR
        let set = |s: &mut RepoSpec, what: &str, t: i64| { for (l, v) in slots(s) { if l == what { *v = t } } };
        let mut s = base.clone(); set(&mut s, "A1:a1.asa", 2 * HOUR);
        out.push(case("aspa-off-min", &s, &RunCfg { enable_aspa: false, ..cfg.clone() }, 1));
        let mut s = base.clone(); set(&mut s, "A1:a1r.cer", 2 * HOUR);
        out.push(case("bgpsec-off-min", &s, &RunCfg { enable_bgpsec: false, ..cfg.clone() }, 1));
        let mut s = base.clone(); set(&mut s, "A1:a1.roa", 2 * HOUR);
        out.push(case("roa-filtered-min", &s, &RunCfg { limit_v4_len: Some(12), ..cfg.clone() }, 1));
        let mut s = base.clone(); set(&mut s, "A:a.roa", 2 * HOUR);
        out.push(case("roa-filtered-min", &s, &RunCfg { limit_v4_len: Some(12), ..cfg.clone() }, 1));
        // the empty CA E and its certificate carry the earliest times
        for what in ["E:mft-ee", "E:mft-next", "E:crl-next", "A:E.cer"] {
            let mut s = base.clone(); set(&mut s, what, 2 * HOUR);
            out.push(case("empty-ca-min", &s, &cfg, 1));
        }
        // stale manifest / CRL accepted by policy: nextUpdate in the past
        for pol in ["accept", "warn"] {
            let mut s = base.clone();
            for ca in &mut s.cas { if ca.id == "A1" { ca.versions[0].mft.faults.push(Fault::Stale); } }
            out.push(case("stale-mft-accepted", &s, &RunCfg { stale: pol.into(), ..cfg.clone() }, 1));
            let mut s = base.clone();
            for ca in &mut s.cas { if ca.id == "A2" { ca.versions[0].crl.faults.push(Fault::Stale); } }
            out.push(case("stale-crl-accepted", &s, &RunCfg { stale: pol.into(), ..cfg.clone() }, 1));
        }
        // validation from the store (second run, unchanged manifests)
        out.push(case("stored-path", &base, &cfg, 2));
        let mut s = base.clone(); set(&mut s, "A2:crl-next", 2 * HOUR);
        out.push(case("stored-path", &s, &cfg, 2));
        let mut s = base.clone(); set(&mut s, "A1:a1.asa", 3 * HOUR);
        out.push(case("stored-path", &s, &cfg, 2));
        // a rejected CA with early times: nothing of it may count
        let mut s = base.clone();
        set(&mut s, "A1:mft-next", 2 * HOUR);
        for ca in &mut s.cas { if ca.id == "A1" { ca.versions[0].mft.faults.push(Fault::BadSignature); } }
        out.push(case("rejected-ca-min", &s, &cfg, 1));
        // an invalid object with the earliest time
        let mut s = base.clone();
        for ca in &mut s.cas { if ca.id == "A1" { for o in &mut ca.versions[0].objects { if o.name == "a1.roa" { o.faults.push(Fault::Expired) } } } }
        out.push(case("expired-object", &s, &cfg, 1));
        // nothing contributes at all
        let mut s = Scen::new();
        s.add_ta("alpha", "A", 0, H, "repo", res(&["10.0.0.0/8"], &[], &[(64496, 64510)]));
        s.add_gbr("A", "a.gbr");
        out.push(case("no-payload", &s.spec, &cfg, 1));
    }

    // 3. structured random: random times everywhere, random switches, occasional faults
    let nrand = if thorough { 400 } else { 60 };
    let obj_faults = [Fault::Expired, Fault::BadSignature, Fault::Revoked, Fault::Garbage, Fault::Unlisted, Fault::Overclaim];
    let mft_faults = [Fault::BadSignature, Fault::Missing, Fault::Expired, Fault::Stale, Fault::Revoked];
    for _ in 0..nrand {
        let depth = rng.range(1, 3) as usize;
        let mut s = shape_h(depth, rng.chance(1, 2), rng.chance(2, 3), rng.chance(1, 3)).spec;
        let pool: Vec<i64> = (0..6).map(|_| rng.range(2, 24 * 40) as i64 * HOUR + rng.below(3600) as i64).collect();
        for (_, t) in slots(&mut s) {
            *t = if rng.chance(1, 3) { *rng.pick(&pool) } else { rng.range(2, 24 * 60) as i64 * HOUR + rng.below(3600) as i64 };
        }
        let mut c = RunCfg {
            enable_aspa: rng.chance(3, 4), enable_bgpsec: rng.chance(3, 4),
            limit_v4_len: if rng.chance(1, 4) { Some(*rng.pick(&[12u8, 16, 22])) } else { None },
            validation_threads: if rng.chance(1, 4) { 4 } else { 1 },
            ..cfg.clone()
        };
        let mut class = "random".to_string();
        if rng.chance(1, 3) {
            // one object fault
            let ci = rng.below(s.cas.len() as u64) as usize;
            let objs = &mut s.cas[ci].versions[0].objects;
            let cand: Vec<usize> = (0..objs.len()).filter(|i| !matches!(objs[*i].kind, ObjKind::Other { .. })).collect();
            if !cand.is_empty() {
                let oi = *rng.pick(&cand);
                let f = *rng.pick(&obj_faults);
                let ok = match (&objs[oi].kind, f) {
                    (ObjKind::Ca { .. } | ObjKind::Router { .. }, Fault::BadSignature | Fault::Expired | Fault::Revoked | Fault::Garbage | Fault::Unlisted | Fault::Overclaim) => true,
                    (ObjKind::Roa { .. } | ObjKind::Aspa { .. } | ObjKind::Gbr { .. }, _) => true,
                    _ => false,
                };
                if ok { objs[oi].faults.push(f); class = "random-object-fault".into(); }
            }
        } else if rng.chance(1, 4) {
            let ci = rng.below(s.cas.len() as u64) as usize;
            let f = *rng.pick(&mft_faults);
            s.cas[ci].versions[0].mft.faults.push(f);
            if f == Fault::Stale && rng.chance(1, 2) { c.stale = "accept".into(); }
            class = "random-manifest-fault".into();
        }
        let runs = if rng.chance(1, 5) { 2 } else { 1 };
        if runs == 2 { class.push_str("-stored"); }
        out.push(case(&class, &s, &c, runs));
    }
    out
}

fn main() {
    act_as_rsync_if_child();
    let threads = std::env::var("C39_THREADS").ok().and_then(|s| s.parse().ok()).unwrap_or(8);
    drive_par(gen, run_case, threads);
}
