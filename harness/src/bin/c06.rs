//! C06: stale and premature manifests/CRLs follow the configured policy — the real engine on generated
//! repositories (rv_harness::rpkigen) vs. the Coq model (coq/C06).
//!
//! A case is a chain of publication points (level 0 = the trust anchor's point), every level with 1..3
//! versions carrying faults (stale manifest, stale CRL, premature manifest, other invalidity, missing file),
//! and a history of 1..3 validation runs on one cache, each with its stale policy, its way of getting data
//! (fetch a per-level plan / rsync unreachable / no collector) and thread count.  The verdict bits of the Coq
//! case are taken from the generator's ground truth, the observation from the real run: which version of each
//! level contributed payload (every version has its own ROA), which version the store holds, metrics.
use std::collections::BTreeMap;
use rv_harness::rpkigen::*;
use rv_harness::util::*;
use serde_json::{json, Value};

const HOST: &str = "h.example";
const MODULE: &str = "repo";

//------------ generators ------------------------------------------------------------------------------------

fn ver(f: &[&str]) -> Value {
    let has = |x: &str| f.contains(&x);
    json!({"mft_stale": has("mft_stale"), "crl_stale": has("crl_stale"), "premature": has("premature"),
           "bad": if has("garbage") { 1 } else if has("crl_sig") { 2 } else if has("crl_missing") { 3 } else if has("revoked") { 4 } else if has("expired") { 5 } else { 0 },
           "incomplete": has("incomplete")})
}

fn levels(n: usize, nv: usize) -> Vec<Vec<Value>> { (0..n).map(|_| (0..nv).map(|_| ver(&[])).collect()).collect() }

fn case_json(levels: &[Vec<Value>], runs: Vec<Value>) -> Value {
    json!({"levels": levels.iter().map(|vs| json!({"versions": vs})).collect::<Vec<_>>(), "runs": runs})
}

fn fetch(policy: &str, plan: &[Option<u64>], threads: u64) -> Value { json!({"policy": policy, "mode": "fetch", "plan": plan, "threads": threads}) }
fn other(policy: &str, mode: &str) -> Value { json!({"policy": policy, "mode": mode, "threads": 1}) }

const POLICIES: [&str; 3] = ["reject", "warn", "accept"];

fn gen(rng: &mut Rng, tier: &str) -> Vec<(String, Value)> {
    let mut cases = Vec::new();
    let n = 4usize;
    let all0: Vec<Option<u64>> = vec![Some(0); n];
    // (1) one fault at one level x policy x path (fresh cache / stored data without collector / stored data, rsync unreachable)
    for fault in ["mft_stale", "crl_stale", "premature"] {
        for l in 0..n {
            let mut lv = levels(n, 1);
            lv[l][0] = ver(&[fault]);
            for p in POLICIES {
                let t = if l % 2 == 0 { 1 } else { 4 };
                cases.push((format!("single.{}.fresh", fault), case_json(&lv, vec![fetch(p, &all0, t)])));
                cases.push((format!("single.{}.stored_noupdate", fault), case_json(&lv, vec![fetch("accept", &all0, 1), other(p, "noupdate")])));
                cases.push((format!("single.{}.stored_unreachable", fault), case_json(&lv, vec![fetch("accept", &all0, 1), other(p, "unreachable")])));
            }
        }
    }
    // (2) a good version is stored, then a faulty newer version is published: fall back to the store or take the new one
    for fault in ["mft_stale", "crl_stale", "premature"] {
        for l in [0usize, 1, 3] {
            let mut lv = levels(n, 2);
            lv[l][1] = ver(&[fault]);
            let mut plan = all0.clone();
            plan[l] = Some(1);
            for p in POLICIES {
                cases.push((format!("update.{}", fault), case_json(&lv, vec![fetch("reject", &all0, 1), fetch(p, &plan, 1), other("reject", "noupdate")])));
            }
        }
    }
    // (2b) stale data accepted under accept/warn, then the policy is tightened (and relaxed again)
    for fault in ["mft_stale", "crl_stale"] {
        for l in [0usize, 2] {
            let mut lv = levels(n, 1);
            lv[l][0] = ver(&[fault]);
            cases.push((format!("policy_change.{}", fault), case_json(&lv, vec![fetch("warn", &all0, 1), fetch("reject", &all0, 1), fetch("accept", &all0, 1)])));
        }
    }
    // (2c) both faults at once, and stale + other invalidity
    {
        let mut lv = levels(n, 1);
        lv[1][0] = ver(&["mft_stale", "crl_stale"]);
        for p in POLICIES { cases.push(("single.both_stale".into(), case_json(&lv, vec![fetch(p, &all0, 1), other(p, "noupdate")]))); }
        let mut lv = levels(n, 2);
        lv[2][1] = ver(&["mft_stale", "incomplete"]);
        let mut plan = all0.clone(); plan[2] = Some(1);
        for p in POLICIES { cases.push(("update.stale_incomplete".into(), case_json(&lv, vec![fetch(p, &all0, 1), fetch(p, &plan, 1)]))); }
    }
    // (3) random chains, versions, faults and histories
    let count = if tier == "thorough" { 1500 } else { 70 };
    for _ in 0..count {
        let mut r = rng.fork();
        let n = r.range(2, 4) as usize;
        let mut lv = Vec::new();
        for _ in 0..n {
            let nv = r.range(1, 3) as usize;
            let mut vs = Vec::new();
            for _ in 0..nv {
                let mut f: Vec<&str> = Vec::new();
                if r.chance(1, 4) { f.push(if r.chance(1, 3) { "premature" } else { "mft_stale" }); }
                if r.chance(1, 5) { f.push("crl_stale"); }
                if r.chance(1, 12) { f.push(*r.pick(&["garbage", "crl_sig", "crl_missing", "revoked", "expired"])); }
                if r.chance(1, 12) { f.push("incomplete"); }
                vs.push(ver(&f));
            }
            lv.push(vs);
        }
        let nruns = r.range(1, 3);
        let mut runs = Vec::new();
        for k in 0..nruns {
            let p = *r.pick(&POLICIES);
            let m = if k == 0 { 0 } else { r.below(4) };
            match m {
                2 => runs.push(other(p, "unreachable")),
                3 => runs.push(other(p, "noupdate")),
                _ => {
                    let plan: Vec<Option<u64>> = lv.iter().map(|vs| if r.chance(1, 15) { None } else { Some(r.below(vs.len() as u64)) }).collect();
                    runs.push(fetch(p, &plan, if r.chance(1, 4) { 4 } else { 1 }));
                }
            }
        }
        cases.push(("random".into(), case_json(&lv, runs)));
    }
    cases
}

//------------ world ---------------------------------------------------------------------------------------------

fn build_world(input: &Value) -> Built {
    let all = res(&["10.0.0.0/8"], &[], &[(1, 65000)]);
    let lv = input["levels"].as_array().unwrap();
    let mut s = Scen::new();
    s.add_ta("ta", "L0", 0, HOST, MODULE, all.clone());
    for l in 1..lv.len() { s.add_child(&format!("L{}", l - 1), &format!("L{}", l), l, HOST, MODULE, all.clone()); }
    for (l, level) in lv.iter().enumerate() {
        let id = format!("L{}", l);
        let vs = level["versions"].as_array().unwrap();
        for _ in 1..vs.len() { s.push_version(&id); }
        for (v, spec) in vs.iter().enumerate() {
            let ee = s.ee();
            let mut roa = ObjSpec {
                name: format!("r{}_{}.roa", l, v),
                kind: ObjKind::Roa { asn: 1000 + 10 * l as u32 + v as u32, ee,
                                     prefixes: vec![RoaPrefix { prefix: format!("10.{}.{}.0/24", l, v), max_len: None }] },
                faults: vec![],
            };
            if spec["incomplete"].as_bool().unwrap() { roa.faults.push(Fault::Missing); }
            let ver = s.version_mut(&id, v);
            ver.objects.push(roa);
            if spec["mft_stale"].as_bool().unwrap() { ver.mft.faults.push(Fault::Stale); }
            if spec["premature"].as_bool().unwrap() { ver.mft.faults.push(Fault::Premature); }
            if spec["crl_stale"].as_bool().unwrap() { ver.crl.faults.push(Fault::Stale); }
            match spec["bad"].as_u64().unwrap() {
                1 => ver.mft.faults.push(Fault::Garbage),
                2 => ver.crl.faults.push(Fault::BadSignature),
                3 => ver.crl.faults.push(Fault::Missing),
                4 => ver.mft.faults.push(Fault::Revoked),
                5 => ver.mft.faults.push(Fault::Expired),
                _ => {}
            }
        }
    }
    build(&s.spec).unwrap_or_else(|e| panic!("rpkigen build: {} for {}", e, input))
}

fn coq_version(v: &VersionTruth) -> String {
    let m = &v.mft;
    let c = &v.crl;
    let valid = m.present && m.decodes && m.content_sig_ok && m.ee.sig_ok && m.ee.valid_now && m.ee.res_within;
    format!("{{| v_valid := {}; v_premature := {}; v_stale := {}; v_number := {}; v_this := ({})%Z; v_crl_found := {}; v_crl_sig := {}; v_crl_stale := {}; v_revoked := {}; v_complete := {} |}}",
            coq_bool(valid), coq_bool(m.premature), coq_bool(m.stale), m.number, m.this_update,
            coq_bool(m.ee.crl_uri_ok && c.listed && c.present && c.hash_ok), coq_bool(c.decodes && c.sig_ok), coq_bool(c.stale),
            coq_bool(m.ee.revoked), coq_bool(v.entries.iter().all(|e| !e.listed || (e.present && e.hash_ok))))
}

fn coq_onat(o: Option<u64>) -> String { match o { Some(x) => format!("Some {}%nat", x), None => "None".into() } }
fn coq_olist(xs: &[Option<u64>]) -> String { coq_list(xs.iter(), |o| coq_onat(*o)) }

fn run(input: &Value) -> CaseOut {
    let built = build_world(input);
    let n = input["levels"].as_array().unwrap().len();
    // ground truth -> model input; check that it carries the faults the case asked for
    let mut chain = Vec::new();
    for (l, level) in input["levels"].as_array().unwrap().iter().enumerate() {
        let ca = built.truth.ca(&format!("L{}", l)).unwrap();
        for (v, spec) in level["versions"].as_array().unwrap().iter().enumerate() {
            let t = &ca.versions[v];
            assert_eq!(t.mft.stale, spec["mft_stale"].as_bool().unwrap(), "truth: stale manifest");
            assert_eq!(t.mft.premature, spec["premature"].as_bool().unwrap(), "truth: premature");
            assert_eq!(t.crl.stale, spec["crl_stale"].as_bool().unwrap(), "truth: stale CRL");
        }
        chain.push(coq_list(ca.versions.iter(), coq_version));
    }
    let sha: Vec<Vec<String>> = (0..n).map(|l| built.truth.ca(&format!("L{}", l)).unwrap().versions.iter().map(|v| v.mft.sha256.clone()).collect()).collect();
    let modules: std::collections::BTreeSet<String> = [format!("{}/{}", HOST, MODULE)].into_iter().collect();
    let world = World::new(built).expect("world");
    let mut obs = Vec::new();
    let mut coq_runs = Vec::new();
    let mut coq_obs = Vec::new();
    let mut stale_seen = false;
    for r in input["runs"].as_array().unwrap() {
        let policy = r["policy"].as_str().unwrap();
        let mode = r["mode"].as_str().unwrap();
        let mut cfg = RunCfg { stale: policy.into(), dirty: true, validation_threads: r["threads"].as_u64().unwrap_or(1) as usize, ..RunCfg::default() };
        let coq_mode = match mode {
            "fetch" => {
                let mut plan = ServePlan::step(0);
                let mut p = Vec::new();
                for (l, x) in r["plan"].as_array().unwrap().iter().enumerate() {
                    plan.ca_version.insert(format!("L{}", l), x.as_u64().map(|v| v as usize));
                    p.push(x.as_u64());
                }
                world.serve(&plan).expect("serve");
                format!("Fetch {}", coq_olist(&p))
            }
            "unreachable" => {
                world.serve(&ServePlan { step: 0, unreachable: modules.clone(), ..Default::default() }).expect("serve");
                "Unreachable".to_string()
            }
            _ => { cfg.no_update = true; "NoUpdate".to_string() }
        };
        let out = world.run(&cfg);
        // which version of each level contributed
        let mut acc: Vec<Option<u64>> = vec![None; n];
        let mut junk = false;
        for o in &out.payload.origins {
            let a = o.asn as u64;
            if a < 1000 || a >= 1000 + 10 * n as u64 { junk = true; continue }
            let (l, v) = (((a - 1000) / 10) as usize, (a - 1000) % 10);
            if o.prefix != format!("10.{}.{}.0/24", l, v) { junk = true; }
            acc[l] = match acc[l] { None => Some(v), Some(_) => Some(99) };
        }
        let mut store: Vec<Option<u64>> = vec![None; n];
        let by_uri: BTreeMap<&str, &StoredPointOut> = out.store.iter().map(|p| (p.manifest_uri.as_str(), p)).collect();
        for l in 0..n {
            let uri = format!("rsync://{}/{}/L{}/L{}.mft", HOST, MODULE, l, l);
            if let Some(p) = by_uri.get(uri.as_str()) {
                if let Some(h) = &p.manifest_sha256 {
                    store[l] = Some(sha[l].iter().position(|s| s == h).map(|v| v as u64).unwrap_or(98));
                }
            }
        }
        let m = &out.metrics.publication;
        let res = if out.result == "ok" && !junk { 0 } else { 3 };
        stale_seen |= m.stale_manifests + m.stale_crls + m.premature_manifests > 0 || acc.iter().any(|a| a.is_none());
        obs.push(json!({"result": out.result, "acc": acc, "store": store, "valid_points": m.valid_points, "rejected_points": m.rejected_points,
                        "stale_manifests": m.stale_manifests, "stale_crls": m.stale_crls, "premature_manifests": m.premature_manifests,
                        "missing_manifests": m.missing_manifests, "invalid_manifests": m.invalid_manifests}));
        coq_runs.push(format!("{{| rs_pol := {}; rs_mode := {} |}}", match policy { "reject" => "Reject", "warn" => "Warn", _ => "Accept" }, coq_mode));
        coq_obs.push(format!("{{| ro_res := {}; ro_acc := {}; ro_store := {}; ro_valid := {}; ro_rejected := {}; ro_stale_m := {}; ro_stale_c := {}; ro_premature := {} |}}",
                             res, coq_olist(&acc), coq_olist(&store), m.valid_points, m.rejected_points, m.stale_manifests, m.stale_crls, m.premature_manifests));
    }
    let coq = format!("{{| c_chain := [{}]; c_runs := [{}]; c_impl := [{}] |}}", chain.join("; "), coq_runs.join("; "), coq_obs.join("; "));
    CaseOut { obs: json!({"runs": obs}), coq, nontrivial: stale_seen }
}

fn main() {
    act_as_rsync_if_child();
    let threads = std::env::var("C06_JOBS").ok().and_then(|s| s.parse().ok()).unwrap_or(8usize);
    drive_par(gen, run, threads);
}
