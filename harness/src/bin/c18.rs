//! C18: the /json-delta response streams (DeltaStream, SnapshotStream) vs the Coq model (coq/C18).
//! Data sets with all three payload types are placed into the real history through the hooks
//! verif_init_at / mark_update_done; the responses come from the real HTTP dispatcher, chunk by chunk.
use chrono::{TimeZone, Utc};
use routinator::payload::PayloadDelta;
use routinator::verif as hooks;
use rpki::rtr::payload::PayloadRef;
use rpki::rtr::Serial;
use rv_harness::paygen::*;
use rv_harness::srvenv::*;
use rv_harness::util::*;
use serde_json::{json, Value};

fn gen(rng: &mut Rng, tier: &str) -> Vec<(String, Value)> {
    let mut cases = Vec::new();
    let empty = json!({"origins": [], "keys": [], "aspas": []});
    // small: every payload type, empty announce / empty withdraw, single items
    let n = if tier == "thorough" { 200 } else { 40 };
    for i in 0..n {
        let mut r = rng.fork();
        let u = Universe::new(&mut r, 2 + (i % 6), (i % 4) as usize, i % 4);
        let first = match i % 5 { 0 => empty.clone(), _ => u.snap(&mut r, 1, 2) };
        let second = match i % 5 { 1 => empty.clone(), 2 => u.mutate(&mut r, &first), _ => u.snap(&mut r, 1, 2) };
        let serial = *r.pick(&[0u64, 1, 41, 4294967294, 4294967295]);
        cases.push(("small".into(), json!({"first": first, "second": second, "serial": serial, "time": 1_800_000_000u64 + r.below(1_000_000)})));
    }
    // large: cumulative length crosses the 64000 byte threshold once or several times
    // (sizes >= 1000 keep four fifths of the pool, so that the snapshot response alone is two to three chunks)
    let sizes: Vec<usize> = if tier == "thorough" { vec![380, 420, 460, 500, 900, 1400, 1200, 2000] } else { vec![470, 1200] };
    for sz in sizes {
        let mut r = rng.fork();
        let u = Universe::new(&mut r, sz, 6, 12);
        let (num, den) = if sz >= 1000 { (4, 5) } else { (1, 2) };
        let first = u.snap(&mut r, num, den);
        let second = u.snap(&mut r, num, den);
        cases.push(("large".into(), json!({"first": first, "second": second, "serial": 7, "time": 1_800_000_000u64})));
    }
    // aligned: the end of the announced list falls at chosen offsets around the 64000-byte threshold, so that
    // the chunk boundary lands before, inside and after the separator between the two lists (22 bytes)
    let targets: Vec<usize> = if tier == "thorough" { (63960..=64012).collect() } else { vec![63978, 63979, 63990, 64000, 64001] };
    for t in targets {
        if let Some(c) = aligned_case(&mut rng.fork(), t) { cases.push(("aligned".into(), c)); }
    }
    cases
}

/// length of the text DeltaStream writes for one route origin (used only to steer the generator)
fn origin_text_len(v: &Value) -> usize {
    let o = origin_of(v);
    let asn = format!("{}", o.asn);
    let prefix = format!("{}/{}", o.prefix.addr(), o.prefix.prefix_len());
    let ml = format!("{}", o.prefix.resolved_max_len());
    format!("\n    {{\n        \"type\": \"routeOrigin\",\n        \"asn\": \"{}\",\n        \"prefix\": \"{}\",\n        \"maxLength\": {}\n    }}", asn, prefix, ml).len()
}

fn aligned_case(rng: &mut Rng, target: usize) -> Option<Value> {
    let (serial, time) = (7u64, 1_800_000_000u64);
    let header = format!("{{\n  \"reset\": false,\n  \"session\": \"{}\",\n  \"serial\": {},\n  \"fromSerial\": {},\n  \"generated\": {},\n  \"generatedTime\": \"{}\",\n  \"announced\": [",
        "1790000000", serial + 1, serial, time, "2027-01-15T08:00:00Z").len();
    // pool of distinct origins with varied text lengths
    let mut pool: Vec<(Value, usize)> = Vec::new();
    let mut seen = std::collections::HashSet::new();
    while pool.len() < 900 {
        let len = rng.range(8, 24) as u32;
        let addr = (rng.next() as u32) & (!0u32 << (32 - len));
        let asn = *rng.pick(&[7u64, 64500, 4200000001, 123, 65000]) + rng.below(5);
        let v = json!([format!("{}/{}", std::net::Ipv4Addr::from(addr), len), rng.range(len as u64, 32), asn]);
        let o = origin_of(&v);
        if seen.insert((o.prefix.prefix(), o.prefix.resolved_max_len(), o.asn)) { let l = origin_text_len(&v); pool.push((v, l)); }
    }
    let withdrawn = vec![json!(["192.0.2.0/24", 24, 64999]), json!(["198.51.100.0/24", 24, 64998])];
    // greedy fill, then finish exactly with one or two items (each item after the first costs one comma)
    let mut chosen: Vec<usize> = Vec::new();
    let mut total = header;
    let mut i = 0;
    while i < pool.len() && total + 1300 < target { total += pool[i].1 + if chosen.is_empty() { 0 } else { 1 }; chosen.push(i); i += 1; }
    // subset-sum over the next 300 pool items for the exact remaining distance (each item costs its text + a comma)
    let deficit = target - total;
    let rest: Vec<usize> = (i..pool.len().min(i + 300)).collect();
    let mut reach: Vec<Option<Vec<usize>>> = vec![None; deficit + 1];
    reach[0] = Some(vec![]);
    for &a in &rest {
        let cost = pool[a].1 + 1;
        for d in (cost..=deficit).rev() {
            if reach[d].is_none() {
                if let Some(prev) = reach[d - cost].clone() { let mut v = prev; v.push(a); reach[d] = Some(v); }
            }
        }
        if reach[deficit].is_some() { break }
    }
    if let Some(extra) = reach[deficit].clone() { chosen.extend(extra); total = target; }
    else if std::env::var("C18_DEBUG").is_ok() { let mut cs: Vec<usize> = rest.iter().map(|&a| pool[a].1 + 1).collect(); cs.sort(); cs.dedup(); eprintln!("target {} deficit {} costs {:?}", target, deficit, cs); }
    if total != target { return None }
    let second: Vec<Value> = chosen.iter().map(|&k| pool[k].0.clone()).collect();
    Some(json!({"first": {"origins": withdrawn, "keys": [], "aspas": []}, "second": {"origins": second, "keys": [], "aspas": []},
        "serial": serial, "time": time, "announced_end": target}))
}

fn coq_bytes_s(s: &str) -> String { coq_nlist(s.bytes()) }

fn item_of(p: PayloadRef) -> (String, Value) {
    match p {
        PayloadRef::Origin(o) => {
            let asn = format!("{}", o.asn);
            let prefix = format!("{}/{}", o.prefix.addr(), o.prefix.prefix_len());
            let ml = format!("{}", o.prefix.resolved_max_len());
            (format!("IOrigin {} {} {}", coq_bytes_s(&asn), coq_bytes_s(&prefix), coq_bytes_s(&ml)), json!(["origin", asn, prefix, ml]))
        }
        PayloadRef::RouterKey(k) => {
            let (ki, asn, info) = (format!("{}", k.key_identifier), format!("{}", k.asn), format!("{}", k.key_info));
            (format!("IKey {} {} {}", coq_bytes_s(&ki), coq_bytes_s(&asn), coq_bytes_s(&info)), json!(["key", ki, asn, info]))
        }
        PayloadRef::Aspa(a) => {
            let cust = format!("{}", a.customer);
            let provs: Vec<String> = a.providers.iter().map(|p| format!("{}", p)).collect();
            (format!("IAspa {} {}", coq_bytes_s(&cust), coq_list(provs.iter(), |p| coq_bytes_s(p))), json!(["aspa", cust, provs]))
        }
    }
}

fn run_one(input: &Value, reset: bool) -> CaseOut {
    let env = Env::new(|c| { c.history_size = 5; });
    let first = snapshot_of(&input["first"]);
    let second = snapshot_of(&input["second"]);
    let s0 = input["serial"].as_u64().unwrap() as u32;
    let t = input["time"].as_u64().unwrap() as i64;
    // items in the order the implementation iterates them
    let (items, have_delta): (Vec<(String, Value, bool)>, bool) = if reset {
        (second.payload().map(|p| { let (c, j) = item_of(p); (c, j, false) }).collect(), true)
    } else {
        match PayloadDelta::construct(&first, &second, Serial::from(s0)) {
            Some(d) => (d.actions().map(|(p, a)| { let (c, j) = item_of(p); (c, j, a.is_withdraw()) }).collect(), true),
            None => (vec![], false),
        }
    };
    let changed = env.history.verif_init_at(Serial::from(s0), snapshot_of(&input["first"]), snapshot_of(&input["second"]));
    hooks::set_now(Some(Utc.timestamp_opt(t, 123_456_789).unwrap()));
    env.history.mark_update_done();
    hooks::set_now(None);
    let (session, serial) = env.history.read().session_and_serial();
    let cur = u32::from(serial);
    // a delta request for the version before the current one; when the data sets are equal there is no delta: ask for the current serial
    let from = if changed { s0 } else { cur };
    let path = if reset { "/json-delta".to_string() } else { format!("/json-delta?session={}&serial={}", session, from) };
    let (status, chunks) = env.get_chunks(&path);
    let gentime = Utc.timestamp_opt(t, 0).unwrap().format("%Y-%m-%dT%H:%M:%SZ").to_string();
    let head = format!("{{| h_session := {}; h_serial := {}; h_from := {}; h_generated := {}; h_gentime := {} |}}",
        coq_bytes_s(&session.to_string()), coq_bytes_s(&cur.to_string()), coq_bytes_s(&from.to_string()),
        coq_bytes_s(&t.to_string()), coq_bytes_s(&gentime));
    let items_coq = if have_delta || reset { coq_list(items.iter(), |(c, _, w)| format!("({}, {})", c, coq_bool(*w))) } else { "[]".to_string() };
    let chunks_coq = if status == 200 { coq_list(chunks.iter(), |c| coq_bytes(c)) } else { format!("[[{}]]", status) };
    let coq = format!("{{| c_reset := {}; c_head := {}; c_items := {}; i_chunks := {} |}}", coq_bool(reset), head, items_coq, chunks_coq);
    let total: usize = chunks.iter().map(|c| c.len()).sum();
    let obs = json!({"status": status, "chunks": chunks.iter().map(|c| c.len()).collect::<Vec<_>>(), "items": items.len(),
        "body_prefix": String::from_utf8_lossy(&chunks.concat()[..total.min(300)])});
    CaseOut { obs, coq, nontrivial: !items.is_empty() }
}

fn run(input: &Value) -> CaseOut { run_one(input, input["reset"].as_bool().unwrap_or(false)) }

fn gen2(rng: &mut Rng, tier: &str) -> Vec<(String, Value)> {
    // every generated data pair is used twice: as a delta response and as a snapshot (reset) response
    let mut out = Vec::new();
    for (class, v) in gen(rng, tier) {
        let mut a = v.clone(); a["reset"] = json!(false);
        let mut b = v; b["reset"] = json!(true);
        out.push((format!("{}.delta", class), a));
        if class != "aligned" { out.push((format!("{}.snapshot", class), b)); }
    }
    out
}

fn main() { drive(gen2, run) }
