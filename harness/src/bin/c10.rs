//! C10: trust anchors are bound to their TAL key — the real engine on generated repositories
//! (rv_harness::rpkigen) vs. the Coq model (coq/C10).
//!
//! A case is one TAL (key 0) with 1..3 rsync URIs (each in its own module), per URI the certificate served at each
//! step of a history (good / wrongkey / garbage / missing / expired / badsig / notyet / same-as-before), and per step
//! the run's flags (with or without collector, dirty, threads).  Every distinct certificate points to its own
//! publication point with its own ROA, so the payload shows which certificate was used; the stored trust anchor
//! file of every URI is read back after every run and identified by its bytes.
use std::collections::BTreeMap;
use rv_harness::rpkigen::*;
use rv_harness::util::*;
use serde_json::{json, Value};

const TAL_KEY: usize = 0;
const OTHER_KEY: usize = 5;
const KINDS: [&str; 6] = ["good", "wrongkey", "garbage", "missing", "expired", "badsig"];

fn run_spec(collector: bool, dirty: bool, threads: u64) -> Value { json!({"collector": collector, "dirty": dirty, "threads": threads}) }

fn case_json(uris: &[Vec<&str>], runs: Vec<Value>) -> Value { json!({"uris": uris, "runs": runs}) }

fn gen(rng: &mut Rng, tier: &str) -> Vec<(String, Value)> {
    let mut cases = Vec::new();
    // (1) one URI, every ordered pair of kinds; second run with and without collector; cleanup on / off
    for a in KINDS {
        for b in KINDS {
            cases.push(("one_uri.pair".into(), case_json(&[vec![a, b]], vec![run_spec(true, false, 1), run_spec(true, false, 1)])));
            cases.push(("one_uri.pair.dirty".into(), case_json(&[vec![a, b]], vec![run_spec(true, true, 1), run_spec(true, true, 1)])));
        }
        cases.push(("one_uri.then_no_collector".into(), case_json(&[vec![a, "same"]], vec![run_spec(true, false, 1), run_spec(false, false, 1)])));
        cases.push(("one_uri.then_no_collector.dirty".into(), case_json(&[vec![a, "same"]], vec![run_spec(true, true, 1), run_spec(false, true, 1)])));
    }
    // (2) three-step histories on one URI
    for h in [["good", "garbage", "missing"], ["good", "missing", "good"], ["garbage", "good", "garbage"], ["expired", "good", "missing"],
              ["good", "same", "wrongkey"], ["good", "wrongkey", "missing"], ["good", "expired", "garbage"], ["notyet", "good", "garbage"],
              ["good", "badsig", "missing"], ["missing", "good", "garbage"], ["wrongkey", "garbage", "good"], ["good", "good", "garbage"]] {
        cases.push(("one_uri.triple".into(), case_json(&[h.to_vec()], vec![run_spec(true, false, 1); 3])));
        cases.push(("one_uri.triple.dirty".into(), case_json(&[h.to_vec()], vec![run_spec(true, true, 1); 3])));
    }
    // (3) two URIs, every pair of kinds in one run, then everything missing (stored copies only)
    for a in KINDS {
        for b in KINDS {
            cases.push(("two_uris.pair".into(), case_json(&[vec![a, "missing"], vec![b, "missing"]],
                                                          vec![run_spec(true, true, if a == "good" { 4 } else { 1 }), run_spec(true, true, 1)])));
        }
    }
    // (4) random: 1..3 URIs, 2..3 steps
    let count = if tier == "thorough" { 1500 } else { 50 };
    for _ in 0..count {
        let mut r = rng.fork();
        let nu = r.range(1, 3) as usize;
        let steps = r.range(2, 3) as usize;
        let mut uris: Vec<Vec<&str>> = Vec::new();
        for _ in 0..nu {
            let mut v = Vec::new();
            for k in 0..steps {
                let kind = if k > 0 && r.chance(1, 6) { "same" } else if r.chance(2, 5) { "good" }
                           else { *r.pick(&["wrongkey", "garbage", "missing", "missing", "expired", "badsig", "notyet"]) };
                v.push(kind);
            }
            uris.push(v);
        }
        let runs = (0..steps).map(|_| run_spec(!r.chance(1, 6), r.chance(1, 2), if r.chance(1, 5) { 4 } else { 1 })).collect();
        cases.push(("random".into(), case_json(&uris, runs)));
    }
    cases
}

fn variant_id(uri: usize, step: usize) -> u64 { 10 * uri as u64 + step as u64 + 1 }

fn build_world(input: &Value) -> Built {
    let all = res(&["10.0.0.0/8"], &[], &[(1, 65000)]);
    let mut s = Scen::new();
    let mut uris = Vec::new();
    for (i, u) in input["uris"].as_array().unwrap().iter().enumerate() {
        let mut certs: Vec<Option<TaCertSpec>> = Vec::new();
        for (k, kind) in u.as_array().unwrap().iter().enumerate() {
            let kind = kind.as_str().unwrap();
            match kind {
                "missing" => certs.push(None),
                "same" => { let prev = certs.last().cloned().expect("'same' needs a previous step"); certs.push(prev); }
                _ => {
                    let id = format!("P{}_{}", i, k);
                    let key = if kind == "wrongkey" { OTHER_KEY } else { TAL_KEY };
                    s.add_point(&id, key, "r.example", "repo");
                    let asn = 1000 + variant_id(i, k) as u32;
                    s.add_roa(&id, &format!("r{}.roa", asn), asn, &[(&format!("10.{}.{}.0/24", i, k), None)]);
                    let cert = s.ca_cert_times();
                    let faults = match kind {
                        "garbage" => vec![Fault::Garbage], "expired" => vec![Fault::Expired], "badsig" => vec![Fault::BadSignature],
                        "notyet" => vec![Fault::NotYetValid], _ => vec![],
                    };
                    certs.push(Some(TaCertSpec { ca: id, key: Some(key), cert, resources: all.clone(), faults }));
                }
            }
        }
        uris.push(TaUriSpec { uri: format!("rsync://u{}.example/ta/t.cer", i), certs });
    }
    s.spec.tals.push(TalSpec { name: "t".into(), key: TAL_KEY, uris });
    build(&s.spec).unwrap_or_else(|e| panic!("rpkigen build: {} for {}", e, input))
}

fn coq_cert(id: u64, t: &CertTruth) -> String {
    format!("{{| tc_id := {}; tc_decodes := {}; tc_key_ok := {}; tc_valid := {}; tc_expired := {} |}}",
            id, coq_bool(t.decodes), coq_bool(t.key == TAL_KEY), coq_bool(t.decodes && t.sig_ok && t.valid_now), coq_bool(t.not_after <= 0))
}

fn coq_on(o: Option<u64>) -> String { match o { Some(x) => format!("Some {}", x), None => "None".into() } }

fn run(input: &Value) -> CaseOut {
    let world = World::new(build_world(input)).expect("world");
    let built = &world.built;
    let uris = input["uris"].as_array().unwrap();
    let nu = uris.len();
    // the variant a step of a URI serves: first step with the same description
    let first_step = |i: usize, k: usize| -> usize {
        let kinds = uris[i].as_array().unwrap();
        let mut k = k;
        while kinds[k].as_str() == Some("same") { k -= 1; }
        k
    };
    let truth_of = |i: usize, k: usize| -> Option<(u64, &CertTruth)> {
        let k = first_step(i, k);
        built.truth.tals[0].uris[i].certs[k].as_ref().map(|t| (variant_id(i, k), t))
    };
    // sanity: the ground truth carries what the kinds ask for
    for i in 0..nu {
        for (k, kind) in uris[i].as_array().unwrap().iter().enumerate() {
            let t = truth_of(i, k);
            match kind.as_str().unwrap() {
                "missing" => assert!(t.is_none()),
                "same" => {}
                "good" => { let t = t.unwrap().1; assert!(t.decodes && t.sig_ok && t.valid_now && t.key == TAL_KEY) }
                "wrongkey" => { let t = t.unwrap().1; assert!(t.decodes && t.sig_ok && t.valid_now && t.key != TAL_KEY) }
                "garbage" => assert!(!t.unwrap().1.decodes),
                "expired" => { let t = t.unwrap().1; assert!(t.decodes && !t.valid_now && t.not_after < 0) }
                "notyet" => { let t = t.unwrap().1; assert!(t.decodes && !t.valid_now && t.not_after > 0) }
                "badsig" => { let t = t.unwrap().1; assert!(t.decodes && !t.sig_ok) }
                x => panic!("unknown kind {}", x),
            }
        }
    }
    let mut cat = Vec::new();
    for i in 0..nu {
        let mut seen = Vec::new();
        for k in 0..uris[i].as_array().unwrap().len() {
            if first_step(i, k) == k { if let Some((id, t)) = truth_of(i, k) { seen.push(coq_cert(id, t)); } }
        }
        cat.push(format!("[{}]", seen.join("; ")));
    }
    // bytes -> variant id, per URI
    let mut bytes_id: Vec<BTreeMap<Vec<u8>, u64>> = vec![BTreeMap::new(); nu];
    for i in 0..nu {
        for (k, f) in built.ta_files[0][i].iter().enumerate() {
            if let Some(f) = f { bytes_id[i].entry(f.bytes.to_vec()).or_insert(variant_id(i, first_step(i, k))); }
        }
    }
    let mut obs = Vec::new();
    let mut coq_runs = Vec::new();
    let mut coq_obs = Vec::new();
    let mut nontrivial = false;
    for (k, r) in input["runs"].as_array().unwrap().iter().enumerate() {
        let collector = r["collector"].as_bool().unwrap();
        let dirty = r["dirty"].as_bool().unwrap();
        world.serve_step(k).expect("serve");
        let cfg = RunCfg { no_update: !collector, dirty, validation_threads: r["threads"].as_u64().unwrap_or(1) as usize, ..RunCfg::default() };
        let out = world.run(&cfg);
        // which certificate contributed
        let mut ids: Vec<u64> = out.payload.origins.iter().map(|o| {
            let a = o.asn as u64;
            if a > 1000 && a < 1000 + 10 * nu as u64 + 10 && o.prefix == format!("10.{}.{}.0/24", (a - 1001) / 10, (a - 1001) % 10) { a - 1000 } else { 9999 }
        }).collect();
        ids.sort(); ids.dedup();
        let ok = out.result == "ok" && ids.len() <= 1 && ids.iter().all(|i| *i != 9999);
        let used: Option<(u64, u64)> = ids.first().map(|id| ((id - 1) / 10, *id));
        // the stored trust anchor files
        let mut stored: Vec<Option<u64>> = vec![None; nu];
        let mut files_total = 0;
        for i in 0..nu {
            let dir = world.cache_dir().join("stored").join("ta").join("rsync").join(format!("u{}.example", i));
            if let Ok(rd) = std::fs::read_dir(&dir) {
                for e in rd.flatten() {
                    files_total += 1;
                    let b = std::fs::read(e.path()).unwrap_or_default();
                    let id = bytes_id[i].get(&b).copied().unwrap_or(98);
                    stored[i] = Some(if stored[i].is_some() { 97 } else { id });
                }
            }
        }
        let dls: Vec<String> = (0..nu).map(|i| {
            let kk = k.min(uris[i].as_array().unwrap().len() - 1);
            match truth_of(i, kk) { Some((id, t)) => format!("Some {}", coq_cert(id, t)), None => "None".into() }
        }).collect();
        let served_ids: Vec<Option<u64>> = (0..nu).map(|i| truth_of(i, k.min(uris[i].as_array().unwrap().len() - 1)).map(|x| x.0)).collect();
        if used.is_none() || used.map(|(j, id)| served_ids[j as usize] != Some(id)).unwrap_or(false) { nontrivial = true; }
        obs.push(json!({"result": out.result, "used": used, "stored": stored, "ta_files": files_total,
                        "valid_points": out.metrics.publication.valid_points}));
        coq_runs.push(format!("{{| r_collector := {}; r_dirty := {}; r_dls := [{}] |}}", coq_bool(collector), coq_bool(dirty), dls.join("; ")));
        coq_obs.push(format!("{{| ro_res := {}; ro_used := {}; ro_stored := {} |}}", if ok { 0 } else { 3 },
                             match used { Some((j, id)) => format!("Some ({}%nat, {})", j, id), None => "None".into() },
                             coq_list(stored.iter(), |o| coq_on(*o))));
    }
    let coq = format!("{{| c_cat := [{}]; c_runs := [{}]; c_impl := [{}] |}}", cat.join("; "), coq_runs.join("; "), coq_obs.join("; "));
    CaseOut { obs: json!({"runs": obs}), coq, nontrivial }
}

fn main() {
    act_as_rsync_if_child();
    let threads = std::env::var("C10_JOBS").ok().and_then(|s| s.parse().ok()).unwrap_or(8usize);
    drive_par(gen, run, threads);
}
