//! C19: the real `RtrListener::poll_next` (src/rtr.rs), driven by hand, vs the Coq model (coq/C19).
//!
//! A case is a script over
//!   "ok" / "fail"   a client connects over loopback (source address 127.0.1.<n+1> for arrival n); "fail" queues a
//!                   forced `RtrStream::new` failure for it (hook `routinator::verif::forced("rtr.stream.new")`);
//!                   with a keepalive the kernel rejects (> 32767 s) every arrival fails in the real `set_keepalive`
//!   "poll"          the executor looks at the listener task: polls it iff it has been woken
//!   "pollerr"       the same with RLIMIT_NOFILE lowered to 0 during the poll, so that accept(2) fails with EMFILE
//!   "tick"          more than the 100 ms accept back-off passes (only has an effect if a back-off is set)
//! after which the executor is left alone until nothing can happen any more. The listener is the real one
//! (`routinator::rtr::verif::Listener` wraps the private `RtrListener`) over a real loopback `TcpListener` inside a
//! current-thread tokio runtime; it is polled with a waker that counts wake-ups and whose clones are counted
//! (`Arc::strong_count`), so "a waker is registered somewhere" is observed directly and without waiting: no timeout
//! is ever used to conclude that something does *not* happen. Waiting is only done for events that must happen if
//! tokio and the kernel work (a registered waker is woken after a connection arrived / the timer fired); if such an
//! event does not come within 20 s the harness panics (machinery failure, not a verdict).
use std::net::{IpAddr, Ipv4Addr, SocketAddr};
use std::sync::atomic::{AtomicUsize, Ordering::SeqCst};
use std::sync::Arc;
use std::task::{Context, Poll, Wake, Waker};
use std::time::{Duration, Instant};
use routinator::metrics::RtrServerMetrics;
use routinator::rtr::verif::{Conn, Listener};
use rv_harness::util::*;
use serde_json::{json, Value};

/// Largest TCP_KEEPIDLE / TCP_KEEPINTVL Linux accepts (MAX_TCP_KEEPIDLE, MAX_TCP_KEEPINTVL).
const KEEPALIVE_MAX: u64 = 32767;

//------------ descriptor exhaustion ---------------------------------------------

#[repr(C)]
struct RLimit { cur: u64, max: u64 }
extern "C" {
    fn getrlimit(resource: i32, rlim: *mut RLimit) -> i32;
    fn setrlimit(resource: i32, rlim: *const RLimit) -> i32;
}
const RLIMIT_NOFILE: i32 = 7;

fn nofile() -> RLimit {
    let mut r = RLimit { cur: 0, max: 0 };
    assert_eq!(unsafe { getrlimit(RLIMIT_NOFILE, &mut r) }, 0, "getrlimit");
    r
}
fn set_nofile(cur: u64, max: u64) {
    let r = RLimit { cur, max };
    assert_eq!(unsafe { setrlimit(RLIMIT_NOFILE, &r) }, 0, "setrlimit");
}

//------------ counting waker ------------------------------------------------------

struct CountWaker { wakes: AtomicUsize }
impl Wake for CountWaker {
    fn wake(self: Arc<Self>) { self.wakes.fetch_add(1, SeqCst); }
    fn wake_by_ref(self: &Arc<Self>) { self.wakes.fetch_add(1, SeqCst); }
}

//------------ the hand-driven executor --------------------------------------------

struct PollRec { ready: Option<u64>, woken: bool, registered: bool, backoff: bool }

struct Exec {
    lst: Listener,
    metrics: Arc<RtrServerMetrics>,
    addr: SocketAddr,
    cw: Arc<CountWaker>,
    waker: Waker,
    /// wake-ups already honoured by a poll
    consumed: usize,
    /// the consumer asks for the next item right after a Ready(Some(_))
    run_flag: bool,
    polls: Vec<PollRec>,
    conns: Vec<Conn>,
    out: Vec<u64>,
    clients: Vec<tokio::net::TcpStream>,
    backoff_since: Option<Instant>,
    ticked: bool,
    /// a back-off was polled for the first time suspiciously late: timing of this run is not the script's
    disturbed: bool,
    /// the stream has ended
    dead: bool,
}

impl Exec {
    fn woken(&self) -> bool { !self.dead && (self.run_flag || self.cw.wakes.load(SeqCst) != self.consumed) }
    /// clones of the waker held by somebody else (we hold the Arc and the Waker made from it)
    fn live(&self) -> usize { Arc::strong_count(&self.cw) - 2 }

    async fn wait_woken(&self, what: &str) {
        let t0 = Instant::now();
        let mut spins = 0u32;
        while !self.woken() {
            if t0.elapsed() > Duration::from_secs(20) { panic!("machinery: no wake-up within 20 s while waiting for {}", what); }
            if spins < 64 { tokio::task::yield_now().await; } else { tokio::time::sleep(Duration::from_millis(1)).await; }
            spins += 1;
        }
    }

    fn id_of(&self, conn: &Conn) -> u64 {
        let ptr = conn.client_ptr().expect("per-client metrics are on");
        let list = self.metrics.clients().unwrap();
        for (ip, data) in list.iter() {
            if Arc::as_ptr(data) as usize == ptr {
                if let IpAddr::V4(ip) = ip { return ip.octets()[3] as u64 - 1 }
            }
        }
        panic!("returned stream's metrics entry is not in the client list")
    }

    fn poll(&mut self, emfile: bool) {
        if !self.woken() { return }
        self.consumed = self.cw.wakes.load(SeqCst);
        self.run_flag = false;
        if let Some(t0) = self.backoff_since {
            if !self.ticked && t0.elapsed() > Duration::from_millis(60) { self.disturbed = true; }
        }
        let had_backoff = self.lst.has_backoff();
        let lim = nofile();
        if emfile { set_nofile(0, lim.max); }
        let r = {
            let mut ctx = Context::from_waker(&self.waker);
            self.lst.poll_next(&mut ctx)
        };
        if emfile { set_nofile(lim.cur, lim.max); }
        let ready = match r {
            Poll::Pending => None,
            Poll::Ready(Ok(conn)) => {
                let id = self.id_of(&conn);
                self.conns.push(conn);
                self.out.push(id);
                self.run_flag = true;
                Some(id)
            }
            // the stream ended or yielded an error: rpki's Server::run returns, the listener is gone.
            // Reported as a bogus hand-out so that the oracle rejects the run.
            Poll::Ready(Err(_)) => { self.out.push(777_777); self.dead = true; Some(777_777) }
        };
        let backoff = self.lst.has_backoff();
        if backoff && !had_backoff { self.backoff_since = Some(Instant::now()); self.ticked = false; }
        if !backoff { self.backoff_since = None; }
        self.polls.push(PollRec { ready, woken: self.woken(), registered: self.live() > 0, backoff });
    }

    async fn arrive(&mut self) {
        let n = self.clients.len();
        let sock = tokio::net::TcpSocket::new_v4().expect("socket");
        sock.bind(SocketAddr::new(Ipv4Addr::new(127, 0, 1, (n + 1) as u8).into(), 0)).expect("bind 127.0.1.x");
        let client = sock.connect(self.addr).await.expect("connect");
        self.clients.push(client);
        // a waker registered with the socket is woken by the arrival: wait for it, so that what the next poll
        // sees does not depend on when the I/O driver runs
        if !self.dead && !self.woken() && self.live() > 0 && !self.lst.has_backoff() {
            self.wait_woken("the arrival of a connection to wake the registered waker").await;
        }
    }

    async fn tick(&mut self) {
        if self.lst.has_backoff() {
            tokio::time::sleep(Duration::from_millis(130)).await;
            self.ticked = true;
        }
    }

    /// the fair executor left alone
    async fn finish(&mut self) {
        loop {
            if self.woken() { self.poll(false); }
            else if !self.dead && self.lst.has_backoff() && self.live() > 0 {
                self.wait_woken("the back-off timer to fire").await;
                self.ticked = true;
            }
            else { break }
        }
    }
}

struct Outcome { polls: Vec<PollRec>, out: Vec<u64>, counts: Vec<(String, usize)>, global: usize, setups: u64, disturbed: bool }

fn play(keepalive: Option<u64>, script: &[String]) -> Outcome {
    routinator::verif::reset();
    // one value per arrival in accept order (1 = fail), then an explicit "no failure" that stays in place
    let mut forced: Vec<u64> = script.iter().filter(|t| *t == "ok" || *t == "fail").map(|t| (t == "fail") as u64).collect();
    forced.push(0);
    routinator::verif::set_forced("rtr.stream.new", forced);
    let rt = tokio::runtime::Builder::new_current_thread().enable_all().build().expect("runtime");
    let out = rt.block_on(async {
        let std_listener = std::net::TcpListener::bind("127.0.0.1:0").expect("bind");
        std_listener.set_nonblocking(true).unwrap();
        let addr = std_listener.local_addr().unwrap();
        let metrics = Arc::new(RtrServerMetrics::new(true));
        let lst = Listener::new(std_listener, keepalive.map(Duration::from_secs), metrics.clone()).expect("listener");
        let cw = Arc::new(CountWaker { wakes: AtomicUsize::new(0) });
        let waker = Waker::from(cw.clone());
        let mut ex = Exec {
            lst, metrics, addr, cw, waker, consumed: 0, run_flag: true, polls: Vec::new(), conns: Vec::new(),
            out: Vec::new(), clients: Vec::new(), backoff_since: None, ticked: false, disturbed: false, dead: false,
        };
        // the first poll of the task (Server::run starts by asking for the first connection): nothing has
        // connected, the waker goes to the socket. Not part of the script; the model starts after it.
        ex.poll(false);
        let first = ex.polls.pop().unwrap();
        assert!(first.ready.is_none() && !first.woken && first.registered && !first.backoff, "machinery: unexpected first poll");
        for tok in script {
            match tok.as_str() {
                "ok" | "fail" => ex.arrive().await,
                "poll" => ex.poll(false),
                "pollerr" => ex.poll(true),
                "tick" => ex.tick().await,
                t => panic!("unknown script token {}", t),
            }
        }
        ex.finish().await;
        let counts = ex.metrics.clients().unwrap().iter().map(|(ip, d)| (ip.to_string(), d.current_connections())).collect();
        let global = ex.metrics.global().current_connections();
        Outcome { polls: std::mem::take(&mut ex.polls), out: ex.out.clone(), counts, global,
                  setups: routinator::verif::counter("rtr.stream.new"), disturbed: ex.disturbed }
    });
    drop(rt);
    out
}

fn run(input: &Value) -> CaseOut {
    let keepalive = input["keepalive"].as_u64();
    let script: Vec<String> = input["script"].as_array().unwrap().iter().map(|t| t.as_str().unwrap().to_string()).collect();
    let mut o = play(keepalive, &script);
    let mut tries = 1;
    while o.disturbed && tries < 6 { o = play(keepalive, &script); tries += 1; }
    if o.disturbed { panic!("machinery: the process was stalled for more than 60 ms six times in a row") }
    let rejects = keepalive.map(|k| k > KEEPALIVE_MAX).unwrap_or(false);
    let evs = coq_list(script.iter(), |t| match t.as_str() {
        "ok" => if rejects { "EArrive KFail".into() } else { "EArrive KOk".into() },
        "fail" => "EArrive KFail".into(),
        "poll" => "EPoll false".into(),
        "pollerr" => "EPoll true".into(),
        _ => "ETick".to_string(),
    });
    let polls = coq_list(o.polls.iter(), |p| format!("({}, {}, {}, {})",
        coq_opt(p.ready.map(|i| i.to_string())), coq_bool(p.woken), coq_bool(p.registered), coq_bool(p.backoff)));
    // side condition checked here: the open-connection counts are those of the streams handed out
    let counted: usize = o.counts.iter().map(|c| c.1).sum();
    let side_ok = counted == o.out.len() && o.global == o.out.len();
    let coq = format!("{{| c_script := {}; c_impl := {{| o_polls := {}; o_out := {} |}} |}}",
        evs, polls, if side_ok { coq_nlist(o.out.iter()) } else { "[888888]".into() });
    let obs = json!({
        "polls": o.polls.iter().map(|p| json!({"ready": p.ready, "woken_after": p.woken, "waker_registered_after": p.registered, "backoff_after": p.backoff})).collect::<Vec<_>>(),
        "handed_out": o.out, "open_connections": o.counts.iter().map(|c| json!([c.0, c.1])).collect::<Vec<_>>(),
        "open_connections_global": o.global, "stream_new_calls": o.setups, "runs": tries,
    });
    let nontrivial = script.iter().any(|t| t == "fail" || t == "pollerr") || (rejects && script.iter().any(|t| t == "ok"));
    CaseOut { obs, coq, nontrivial }
}

fn gen(rng: &mut Rng, tier: &str) -> Vec<(String, Value)> {
    let mut cases: Vec<(String, Value)> = Vec::new();
    let mk = |ka: Option<u64>, s: &[&str]| json!({"keepalive": ka, "script": s});
    // (a) exhaustive small scope: every script over {ok, fail, poll} up to length 5 (6 in the thorough tier)
    let maxlen = if tier == "thorough" { 6 } else { 5 };
    let alpha = ["ok", "fail", "poll"];
    let mut level: Vec<Vec<&str>> = vec![vec![]];
    for _ in 0..=maxlen {
        for s in &level { cases.push((format!("exhaustive.len{}", s.len()), mk(None, s))); }
        let mut next = Vec::new();
        for s in &level { for a in alpha { let mut t = s.clone(); t.push(a); next.push(t); } }
        level = next;
    }
    // (b) boundary classes = the case split of the proof: (woken?, back-off: none / set / polled / elapsed, queue)
    let timed: Vec<Vec<&str>> = vec![
        vec!["pollerr"], vec!["tick"], vec!["ok", "tick", "poll"],
        vec!["ok", "pollerr"], vec!["ok", "pollerr", "poll"], vec!["ok", "pollerr", "tick"],
        vec!["ok", "pollerr", "tick", "poll"], vec!["ok", "pollerr", "poll", "tick"],
        vec!["ok", "pollerr", "poll", "tick", "poll"], vec!["ok", "pollerr", "poll", "poll", "ok"],
        vec!["fail", "pollerr", "ok"], vec!["fail", "pollerr", "poll", "ok", "fail", "tick"],
        vec!["ok", "poll", "pollerr"], vec!["ok", "ok", "poll", "pollerr"], vec!["ok", "ok", "poll", "pollerr", "fail"],
        vec!["ok", "pollerr", "ok", "poll", "pollerr"], vec!["fail", "ok", "pollerr", "tick", "pollerr"],
        vec!["fail", "fail", "pollerr", "poll", "tick", "poll", "ok"],
    ];
    for s in &timed { cases.push(("boundary.accept_error_backoff".into(), mk(None, s))); }
    // (c) keepalive settings the kernel accepts / rejects (the real set_keepalive path, no forced failure needed)
    for ka in [1u64, 60, KEEPALIVE_MAX, KEEPALIVE_MAX + 1, 40000, 4_000_000_000, 10_000_000_000] {
        for s in [vec!["ok"], vec!["ok", "ok", "poll", "ok"], vec!["ok", "poll", "fail", "ok", "poll", "poll"], vec!["ok", "ok", "ok"]] {
            cases.push((if ka > KEEPALIVE_MAX { "keepalive.rejected" } else { "keepalive.accepted" }.into(), mk(Some(ka), &s)));
        }
    }
    // (d) structured random: longer scripts, mostly arrivals and polls, few accept errors / ticks
    let n = if tier == "thorough" { 1500 } else { 200 };
    for i in 0..n {
        let mut r = rng.fork();
        let len = r.range(6, 16);
        let timers = i % 12 == 0;
        let mut s: Vec<&str> = Vec::new();
        let pfail = r.range(1, 9);
        for _ in 0..len {
            let x = r.below(20);
            s.push(if x < 8 { if r.below(10) < pfail { "fail" } else { "ok" } }
                   else if timers && x == 8 { "pollerr" } else if timers && x == 9 { "tick" } else { "poll" });
        }
        cases.push((if timers { "random.with_accept_errors" } else { "random" }.into(), mk(None, &s)));
    }
    // (no malformed stream: the input is a schedule, there is nothing to parse)
    cases
}

fn main() { drive(gen, run) }
