//! C13/C14: SharedHistory (update, diff, full, notify) vs the Coq model (coq/C13).
//! Data sets are made from SLURM prefix assertions and installed through the public
//! `SharedHistory::update`; `verif_init_at` (hook) places the serial anywhere in the 32-bit space.
use routinator::config::Config;
use routinator::metrics::{Metrics, TalMetrics};
use routinator::payload::{PayloadSnapshot, PublishInfo, SharedHistory, ValidationReport};
use rpki::repository::tal::TalInfo;
use rpki::repository::x509::{Time, Validity};
use rpki::resources::asn::{Asn, SmallAsnSet};
use std::sync::Arc;
use routinator::slurm::LocalExceptions;
use rpki::rtr::server::{PayloadDiff, PayloadSet, PayloadSource};
use rpki::rtr::{Serial, State};
use rv_harness::paygen::*;
use rv_harness::util::*;
use serde_json::{json, Value};

fn slurm_of(spec: &Value) -> LocalExceptions {
    let e = vec![];
    let pa: Vec<Value> = spec["origins"].as_array().unwrap_or(&e).iter().map(|o| {
        let mut m = json!({"asn": o[2], "prefix": o[0]});
        if !o[1].is_null() { m["maxPrefixLength"] = o[1].clone(); }
        m
    }).collect();
    let j = json!({"slurmVersion": 1,
        "validationOutputFilters": {"prefixFilters": [], "bgpsecFilters": []},
        "locallyAddedAssertions": {"prefixAssertions": pa, "bgpsecAssertions": []}});
    LocalExceptions::from_json(&j.to_string(), false).expect("slurm")
}

/// The validation report of a data set: its ASPAs (SLURM cannot assert them) as one publication point through the
/// hook `ValidationReport::verif_push_point`; route origins come from `slurm_of`.
fn report_of(spec: &Value, config: &Config) -> ValidationReport {
    let report = ValidationReport::new(config);
    let e = vec![];
    let aspas: Vec<(Asn, SmallAsnSet)> = spec["aspas"].as_array().unwrap_or(&e).iter().map(|a| {
        let mut ps: Vec<u32> = a[1].as_array().unwrap().iter().map(|x| x.as_u64().unwrap() as u32).collect();
        ps.sort(); ps.dedup();
        (Asn::from_u32(a[0].as_u64().unwrap() as u32), unsafe { SmallAsnSet::from_vec_unchecked(ps.into_iter().map(Asn::from_u32).collect()) })
    }).collect();
    if !aspas.is_empty() {
        let info = Arc::new(PublishInfo {
            tal: Arc::new(TalInfo::from_name("t".into())), uri: None,
            roa_validity: Validity::new(Time::utc(2020, 1, 1, 0, 0, 0), Time::utc(2040, 1, 1, 0, 0, 0)),
            chain_validity: Validity::new(Time::utc(2020, 1, 1, 0, 0, 0), Time::utc(2040, 1, 1, 0, 0, 0)),
            point_stale: Time::utc(2040, 1, 1, 0, 0, 0),
        });
        report.verif_push_point(0, Time::utc(2039, 1, 1, 0, 0, 0), Vec::new(), Vec::new(), aspas, info);
    }
    report
}

fn origins_only(u: &Universe, rng: &mut Rng, num: u64, den: u64) -> Value {
    let mut s = u.snap(rng, num, den);
    s["keys"] = json!([]);
    s["aspas"] = json!([]);
    s
}

fn gen(rng: &mut Rng, tier: &str) -> Vec<(String, Value)> {
    let mut cases = Vec::new();
    let n = if tier == "thorough" { 3000 } else { 400 };
    let bases: [u64; 8] = [0, 1, 5, 0x7FFF_FFFD, 0x8000_0000, 0xFFFF_FFFB, 0xFFFF_FFFE, 0xFFFF_FFFF];
    for i in 0..n {
        let mut r = rng.fork();
        // every fourth case: data sets with ASPAs (a change of the provider set alone is a change of the data set)
        let with_aspas = i % 4 == 3;
        let u = Universe::new(&mut r, 3 + (i % 5), 0, if with_aspas { 3 } else { 1 });
        let keep = *r.pick(&[0u64, 1, 1, 2, 2, 3, 5, 10]);
        let init = if i % 3 == 0 { Value::Null } else {
            let first = origins_only(&u, &mut r, 1, 2);
            let mut second = origins_only(&u, &mut r, 1, 2);
            let norm = |v: &Value| { let mut a: Vec<String> = v["origins"].as_array().unwrap().iter().map(|x| x.to_string()).collect(); a.sort(); a };
            if norm(&second) == norm(&first) { second["origins"].as_array_mut().unwrap().push(json!(["192.0.2.0/24", 24, 64999])); }
            let base = *r.pick(&bases);
            json!({"serial": base, "first": first, "second": second})
        };
        let nupd = r.range(0, 9);
        let mut updates = Vec::new();
        let mut prev = if init.is_null() { origins_only(&u, &mut r, 1, 2) } else { init["second"].clone() };
        if with_aspas { let mut s = u.snap(&mut r, 2, 3); s["keys"] = json!([]); s["origins"] = prev["origins"].clone(); prev = s; }
        let mut first_update = with_aspas;
        for _ in 0..nupd {
            let next = if first_update { first_update = false; prev.clone() } else { match r.below(if with_aspas { 8 } else { 6 }) {
                0 => prev.clone(),                                   // no change
                1 => { let mut s = origins_only(&u, &mut r, 1, 2); if with_aspas { s["aspas"] = prev["aspas"].clone(); } s }
                6 | 7 => {
                    // nothing but the provider set of one ASPA changes (or, without ASPAs, nothing at all)
                    let mut m = prev.clone();
                    let n = m["aspas"].as_array().map(|a| a.len()).unwrap_or(0);
                    if n > 0 { let k = r.below(n as u64) as usize; m["aspas"][k][1] = json!(u.provs(&mut r)); }
                    m
                }
                _ => { let mut m = u.mutate(&mut r, &prev); m["keys"] = json!([]); if !with_aspas { m["aspas"] = json!([]); } m }
            } };
            updates.push(next.clone());
            prev = next;
        }
        // queries: every boundary class relative to the final serial is added in run(); here random extras
        let extra: Vec<u64> = (0..3).map(|_| r.next() & 0xFFFF_FFFF).collect();
        let class = format!("keep{}.{}{}", keep, if init.is_null() { "from0" } else { "wrap" }, if with_aspas { ".aspas" } else { "" });
        cases.push((class, json!({"keep": keep, "init": init, "updates": updates, "extra_queries": extra})));
    }
    cases
}

fn collect_set(mut it: impl PayloadSet) -> Vec<rpki::rtr::payload::Payload> {
    let mut v = Vec::new();
    while let Some(p) = it.next() { v.push(match p {
        rpki::rtr::payload::PayloadRef::Origin(o) => rpki::rtr::payload::Payload::Origin(o),
        rpki::rtr::payload::PayloadRef::RouterKey(k) => rpki::rtr::payload::Payload::RouterKey(k.clone()),
        rpki::rtr::payload::PayloadRef::Aspa(a) => rpki::rtr::payload::Payload::Aspa(a.clone()),
    }) }
    v
}

fn run(input: &Value) -> CaseOut {
    let dir = std::env::temp_dir();
    let mut config = Config::default_with_paths(Default::default(), dir);
    let keep = input["keep"].as_u64().unwrap();
    config.history_size = keep as usize;
    config.enable_aspa = true;
    let hist = SharedHistory::from_config(&config);
    // all data sets of the case, for the rank encoding
    let mut specs: Vec<Value> = Vec::new();
    if !input["init"].is_null() { specs.push(input["init"]["first"].clone()); specs.push(input["init"]["second"].clone()); }
    specs.extend(input["updates"].as_array().unwrap().iter().cloned());
    let snaps: Vec<PayloadSnapshot> = specs.iter().map(snapshot_of).collect();
    let r = Ranker::new(snaps.iter());

    let ready0 = hist.ready();
    let mut coq_init = "None".to_string();
    let mut k = 0;
    if !input["init"].is_null() {
        let s0 = input["init"]["serial"].as_u64().unwrap() as u32;
        let ok = hist.verif_init_at(Serial::from(s0), snapshot_of(&specs[0]), snapshot_of(&specs[1]));
        assert!(ok, "init data sets must differ");
        coq_init = format!("(Some ({}, {}, {}))", s0, coq_snapshot(&snaps[0], &r), coq_snapshot(&snaps[1], &r));
        k = 2;
    }
    let mut upd_obs = Vec::new();
    for spec in &specs[k..] {
        // the report's publication point refers to TAL 0: the metrics need an entry for it
        let mut metrics = Metrics::default();
        metrics.tals = vec![TalMetrics::new(Arc::new(TalInfo::from_name("t".into())))];
        let changed = hist.update(report_of(spec, &config), &slurm_of(spec), metrics);
        let st = hist.notify();
        upd_obs.push((changed, u32::from(st.serial()), hist.verif_delta_count()));
    }
    let st = hist.notify();
    let cur = u32::from(st.serial());
    let sess = st.session();
    let ready = hist.ready();
    let (fst, fset) = hist.full();
    let full_items = collect_set(fset);
    let full_ok = fst.session() == sess && u32::from(fst.serial()) == cur;
    let full_coq = format!("{{| origins := {}; rkeys := {}; aspas := {} |}}",
        coq_list(full_items.iter().filter_map(|p| match p { rpki::rtr::payload::Payload::Origin(o) => Some(format!("({},tt)", r.origin(o))), _ => None }), |x| x),
        coq_list(full_items.iter().filter_map(|p| match p { rpki::rtr::payload::Payload::RouterKey(k) => Some(format!("({},tt)", r.key(k))), _ => None }), |x| x),
        coq_list(full_items.iter().filter_map(|p| match p { rpki::rtr::payload::Payload::Aspa(a) =>
            Some(format!("({},{})", a.customer.into_u32(), coq_nlist(a.providers.iter().map(|x| x.into_u32())))), _ => None }), |x| x));
    // queries: boundary classes relative to the current serial + extras
    let mut qs: Vec<(bool, u32)> = Vec::new();
    let half = 0x8000_0000u32;
    for d in [0u32, 1, 2, 3, 4, 5, 6, 9, 10, 11, 12] { qs.push((true, cur.wrapping_sub(d))); }
    for d in [1u32, 2, half - 1, half, half + 1] { qs.push((true, cur.wrapping_add(d))); }
    for d in [0u32, 1] { qs.push((true, d)); }
    qs.push((false, cur));
    qs.push((false, cur.wrapping_sub(1)));
    for x in input["extra_queries"].as_array().unwrap() { qs.push((true, x.as_u64().unwrap() as u32)); }
    let mut ans_json = Vec::new();
    let mut ans_coq = Vec::new();
    let mut aspa_coq = Vec::new();
    for (own, c) in &qs {
        let session = if *own { sess } else { sess.wrapping_add(1) };
        let res = hist.diff(State::from_parts(session, Serial::from(*c)));
        match res {
            None => { ans_json.push(json!({"own": own, "serial": c, "answer": null})); ans_coq.push(format!("({},{},None)", coq_bool(*own), c));
                      aspa_coq.push(format!("({},{},None)", coq_bool(*own), c)); }
            Some((st2, mut diff)) => {
                let mut acts = Vec::new();
                let mut aspa_acts: Vec<(u32, Vec<u32>, bool)> = Vec::new();
                while let Some((p, a)) = diff.next() {
                    // the route origin part and the ASPA part of a change set are judged separately
                    match p {
                        rpki::rtr::payload::PayloadRef::Origin(o) => acts.push((r.origin(&o), a.is_withdraw())),
                        rpki::rtr::payload::PayloadRef::Aspa(x) => aspa_acts.push((x.customer.into_u32(), x.providers.iter().map(|y| y.into_u32()).collect(), a.is_withdraw())),
                        _ => { }
                    }
                }
                aspa_coq.push(format!("({},{},Some {})", coq_bool(*own), c,
                    coq_list(aspa_acts.iter(), |(k, p, w)| format!("({},{},{})", k, coq_nlist(p.iter()), coq_bool(*w)))));
                let tag_ok = st2.session() == sess;
                ans_json.push(json!({"own": own, "serial": c, "answer": {"tag": u32::from(st2.serial()), "session_ok": tag_ok, "actions": acts}}));
                ans_coq.push(format!("({},{},Some ({},{}))", coq_bool(*own), c,
                    if tag_ok { u32::from(st2.serial()) as u64 } else { 999_999_999_999 },
                    coq_list(acts.iter(), |(k, w)| format!("({},tt,{})", k, coq_bool(*w)))));
            }
        }
    }
    let obs = json!({"ready_before": ready0, "ready": ready, "serial": cur, "updates": upd_obs, "full_ok": full_ok,
        "full": full_items.len(), "answers": ans_json});
    let coq = format!(
        "{{| c_keep := {}; c_init := {}; c_updates := {}; i_updates := {}; i_ready0 := {}; i_ready := {}; i_serial := {}; i_full := {}; i_answers := {}; i_aspa_answers := {} |}}",
        keep, coq_init,
        coq_list(snaps[k..].iter(), |s| coq_snapshot(s, &r)),
        coq_list(upd_obs.iter(), |(c, s, n)| format!("({},{},{})", coq_bool(*c), s, n)),
        coq_bool(ready0), coq_bool(ready), if full_ok { cur as u64 } else { 999_999_999_999 }, full_coq,
        format!("[{}]", ans_coq.join("; ")), format!("[{}]", aspa_coq.join("; ")));
    let answered = ans_json.iter().filter(|a| !a["answer"].is_null()).count();
    CaseOut { obs, coq, nontrivial: answered >= 2 }
}

fn main() { drive(gen, run) }
