//! C28: every persisted record reads back as written.
//!
//! For each generated value the real encoder of /repo (Compose impls of utils::binio, the
//! read/write functions of the store records, RepositoryState::compose/parse through a hook)
//! produces bytes; the real decoder is run on those bytes followed by `rest`.  The Coq side
//! (coq/C28/Spec.v) compares the bytes with the model encoder byte for byte, runs the model
//! decoder on the implementation's bytes, and evaluates the round-trip oracle on what the
//! implementation returned.
#[path = "../binrec.rs"]
mod binrec;

use binrec::*;
use rv_harness::util::*;
use serde_json::{json, Value};
use std::panic::{catch_unwind, AssertUnwindSafe};

fn case(class: &str, kind: &str, value: Value, rest: &[u8]) -> (String, Value) {
    (format!("{}.{}", class, kind), json!({"kind": kind, "value": value, "rest": hex(rest)}))
}

fn gen_rest(rng: &mut Rng) -> Vec<u8> {
    match rng.below(4) {
        0 => vec![],
        1 => gen_bytes(rng, 1),
        2 => { let n = rng.range(1, 24) as usize; gen_bytes(rng, n) }
        // something that looks like the start of another record (objects follow each other in a stored point)
        _ => { let mut v = vec![0, 0, 0, 30]; v.extend_from_slice(b"rsync://host/m/x"); v }
    }
}

fn uri_of_len(scheme: &str, n: usize) -> String {
    let mut s = format!("{}://h/m/", scheme);
    while s.len() < n { s.push('a'); }
    s
}

fn gen(rng: &mut Rng, tier: &str) -> Vec<(String, Value)> {
    let mut cases = Vec::new();
    let mut big = Vec::new();     // cases that are expensive to evaluate inside Coq; spread over the list at the end
    let h32 = |x: u8| hex(&[x; 32]);
    // (a) exhaustive small scope
    for n in 0..256u64 { cases.push(case("exhaustive", "u8", json!(n), &[])); }
    for &o in &[false, true] { for &s in &[false, true] {
        cases.push(case("exhaustive", "header", json!({
            "manifest_uri": "rsync://a/b/c.mft", "rpki_notify": if o { json!("https://a/n.xml") } else { Value::Null },
            "success": s, "time": 1700000000}), &[7]));
    } }
    for &h in &[false, true] { for &c in &["", "00", "ff00ff"] {
        cases.push(case("exhaustive", "object", json!({
            "uri": "rsync://a/b/o.roa", "hash": if h { json!(h32(0xAB)) } else { Value::Null }, "content": c}), &[]));
    } }
    for lm in [Value::Null, json!(0), json!(-1)] { for etag in [Value::Null, json!(""), json!("5722")] { for n in 0..3u64 {
        let m: Vec<Value> = (0..n).map(|i| json!([10 + i, h32(i as u8)])).collect();
        cases.push(case("exhaustive", "state", json!({
            "rpki_notify": "https://h/n.xml", "session": hex(&[1; 16]), "serial": 7, "updated_ts": 5, "best_before_ts": -5,
            "last_modified_ts": lm, "etag": etag, "delta_state": m}), &[]));
    } } }
    for k in ["opt_i64", "opt_https", "opt_bytes", "opt_time"] { cases.push(case("exhaustive", k, Value::Null, &[1, 2, 3])); }
    // (b) boundary classes (the case splits of the proofs: widths, sign, markers, chunk size, time range)
    for x in [0u64, 1, 255, 256, 65535, 65536, (1 << 24) - 1, 1 << 24, u32::MAX as u64 - 1, u32::MAX as u64] {
        cases.push(case("boundary", "u32", json!(x), &[]));
    }
    for x in [0u64, 1, 255, 256, u32::MAX as u64, 1 << 32, (1 << 63) - 1, 1 << 63, u64::MAX - 1, u64::MAX] {
        cases.push(case("boundary", "u64", json!(x), &[9]));
    }
    for x in [0i64, 1, -1, 127, 128, -128, -129, i64::MAX, i64::MAX - 1, i64::MIN, i64::MIN + 1, 1 << 32, -(1 << 32)] {
        cases.push(case("boundary", "i64", json!(x), &[]));
        cases.push(case("boundary", "opt_i64", json!(x), &[]));
    }
    for x in [TIME_MIN, TIME_MIN + 1, TIME_MAX, TIME_MAX - 1, 0, -1, 1, 253402300799, 253402300800] {
        cases.push(case("boundary", "time", json!(x), &[]));
        cases.push(case("boundary", "opt_time", json!(x), &[0xFF]));
        cases.push(case("boundary", "stored_status", json!({"time": x}), &[]));
        cases.push(case("boundary", "status", json!({"success": x % 2 == 0, "time": x}), &[]));
    }
    // byte strings around the read chunk size (65536) of the fixed decoder, and short ones
    for n in [0usize, 1, 2, 255, 256, 257] {
        let b: Vec<u8> = (0..n).map(|i| (i * 7 + n) as u8).collect();
        cases.push(case("boundary.len", "bytes", json!(hex(&b)), &[1]));
        cases.push(case("boundary.len", "opt_bytes", json!(hex(&b)), &[]));
    }
    let big_bytes: &[usize] = if tier == "thorough" { &[65535, 65536, 65537, 131072, 131073, 200000] } else { &[65536, 65537, 131073] };
    for &n in big_bytes {
        let b: Vec<u8> = (0..n).map(|i| (i * 7 + n) as u8).collect();
        big.push(case("boundary.chunk", "bytes", json!(hex(&b)), &[1]));
        if tier == "thorough" { big.push(case("boundary.chunk", "opt_bytes", json!(hex(&b)), &[])); }
    }
    for n in [14usize, 255, 256] {
        cases.push(case("boundary.len", "rsync", json!(uri_of_len("rsync", n)), &[]));
        cases.push(case("boundary.len", "https", json!(uri_of_len("https", n)), &[]));
        cases.push(case("boundary.len", "opt_https", json!(uri_of_len("https", n)), &[0]));
    }
    big.push(case("boundary.chunk", "rsync", json!(uri_of_len("rsync", 65537)), &[]));
    big.push(case("boundary.chunk", "opt_https", json!(uri_of_len("https", 65536)), &[0]));
    if tier == "thorough" {
        big.push(case("boundary.chunk", "https", json!(uri_of_len("https", 65537)), &[]));
        big.push(case("boundary.chunk", "rsync", json!(uri_of_len("rsync", 65536)), &[]));
        big.push(case("boundary.chunk", "https", json!(uri_of_len("https", 70000)), &[]));
    }
    cases.push(case("boundary", "https", json!("https://"), &[]));
    cases.push(case("boundary", "opt_https", json!("HTTPS://"), &[]));
    cases.push(case("boundary", "rsync", json!("rsync://a/b/"), &[]));
    cases.push(case("boundary", "rsync", json!("RSYNC://a/b/c/"), &[]));
    for first in [0u8, 1, 0x7F] { for fill in [0u8, 0xFF] {
        let mut s = vec![fill; 20]; s[0] = first;
        cases.push(case("boundary", "serial", json!(hex(&s)), &[]));
    } }
    for x in [0u8, 0xFF] { cases.push(case("boundary", "uuid", json!(hex(&[x; 16])), &[])); cases.push(case("boundary", "hash", json!(h32(x)), &[])); }
    // maps: empty, one, extreme keys, many entries
    cases.push(case("boundary", "map", json!([]), &[]));
    cases.push(case("boundary", "map", json!([[0, h32(0)]]), &[]));
    cases.push(case("boundary", "map", json!([[0, h32(1)], [1u64 << 63, h32(2)], [u64::MAX - 1, h32(3)], [u64::MAX, h32(4)]]), &[5]));
    for n in [17u64, if tier == "thorough" { 300 } else { 100 }] {
        let mut r = rng.fork();
        let m: Vec<Value> = (0..n).map(|i| json!([1000 + i, hex(&gen_bytes(&mut r, 32))])).collect();
        cases.push(case("boundary.many", "map", json!(m.clone()), &[]));
        cases.push(case("boundary.many", "state", json!({
            "rpki_notify": "https://rrdp.example.net/notification.xml", "session": hex(&gen_bytes(&mut r, 16)), "serial": 1000 + n,
            "updated_ts": 1700000000, "best_before_ts": 1700003600, "last_modified_ts": 1699999999,
            "etag": hex(b"W/\"abc\""), "delta_state": m}), &[]));
    }
    // a stored manifest and object with contents beyond one chunk
    {
        let mut r = rng.fork();
        let big_content = hex(&(0..70000usize).map(|i| (i * 3 + 1) as u8).collect::<Vec<u8>>());
        big.push(case("boundary.chunk", "manifest", json!({
            "not_after": 1800000000, "manifest_number": hex(&gen_serial(&mut r)), "this_update": 1700000000,
            "ca_repository": "rsync://h/m/ca/", "manifest": big_content, "crl_uri": "rsync://h/m/ca/x.crl", "crl": "3000"}), &[]));
        if tier == "thorough" { big.push(case("boundary.chunk", "object", json!({"uri": "rsync://h/m/ca/x.roa", "hash": h32(9), "content": hex(&(0..66000usize).map(|i| (i * 5) as u8).collect::<Vec<u8>>())}), &[])); }
    }
    // (c) structured random values of every kind
    let n = if tier == "thorough" { 400 } else { 60 };
    for kind in KINDS {
        for _ in 0..n {
            let mut r = rng.fork();
            let v = gen_value(&mut r, kind, false);
            let rest = gen_rest(&mut r);
            cases.push(case("random", kind, v, &rest));
        }
    }
    // (d) times with a sub-second part (Time::now()): the format stores whole seconds (DESIGN.md section 8)
    for kind in KINDS.iter().filter(|k| has_time(k)) {
        for _ in 0..(n / 4).max(5) {
            let mut r = rng.fork();
            let v = gen_value(&mut r, kind, true);
            cases.push(case("subsecond", kind, v, &[]));
        }
    }
    // the check evaluates consecutive slices of the list in parallel: one expensive case per slice
    let step = cases.len() / (big.len() + 1);
    for (i, b) in big.into_iter().enumerate().rev() { cases.insert((i + 1) * step, b); }
    cases
}

fn run(input: &Value) -> CaseOut {
    let kind = input["kind"].as_str().unwrap();
    let rest = unhex(input["rest"].as_str().unwrap());
    let (enc, val) = encode_impl(kind, &input["value"]);
    let dec = match &enc {
        Ok(e) => {
            let mut data = e.clone();
            data.extend_from_slice(&rest);
            match catch_unwind(AssertUnwindSafe(|| decode_impl(kind, &data))) {
                Ok(d) => d,
                Err(p) => Dec::Panic(p.downcast_ref::<String>().cloned()
                    .or_else(|| p.downcast_ref::<&str>().map(|s| s.to_string())).unwrap_or_default()),
            }
        }
        Err(_) => Dec::Other("not encoded".into()),
    };
    let obs = json!({
        "written": val.json(),
        "encoded_len": enc.as_ref().map(|e| e.len()).ok(),
        "encoded": enc.as_ref().map(|e| if e.len() <= 96 { hex(e) } else { format!("{}..", hex(&e[..96])) }).map_err(|e| e.clone()),
        "read_back": dec.json(),
    });
    let coq = format!(
        "{{| c_val := {}; c_rest := {}; c_enc := {}; c_dec := {} |}}",
        val.coq(), cb(&rest), coq_opt(enc.as_ref().ok().map(|e| cb(e))), dec.coq());
    CaseOut { obs, coq, nontrivial: kind != "u8" }
}

//------------ stream `big`: records too large to be written out as Coq terms ------------------------------------
//
// A repository state whose delta map has more entries than the decoder's pre-allocation limit (65536) is 2.6 MB;
// coqc cannot type-check a case term of that size.  The round trip is made on the implementation and compared in
// Rust; Coq gets the digest (sizes, counts, the equality verdict) and judges it.  Oracle only.

fn gen_big(_rng: &mut Rng, tier: &str) -> Vec<(String, Value)> {
    let mut v = Vec::new();
    let ns: Vec<u64> = if tier == "thorough" { vec![65535, 65536, 65537, 65538, 131072, 131073, 200000] } else { vec![65535, 65536, 65537, 131073] };
    for n in ns { for kind in ["map", "state"] { v.push((format!("big.{}", kind), json!({"kind": kind, "n": n}))); } }
    v
}

fn run_big(input: &Value) -> CaseOut {
    let kind = input["kind"].as_str().unwrap();
    let n = input["n"].as_u64().unwrap();
    let m: Vec<Value> = (0..n).map(|i| { let mut h = [0u8; 32]; h[..8].copy_from_slice(&(i.wrapping_mul(0x9E37_79B9_7F4A_7C15)).to_be_bytes()); json!([7 + i * 3, hex(&h)]) }).collect();
    let value = if kind == "map" { json!(m) } else { json!({
        "rpki_notify": "https://rrdp.example.net/notification.xml", "session": hex(&[7u8; 16]), "serial": 7 + n * 3,
        "updated_ts": 1700000000, "best_before_ts": 1700003600, "last_modified_ts": 1699999999, "etag": hex(b"W/\"abc\""), "delta_state": m}) };
    let rest = vec![0xAAu8, 0xBB, 0xCC];
    let (enc, val) = encode_impl(kind, &value);
    let (enc_len, dec) = match &enc {
        Ok(e) => { let mut data = e.clone(); data.extend_from_slice(&rest);
                   (e.len() as u64, catch_unwind(AssertUnwindSafe(|| decode_impl(kind, &data))).unwrap_or(Dec::Panic("panic".into()))) }
        Err(_) => (0, Dec::Other("not encoded".into())),
    };
    let entries = |v: &Val| -> u64 { match v { Val::Map(m) => m.len() as u64, Val::State { deltas, .. } => deltas.len() as u64, _ => 0 } };
    let (dec_ok, dec_entries, rest_len, equal) = match &dec {
        Dec::Ok(v, r) => {
            // a map comes back in the hash map's iteration order: compare as sets of entries
            let canon = |v: &Val| -> Val { match v.clone() {
                Val::Map(mut m) => { m.sort(); Val::Map(m) }
                Val::State { notify, session, serial, updated, best_before, last_modified, etag, mut deltas } => {
                    deltas.sort(); Val::State { notify, session, serial, updated, best_before, last_modified, etag, deltas } }
                x => x } };
            (true, entries(v), r.len() as u64, canon(v) == canon(&val) && *r == rest)
        }
        _ => (false, 0, 0, false),
    };
    let obs = json!({"encoded_len": enc_len, "decoded": dec_ok, "entries_read_back": dec_entries, "rest_len": rest_len, "equal": equal});
    let coq = format!("{{| b_state := {}; b_n := {}; b_rest := {}; i_enc_len := {}; i_dec_ok := {}; i_entries := {}; i_rest := {}; i_equal := {} |}}",
        coq_bool(kind == "state"), n, rest.len(), enc_len, coq_bool(dec_ok), dec_entries, rest_len, coq_bool(equal));
    CaseOut { obs, coq, nontrivial: n > 65536 }
}

fn main() {
    std::panic::set_hook(Box::new(|_| {}));
    if std::env::var("C28_STREAM").as_deref() == Ok("big") { drive(gen_big, run_big); return }
    drive(gen, run)
}
