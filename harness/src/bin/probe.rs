use rv_harness::srvenv::*;
use serde_json::json;
fn main() {
    let mut env = Env::new(|c| { c.history_size = 3; });
    let r = env.get("/json", &[]);
    println!("before: {} {:?}", r.status, String::from_utf8_lossy(&r.body));
    let a = json!({"origins": [["10.0.0.0/8", 24, 64500]]});
    let b = json!({"origins": [["10.0.0.0/8", 24, 64501]]});
    println!("cycle {:?}", env.cycle(&a, 0, false));
    let r = env.get("/json", &[]);
    println!("after: {} etag {:?} lm {:?} {}", r.status, r.etag, r.last_modified, String::from_utf8_lossy(&r.body));
    println!("cycle fail {:?}", env.cycle(&b, 1, false));
    println!("cycle {:?}", env.cycle(&b, 0, false));
    let r = env.get("/json-delta?session=1&serial=0", &[]);
    println!("delta: {} {}", r.status, String::from_utf8_lossy(&r.body));
    let r = env.get("/json-delta/notify", &[]);
    println!("notify: {} {}", r.status, String::from_utf8_lossy(&r.body));
}
