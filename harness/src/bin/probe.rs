fn main() { println!("ok"); }
