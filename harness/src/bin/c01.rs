//! C01 / C02: the real validation engine on generated RPKI repositories vs the Coq engine model
//! (coq/Engine/*, coq/C01, coq/C02).  One binary serves both properties (same cases, the Coq side
//! applies a different oracle).
//!
//! Input of a case: `{"spec": RepoSpec, "cfg": RunCfg, "plans": [ServePlan, ...]}` (a history of runs on
//! one cache).  The model input is derived from the generator's ground truth only.
use std::collections::HashMap;
use rv_harness::rpkigen::*;
use rv_harness::util::*;
use serde_json::{json, Value};

//------------ world generator ---------------------------------------------------------------

struct Pos { ca: String, what: PosKind }
enum PosKind { Obj(String, &'static [Fault]), Mft, Crl, Ta(usize) }

struct Gen { aspa_customer: u32, seq: u32 }

/// A random tree: `tals` trust anchors, CAs down to `max_depth`, up to `max_obj` objects per CA.
fn make_world(r: &mut Rng, tals: usize, max_depth: usize, max_obj: u64, kids: u64) -> Scen {
    let mut s = Scen::new();
    let mut g = Gen { aspa_customer: 70000, seq: 0 };
    for t in 0..tals {
        let id = format!("T{}", t);
        let host = format!("h{}.example", t);
        let base: u32 = (10 + t as u32) << 24;
        let asn = (1000 * (t as u32 + 1), 1000 * (t as u32 + 1) + 999);
        let v6 = format!("2001:db8:{:x}::/48", t + 1);
        s.add_ta(&format!("tal{}", t), &id, t, &host, "repo", res(&[&pfx(base, 8)], &[&v6], &[asn]));
        fill(r, &mut s, &mut g, &id, t, 0, max_depth, max_obj, kids, base, 8, asn, &host, "repo", &v6);
    }
    s
}

fn pfx(addr: u32, len: u8) -> String { format!("{}/{}", std::net::Ipv4Addr::from(addr), len) }

#[allow(clippy::too_many_arguments)]
fn fill(r: &mut Rng, s: &mut Scen, g: &mut Gen, id: &str, tal: usize, depth: usize, max_depth: usize, max_obj: u64, kids: u64,
        base: u32, len: u8, asn: (u32, u32), host: &str, module: &str, v6: &str) {
    let nobj = r.below(max_obj + 1);
    for k in 0..nobj {
        g.seq += 1;
        let slot = r.below(16) as u32;
        let sub = base | (slot << (32 - len as u32 - 4));
        match r.below(10) {
            0..=4 => {
                let ml = if r.chance(1, 2) { Some(len + 4 + r.below(3) as u8) } else { None };
                let mut p: Vec<(String, Option<u8>)> = vec![(pfx(sub, len + 4), ml)];
                if r.chance(1, 4) { p.push((v6.to_string(), None)); }
                let pr: Vec<(&str, Option<u8>)> = p.iter().map(|(a, b)| (a.as_str(), *b)).collect();
                s.add_roa(id, &format!("r{}-{}.roa", g.seq, k), asn.0 + r.below(20) as u32, &pr);
            }
            5 | 6 => {
                g.aspa_customer += 1;
                let n = r.below(3);
                let provs: Vec<u32> = (0..n).map(|i| 64000 + g.seq * 4 + i as u32).collect();
                // the customer AS must be held by the CA: use the CA's range
                let customer = asn.0 + 100 + (g.aspa_customer % 800);
                s.add_aspa(id, &format!("a{}-{}.asa", g.seq, k), customer, &provs);
            }
            7 => { let a = asn.0 + 30 + r.below(5) as u32; s.add_router(id, &format!("k{}-{}.cer", g.seq, k), &[(a, a + r.below(2) as u32)], r.below(4) as usize); }
            8 => s.add_gbr(id, &format!("g{}-{}.gbr", g.seq, k)),
            _ => s.add_other(id, &format!("o{}-{}.txt", g.seq, k), "some text"),
        }
    }
    if depth >= max_depth { return }
    let nkids = r.below(kids + 1);
    for j in 0..nkids {
        g.seq += 1;
        let cid = format!("{}c{}", id, j);
        let key = 3 + ((tal * 4 + depth * 2 + (j as usize % 2)) % 9);
        let (h, m) = match r.below(4) { 0 => (format!("x{}.example", g.seq), "repo".to_string()), 1 => (host.to_string(), format!("mod{}", g.seq)), _ => (host.to_string(), module.to_string()) };
        let cbase = base | ((j as u32 * 3 + 1) << (32 - len as u32 - 4));
        let inherit_res = r.chance(1, 6);
        let cres = if inherit_res { inherit() } else { res(&[&pfx(cbase, len + 4)], &[v6], &[asn]) };
        s.add_child(id, &cid, key, &h, &m, cres);
        let (nb, nl) = if inherit_res { (base, len) } else { (cbase, len + 4) };
        fill(r, s, g, &cid, tal, depth + 1, max_depth, max_obj, kids, nb, nl, asn, &h, &m, v6);
    }
}

fn aspa_customers_unique(s: &RepoSpec) -> bool {
    let mut seen = std::collections::HashSet::new();
    for ca in &s.cas { for o in &ca.versions[0].objects { if let ObjKind::Aspa { customer, .. } = &o.kind { if !seen.insert(*customer) { return false } } } }
    true
}

fn positions(s: &RepoSpec) -> Vec<Pos> {
    let mut v = Vec::new();
    for (ti, t) in s.tals.iter().enumerate() { v.push(Pos { ca: t.name.clone(), what: PosKind::Ta(ti) }); }
    for ca in &s.cas {
        v.push(Pos { ca: ca.id.clone(), what: PosKind::Mft });
        v.push(Pos { ca: ca.id.clone(), what: PosKind::Crl });
        for o in &ca.versions[0].objects {
            let fs: &'static [Fault] = match o.kind {
                ObjKind::Ca { .. } | ObjKind::Router { .. } => &Fault::FOR_CERT,
                ObjKind::Roa { .. } | ObjKind::Aspa { .. } | ObjKind::Gbr { .. } => &Fault::FOR_SIGNED,
                ObjKind::Other { .. } => &Fault::FOR_OTHER,
            };
            v.push(Pos { ca: ca.id.clone(), what: PosKind::Obj(o.name.clone(), fs) });
        }
    }
    v
}

fn faults_of(p: &Pos) -> &'static [Fault] {
    match &p.what { PosKind::Obj(_, f) => f, PosKind::Mft => &Fault::FOR_MANIFEST, PosKind::Crl => &Fault::FOR_CRL, PosKind::Ta(_) => &Fault::FOR_TA }
}

fn inject(s: &mut RepoSpec, p: &Pos, version: usize, f: Fault) {
    match &p.what {
        PosKind::Ta(ti) => { let u = &mut s.tals[*ti].uris[0]; let i = version.min(u.certs.len() - 1); if let Some(c) = u.certs[i].as_mut() { if !c.faults.contains(&f) { c.faults.push(f) } } }
        PosKind::Mft => { let ca = s.ca_mut(&p.ca).unwrap(); let i = version.min(ca.versions.len() - 1); if !ca.versions[i].mft.faults.contains(&f) { ca.versions[i].mft.faults.push(f) } }
        PosKind::Crl => { let ca = s.ca_mut(&p.ca).unwrap(); let i = version.min(ca.versions.len() - 1); if !ca.versions[i].crl.faults.contains(&f) { ca.versions[i].crl.faults.push(f) } }
        PosKind::Obj(name, _) => {
            let ca = s.ca_mut(&p.ca).unwrap(); let i = version.min(ca.versions.len() - 1);
            if let Some(o) = ca.versions[i].objects.iter_mut().find(|o| &o.name == name) { if !o.faults.contains(&f) { o.faults.push(f) } }
        }
    }
}

fn compatible(s: &RepoSpec) -> bool { build_check(s) }
fn build_check(s: &RepoSpec) -> bool {
    // Expired+NotYetValid or Stale+Premature on one item are rejected by build(); cheap structural test
    let bad = |f: &Vec<Fault>| (f.contains(&Fault::Expired) && f.contains(&Fault::NotYetValid)) || (f.contains(&Fault::Stale) && f.contains(&Fault::Premature));
    for ca in &s.cas { for v in &ca.versions { if bad(&v.mft.faults) || bad(&v.crl.faults) { return false } for o in &v.objects { if bad(&o.faults) { return false } } } }
    for t in &s.tals { for u in &t.uris { for c in u.certs.iter().flatten() { if bad(&c.faults) { return false } } } }
    true
}

fn random_cfg(r: &mut Rng) -> RunCfg {
    let pol = ["reject", "warn", "accept"];
    RunCfg {
        strict: r.chance(1, 3), stale: pol[r.below(3) as usize].into(), unsafe_vrps: pol[r.below(3) as usize].into(),
        enable_bgpsec: r.chance(3, 4), enable_aspa: r.chance(3, 4), max_ca_depth: 32,
        validation_threads: if r.chance(1, 4) { 4 } else { 1 },
        limit_v4_len: if r.chance(1, 5) { Some(16 + r.below(12) as u8) } else { None },
        limit_v6_len: if r.chance(1, 8) { Some(40 + r.below(20) as u8) } else { None },
        ..RunCfg::default()
    }
}

fn case(class: &str, spec: &RepoSpec, cfg: &RunCfg, steps: &[usize]) -> (String, Value) {
    let plans: Vec<ServePlan> = steps.iter().map(|s| ServePlan::step(*s)).collect();
    (class.to_string(), json!({"spec": spec, "cfg": cfg, "plans": plans}))
}

fn gen(rng: &mut Rng, tier: &str) -> Vec<(String, Value)> {
    let thorough = tier == "thorough";
    let mut cases = Vec::new();
    let dflt = RunCfg::default();

    // (a) small scope: fault-free trees of every shape class (TALs 1..3, depth 0..4)
    for tals in 1..=3usize {
        for depth in 0..=4usize {
            let mut r = rng.fork();
            let s = loop { let s = make_world(&mut r, tals, depth, 3, 2); if aspa_customers_unique(&s.spec) { break s } };
            cases.push(case(&format!("clean.tals{}.depth{}", tals, depth), &s.spec, &random_cfg(&mut r), &[0]));
        }
    }
    // (b) every single fault at every position of two base worlds
    let bases: Vec<RepoSpec> = {
        let mut v = Vec::new();
        let mut r = rng.fork();
        for (tals, depth, obj) in [(1usize, 2usize, 3u64), (2, 3, 2)] {
            let s = loop { let s = make_world(&mut r, tals, depth, obj, 2); if aspa_customers_unique(&s.spec) && s.spec.cas.len() >= 3 && s.spec.cas.len() <= 9 { break s } };
            v.push(s.spec);
        }
        v
    };
    for (bi, base) in bases.iter().enumerate() {
        let pos = positions(base);
        for p in &pos {
            for f in faults_of(p) {
                if bi == 1 && !thorough && rng.chance(2, 3) { continue }
                let mut s = base.clone();
                inject(&mut s, p, 0, *f);
                let cfg = if rng.chance(1, 3) { random_cfg(rng) } else { dflt.clone() };
                let kind = match &p.what { PosKind::Obj(n, _) => n.rsplit('.').next().unwrap_or("obj").to_string(), PosKind::Mft => "mft".into(), PosKind::Crl => "crl".into(), PosKind::Ta(_) => "ta".into() };
                cases.push(case(&format!("single.{:?}.{}", f, kind), &s, &cfg, &[0]));
            }
        }
    }
    // (c) pairs of faults
    let npairs = if thorough { 600 } else { 60 };
    for _ in 0..npairs {
        let base = &bases[rng.below(2) as usize];
        let pos = positions(base);
        let mut s = base.clone();
        for _ in 0..2 {
            let p = rng.pick(&pos);
            let f = *rng.pick(faults_of(p));
            inject(&mut s, p, 0, f);
        }
        if !compatible(&s) { continue }
        cases.push(case("pair", &s, &random_cfg(rng), &[0]));
    }
    // (d) all policy settings on worlds with stale manifest / stale CRL / rejected CA
    {
        let base = &bases[0];
        let pos = positions(base);
        let mfts: Vec<&Pos> = pos.iter().filter(|p| matches!(p.what, PosKind::Mft)).collect();
        let crls: Vec<&Pos> = pos.iter().filter(|p| matches!(p.what, PosKind::Crl)).collect();
        for stale in ["reject", "warn", "accept"] {
            for unsafe_vrps in ["reject", "warn", "accept"] {
                for flags in 0..4u32 {
                    let mut s = base.clone();
                    inject(&mut s, mfts[mfts.len() - 1], 0, Fault::Stale);
                    inject(&mut s, crls[1.min(crls.len() - 1)], 0, if flags & 1 == 0 { Fault::Stale } else { Fault::Missing });
                    let cfg = RunCfg { stale: stale.into(), unsafe_vrps: unsafe_vrps.into(), enable_bgpsec: flags & 1 == 0,
                                       enable_aspa: flags & 2 == 0, strict: flags == 3, ..dflt.clone() };
                    cases.push(case(&format!("policy.stale-{}.unsafe-{}", stale, unsafe_vrps), &s, &cfg, &[0]));
                }
            }
        }
    }
    // (e) depth limit, cycles, key reuse
    for max in [0usize, 1, 2, 3, 5] {
        let mut s = Scen::new();
        s.add_ta("deep", "D", 0, "deep.example", "repo", res(&["10.0.0.0/8"], &[], &[(1, 100)]));
        let ids = s.chain("D", "d", 4, &[1, 2, 3, 4], "deep.example", "repo", res(&["10.0.0.0/8"], &[], &[(1, 100)]));
        for (i, id) in ids.iter().enumerate() { s.add_roa(id, &format!("{}.roa", id), i as u32 + 1, &[(&format!("10.{}.0.0/16", i + 1), None)]); }
        s.add_roa("D", "root.roa", 50, &[("10.200.0.0/16", Some(24))]);
        let cfg = RunCfg { max_ca_depth: max, ..dflt.clone() };
        cases.push(case(&format!("depth.limit{}", max), &s.spec, &cfg, &[0]));
        if max == 5 {
            s.add_ca_cert("d2", "back-to-root.cer", "D", res(&["10.0.0.0/8"], &[], &[(1, 100)]));
            s.add_ca_cert("d3", "to-self.cer", "d3", res(&["10.0.0.0/8"], &[], &[(1, 100)]));
            s.add_child("d3", "reuse", 1, "deep.example", "repo", res(&["10.0.0.0/8"], &[], &[(1, 100)]));
            s.add_roa("reuse", "reuse.roa", 99, &[("10.99.0.0/16", None)]);
            cases.push(case("depth.cycle-and-key-reuse", &s.spec, &cfg, &[0]));
        }
    }
    // (f) histories of 2-3 runs on one cache
    let nhist = if thorough { 280 } else { 84 };
    for i in 0..nhist {
        let mut r = rng.fork();
        let mut s = loop { let s = make_world(&mut r, 1 + (i % 2), 2, 3, 2); if aspa_customers_unique(&s.spec) && s.spec.cas.len() >= 2 { break s } };
        let ids: Vec<String> = s.spec.cas.iter().map(|c| c.id.clone()).collect();
        let target = r.pick(&ids).clone();
        s.push_version(&target);
        let class;
        match i % 7 {
            0 => { // a new ROA appears in version 2
                class = "history.new-object";
                add_v2_roa(&mut s, &target, &mut r);
            }
            1 => { // version 2 is incomplete (listed file missing / wrong hash): stored version stays
                class = "history.incomplete-update";
                add_v2_roa(&mut s, &target, &mut r);
                let names: Vec<String> = s.spec.ca(&target).unwrap().versions[1].objects.iter().map(|o| o.name.clone()).collect();
                if names.is_empty() { continue }
                let n = r.pick(&names).clone();
                s.object_mut(&target, 1, &n).faults.push(if r.chance(1, 2) { Fault::Missing } else { Fault::HashMismatch });
            }
            2 => { // version 2 has a broken manifest or CRL
                class = "history.bad-manifest-v2";
                add_v2_roa(&mut s, &target, &mut r);
                if r.chance(1, 2) { let f = *r.pick(&Fault::FOR_MANIFEST); s.version_mut(&target, 1).mft.faults.push(f); }
                else { let f = *r.pick(&Fault::FOR_CRL); s.version_mut(&target, 1).crl.faults.push(f); }
            }
            3 => { // thisUpdate does not advance / number does not advance
                class = "history.not-newer";
                add_v2_roa(&mut s, &target, &mut r);
                let v0 = s.spec.ca(&target).unwrap().versions[0].clone();
                let v = s.version_mut(&target, 1);
                if r.chance(1, 2) { v.mft.this_update = v0.mft.this_update; } else { v.mft.number = v0.mft.number; }
            }
            4 => { // an object of version 1 is revoked / removed in version 2
                class = "history.object-withdrawn";
                let objs: Vec<String> = s.spec.ca(&target).unwrap().versions[1].objects.iter().map(|o| o.name.clone()).collect();
                if let Some(n) = objs.first().cloned() {
                    if r.chance(1, 2) { s.version_mut(&target, 1).objects.retain(|o| o.name != n); }
                    else if !matches!(s.object_mut(&target, 1, &n).kind, ObjKind::Other { .. }) { s.object_mut(&target, 1, &n).faults.push(Fault::Revoked); }
                }
            }
            5 => { // version 2 is incomplete AND its CRL revokes an object the stored version carries: the stored
                   // version is what counts, with its own CRL, so the object stays
                class = "history.incomplete-update-revoking";
                add_v2_roa(&mut s, &target, &mut r);
                let names: Vec<String> = s.spec.ca(&target).unwrap().versions[0].objects.iter()
                    .filter(|o| !matches!(o.kind, ObjKind::Other { .. })).map(|o| o.name.clone()).collect();
                let all: Vec<String> = s.spec.ca(&target).unwrap().versions[1].objects.iter().map(|o| o.name.clone()).collect();
                if let Some(revoked) = names.first().cloned() {
                    s.object_mut(&target, 1, &revoked).faults.push(Fault::Revoked);
                    let others: Vec<String> = all.into_iter().filter(|n| *n != revoked).collect();
                    if let Some(n) = others.last().cloned() {
                        s.object_mut(&target, 1, &n).faults.push(if r.chance(1, 2) { Fault::Missing } else { Fault::HashMismatch });
                    }
                }
            }
            _ => { // a fault only in version 1, repaired in version 2
                class = "history.repaired";
                let pos = positions(&s.spec);
                let p = r.pick(&pos);
                let f = *r.pick(faults_of(p));
                inject(&mut s.spec, p, 0, f);
                if let PosKind::Ta(ti) = &p.what {
                    let good = { let mut c = s.spec.tals[*ti].uris[0].certs[0].clone(); if let Some(c) = c.as_mut() { c.faults.clear(); } c };
                    s.spec.tals[*ti].uris[0].certs.push(good);
                }
                if p.ca != target && !matches!(p.what, PosKind::Ta(_)) {
                    // repair = next version of that CA without the fault
                    let ca = p.ca.clone();
                    s.push_version(&ca);
                    let v = s.version_mut(&ca, 1);
                    v.mft.faults.clear(); v.crl.faults.clear();
                    for o in &mut v.objects { o.faults.clear(); }
                } else if !matches!(p.what, PosKind::Ta(_)) {
                    let v = s.version_mut(&target, 1);
                    v.mft.faults.clear(); v.crl.faults.clear();
                    for o in &mut v.objects { o.faults.clear(); }
                }
            }
        }
        if !compatible(&s.spec) { continue }
        let steps: &[usize] = match r.below(4) { 0 => &[0, 1, 0], 1 => &[1, 0], _ => &[0, 1] };
        let cfg = if r.chance(1, 2) { random_cfg(&mut r) } else { dflt.clone() };
        cases.push(case(class, &s.spec, &cfg, steps));
    }
    // (f2) histories of trust anchor certificates: what the first run stores (good / wrong key / expired / bad
    //      signature / garbage) is what a later run falls back to when the download is missing or garbage
    {
        let firsts: [Option<Fault>; 5] = [None, Some(Fault::WrongKey), Some(Fault::Expired), Some(Fault::BadSignature), Some(Fault::Garbage)];
        for (fi, first) in firsts.iter().enumerate() {
            for second in [Some(Fault::Missing), Some(Fault::Garbage), None] {
                let mut r = rng.fork();
                let mut s = loop { let s = make_world(&mut r, 1, 1, 2, 2); if aspa_customers_unique(&s.spec) { break s } };
                let good = s.spec.tals[0].uris[0].certs[0].clone();
                let with = |f: &Option<Fault>| -> Option<TaCertSpec> {
                    let mut c = good.clone();
                    match f { None => c, Some(Fault::Missing) => None, Some(f) => { if let Some(c) = c.as_mut() { c.faults.push(*f); } c } }
                };
                s.spec.tals[0].uris[0].certs = vec![with(first), with(&second), with(&None)];
                if !compatible(&s.spec) { continue }
                let steps: &[usize] = if fi % 2 == 0 { &[0, 1] } else { &[0, 1, 2] };
                cases.push(case("history.ta-steps", &s.spec, &dflt, steps));
            }
        }
    }
    // (f3) the TAL is replaced by one with another key between runs (same URI): the stored certificate, which
    //      validated under the old key, must not be used under the new one when the download fails or keeps
    //      delivering the old certificate
    for second in [Some(Fault::Missing), Some(Fault::Garbage), None] {
        for back in [false, true] {
            let mut r = rng.fork();
            let mut s = loop { let s = make_world(&mut r, 1, 1, 2, 2); if aspa_customers_unique(&s.spec) { break s } };
            let good = s.spec.tals[0].uris[0].certs[0].clone();
            let with = |f: &Option<Fault>| -> Option<TaCertSpec> {
                let mut c = good.clone();
                match f { None => c, Some(Fault::Missing) => None, Some(f) => { if let Some(c) = c.as_mut() { c.faults.push(*f); } c } }
            };
            s.spec.tals[0].uris[0].certs = vec![with(&None), with(&second), with(&second)];
            if !compatible(&s.spec) { continue }
            let k = s.spec.tals[0].key;
            let other = (k + 1) % 12;
            let (class, mut v) = case("history.tal-rotation", &s.spec, &dflt, &[0, 1, 2]);
            v["tal_keys"] = json!([[k], [other], [if back { k } else { other }]]);
            cases.push((class, v));
        }
    }
    // (g) structured random: bigger trees, 0-3 random faults
    let nrand = if thorough { 800 } else { 60 };
    for i in 0..nrand {
        let mut r = rng.fork();
        let s = loop { let s = make_world(&mut r, 1 + (i % 3), 1 + (i % 4), 4, 3); if aspa_customers_unique(&s.spec) && s.spec.cas.len() <= 14 { break s } };
        let mut spec = s.spec;
        let pos = positions(&spec);
        for _ in 0..r.below(4) { let p = r.pick(&pos); let f = *r.pick(faults_of(p)); inject(&mut spec, p, 0, f); }
        if !compatible(&spec) { continue }
        cases.push(case("random", &spec, &random_cfg(&mut r), &[0]));
    }
    cases
}

fn add_v2_roa(s: &mut Scen, ca: &str, r: &mut Rng) {
    // a prefix inside the CA's own resources: reuse the prefix of its certificate if explicit, else skip
    let mut prefix: Option<String> = None;
    for c in &s.spec.cas { for o in &c.versions[0].objects { if let ObjKind::Ca { subject, resources, .. } = &o.kind { if subject == ca && !resources.inherit { prefix = resources.v4.first().cloned(); } } } }
    for t in &s.spec.tals { for c in t.uris[0].certs.iter().flatten() { if c.ca == ca { prefix = c.resources.v4.first().cloned(); } } }
    if let Some(p) = prefix {
        let ee = s.ee();
        let name = format!("new{}.roa", r.below(1000));
        let last = s.spec.ca(ca).unwrap().versions.len() - 1;
        s.version_mut(ca, last).objects.push(ObjSpec {
            name, kind: ObjKind::Roa { asn: 64999, prefixes: vec![RoaPrefix { prefix: p, max_len: None }], ee }, faults: vec![],
        });
    }
}

//------------ Coq printing -----------------------------------------------------------------------

fn z(v: i64) -> String { format!("({})%Z", v) }

struct Printer<'a> { truth: &'a Truth, ca_index: HashMap<String, usize>, vids: HashMap<String, u64>, ec_ids: HashMap<String, u64> }

impl<'a> Printer<'a> {
    fn new(truth: &'a Truth) -> Self {
        let ca_index = truth.cas.iter().enumerate().map(|(i, c)| (c.id.clone(), i)).collect();
        let mut vids = HashMap::new();
        for ca in &truth.cas { for v in &ca.versions { let n = vids.len() as u64 + 1; vids.entry(v.mft.sha256.clone()).or_insert(n); } }
        let mut ec_ids = HashMap::new();
        for i in 0..keys::EC_KEYS { ec_ids.insert(hex(keys::ec_public(i).key_identifier().as_slice()), i as u64); }
        Printer { truth, ca_index, vids, ec_ids }
    }
    fn ranges(&self, r: &ResTruth) -> String {
        let mut v: Vec<String> = r.v4.iter().map(|(a, b)| format!("(true, {}, {})", a, b)).collect();
        v.extend(r.v6.iter().map(|(a, b)| format!("(false, {}, {})", a, b)));
        format!("[{}]", v.join("; "))
    }
    /// `ranges`: only CA / TA certificates need their address ranges (unsafe-VRP filter)
    fn cert(&self, c: &CertTruth) -> String { self.cert_r(c, c.subject.is_some()) }
    fn cert_r(&self, c: &CertTruth, ranges: bool) -> String {
        let subject = c.subject.as_ref().and_then(|s| self.ca_index.get(s)).copied().unwrap_or(0);
        format!("(Build_cert {} {} {} {} {} {} {} {} {})",
                c.key, subject, coq_bool(c.decodes), coq_bool(c.sig_ok), coq_bool(c.res_within), coq_bool(c.valid_now),
                coq_bool(c.crl_uri_ok), c.serial, if ranges { self.ranges(&c.effective) } else { "[]".into() })
    }
    fn vrp(v: &Vrp) -> String { format!("IVrp {} {} {} {} {}", coq_bool(v.v4), v.addr, v.len, v.max_len, v.asn) }
    fn obj(&self, o: &ObjTruth) -> String {
        match o {
            ObjTruth::Ca(c) => format!("OCa ({})", self.cert(c)),
            ObjTruth::Router { cert, keys } => format!("ORouter ({}) {}", self.cert(cert),
                coq_list(keys.iter(), |k| format!("IKey {} {}", self.ec_ids[&k.key_id], k.asn))),
            ObjTruth::Roa { decodes, content_sig_ok, ee, vrps } => format!("OSigned KRoa {} {} ({}) {}", coq_bool(*decodes), coq_bool(*content_sig_ok),
                self.cert(ee), coq_list(vrps.iter(), Self::vrp)),
            ObjTruth::Aspa { decodes, content_sig_ok, ee, customer, providers } => format!("OSigned KAspa {} {} ({}) [IAspa {} {}]",
                coq_bool(*decodes), coq_bool(*content_sig_ok), self.cert(ee), customer, coq_nlist(providers.iter())),
            ObjTruth::Gbr { decodes, content_sig_ok, ee } => format!("OSigned KGbr {} {} ({}) []", coq_bool(*decodes), coq_bool(*content_sig_ok), self.cert(ee)),
            ObjTruth::Other { .. } => "OOther".into(),
        }
    }
    fn ext(name: &str) -> &'static str {
        if name.ends_with(".cer") { "XCer" } else if name.ends_with(".roa") { "XRoa" } else if name.ends_with(".asa") { "XAsa" }
        else if name.ends_with(".gbr") { "XGbr" } else if name.ends_with(".crl") { "XCrl" } else { "XOther" }
    }
    fn version(&self, v: &VersionTruth) -> String {
        let entries = coq_list(v.entries.iter().enumerate(), |(i, e)| format!(
            "(Build_entry {} {} {} {} {} ({}))",
            i, Self::ext(&e.name), coq_bool(e.listed), coq_bool(e.present), coq_bool(e.hash_ok), self.obj(&e.obj)));
        let m = &v.mft;
        let c = &v.crl;
        format!("(Build_version {} {} {} {} {} {} {} {} {} {} {} {} {} {} {} {})",
                self.vids[&m.sha256], coq_bool(m.present), coq_bool(m.decodes), coq_bool(m.content_sig_ok), self.cert(&m.ee), m.number,
                z(m.this_update), z(m.next_update), coq_bool(c.listed), coq_bool(c.present), coq_bool(c.hash_ok), coq_bool(c.decodes),
                coq_bool(c.sig_ok), z(c.next_update), coq_nlist(c.revoked.iter()), entries)
    }
    fn run_in(&self, plan: &ServePlan) -> String { self.run_in_keys(plan, None) }
    /// `keys`: the key of each TAL file in this run (default: the key of the description)
    fn run_in_keys(&self, plan: &ServePlan, keys: Option<&Vec<usize>>) -> String {
        let mut collected = Vec::new();
        for (i, ca) in self.truth.cas.iter().enumerate() {
            if plan.unreachable.contains(&ca.module) { panic!("unreachable modules are outside the model's scope") }
            let v = match plan.ca_version.get(&ca.id) { Some(None) => continue, Some(Some(v)) => *v, None => plan.step };
            collected.push(format!("({}, {})", i, self.version(&ca.versions[v.min(ca.versions.len() - 1)])));
        }
        let tals = coq_list(self.truth.tals.iter().enumerate(), |(ti, t)| {
            let uris = coq_list(t.uris.iter().enumerate(), |(ui, u)| {
                let c = &u.certs[plan.step.min(u.certs.len() - 1)];
                format!("(Build_ta_uri {} {})", ti * 100 + ui + 1, coq_opt(c.as_ref().map(|c| format!("({})", self.cert(c)))))
            });
            format!("(Build_tal {} {})", keys.and_then(|k| k.get(ti).copied()).unwrap_or(t.key), uris)
        });
        format!("(Build_run_in [{}] {})", collected.join("; "), tals)
    }
    fn obs(&self, o: &RunOutcome) -> String {
        let mut items: Vec<String> = o.payload.origins.iter().map(|r| format!("IVrp {} {} {} {} {}", coq_bool(r.v4), r.addr, r.len, r.max_len, r.asn)).collect();
        items.extend(o.payload.router_keys.iter().map(|k| format!("IKey {} {}", self.ec_ids.get(&k.key_id).copied().unwrap_or(999), k.asn)));
        items.extend(o.payload.aspas.iter().map(|a| format!("IAspa {} {}", a.customer, coq_nlist(a.providers.iter()))));
        let store: Vec<String> = o.store.iter().filter_map(|p| {
            let sha = p.manifest_sha256.as_ref()?;
            let ca = self.truth.cas.iter().position(|c| c.mft_uri == p.manifest_uri)?;
            Some(format!("({}, {})", ca, self.vids.get(sha).copied().unwrap_or(999_999)))
        }).collect();
        format!("(Build_run_obs {} [{}] [{}])", coq_bool(o.result == "ok"), items.join("; "), store.join("; "))
    }
}

fn coq_cfg(c: &RunCfg) -> String {
    let o = |x: Option<u8>| coq_opt(x.map(|v| v.to_string()));
    format!("(Build_cfg {} {} {} {} {}%nat {} {})",
            coq_bool(c.stale == "reject"), coq_bool(c.unsafe_vrps == "reject"), coq_bool(c.enable_bgpsec), coq_bool(c.enable_aspa),
            c.max_ca_depth, o(c.limit_v4_len), o(c.limit_v6_len))
}

//------------ running a case ---------------------------------------------------------------------

fn run(input: &Value) -> CaseOut {
    let spec: RepoSpec = serde_json::from_value(input["spec"].clone()).expect("spec");
    let cfg: RunCfg = serde_json::from_value(input["cfg"].clone()).expect("cfg");
    let plans: Vec<ServePlan> = serde_json::from_value(input["plans"].clone()).expect("plans");
    let built = build(&spec).unwrap_or_else(|e| panic!("build: {}", e));
    if built.truth.cas.iter().any(|c| c.ambiguous) { panic!("ambiguous CA in a C01 case") }
    let world = World::new(built).expect("world");
    let printer = Printer::new(&world.built.truth);
    let tal_keys: Option<Vec<Vec<usize>>> = input.get("tal_keys").and_then(|v| serde_json::from_value(v.clone()).ok());
    let mut outs = Vec::new();
    for (pi, plan) in plans.iter().enumerate() {
        if let Some(tk) = &tal_keys {
            // the TAL files of this run: same URIs, the key given for this step
            let mut alt = spec.clone();
            for (ti, k) in tk[pi].iter().enumerate() { alt.tals[ti].key = *k; }
            let b = build(&alt).unwrap_or_else(|e| panic!("build (TAL keys): {}", e));
            for (name, content) in &b.tal_files { std::fs::write(world.tal_dir().join(name), content).expect("write TAL"); }
        }
        world.serve(plan).expect("serve");
        // a panic inside the engine is an observation, not a harness failure
        let o = std::panic::catch_unwind(std::panic::AssertUnwindSafe(|| world.run(&cfg)));
        match o {
            Ok(o) => outs.push(o),
            Err(_) => {
                let mut o = world.run(&RunCfg { no_update: true, ..cfg.clone() });
                o.result = "panic".into();
                outs.push(o);
            }
        }
    }
    let pkeys = coq_list(world.built.truth.cas.iter().enumerate(), |(i, c)| format!("({}, {})", i, c.key));
    let coq = format!("(Build_case {} {} {} {})",
                      coq_cfg(&cfg), pkeys, coq_list(plans.iter().enumerate(), |(pi, p)| printer.run_in_keys(p, tal_keys.as_ref().map(|t| &t[pi]))), coq_list(outs.iter(), |o| printer.obs(o)));
    let nontrivial = outs.iter().any(|o| !o.payload.origins.is_empty() || !o.payload.aspas.is_empty() || !o.payload.router_keys.is_empty());
    let obs = json!({"runs": outs.iter().map(|o| json!({
        "result": o.result, "payload": o.payload, "store": o.store.iter().map(|p| json!([p.manifest_uri, p.manifest_number])).collect::<Vec<_>>(),
        "log": o.log.iter().take(40).collect::<Vec<_>>(),
    })).collect::<Vec<_>>()});
    CaseOut { obs, coq, nontrivial }
}

fn main() {
    act_as_rsync_if_child();
    let threads = std::env::var("C01_THREADS").ok().and_then(|s| s.parse().ok()).unwrap_or(12);
    drive_par(gen, run, threads)
}
