//! C03 / C04 / C05 — one publication point across a history of validation runs.
//!
//! A case is a *scenario*: a list of versions of one publication point "P" (manifest number,
//! thisUpdate, faults of manifest / CRL / objects) and a list of runs (which version the
//! repository serves, reachable or not, collector or not, stale policy, the order in which the
//! engine walks the manifest entries, optional tampering with the cached fields of the stored
//! point).  The scenario is built into **real** signed objects by `rv_harness::rpkigen`, the real
//! `routinator::engine::Engine` is run once per run on one persistent cache, and after every run
//! the payload and the stored point (read back with `StoredPoint::load_quietly`) are recorded.
//! The Coq term carries the verdict bits of the generator's ground truth (never the bytes), the
//! runs, and the observations; `check_case` of C03/C04/C05 evaluates the model and the oracle.
//!
//! Streams (environment variable `C03_STREAM`):
//! * `order` — the manifest iteration order is forced through the cfg(routinator_verif) hook
//!   `verif_c03::order` (injection site "engine.manifest_order <manifest URI>").
//! * `hist`  — histories, faults, regressions, unreachable repository, stale policies with the
//!   engine's own random order (the model's observation is order-independent, theorem
//!   `C03_order_invariant`).
//! * `tamper` — the cached manifest number / thisUpdate of the stored point are overwritten
//!   between runs (the "internally inconsistent stored copy" branch).

use std::collections::{BTreeMap, HashMap};
use serde_json::{json, Value};
use rv_harness::rpkigen::*;
use rv_harness::util::*;

/// Worker number of the current thread: worlds of different threads use different host names, so
/// that the order hook (keyed by manifest URI) of one thread never touches another thread's run.
fn worker() -> usize {
    use std::sync::atomic::{AtomicUsize, Ordering};
    static NEXT: AtomicUsize = AtomicUsize::new(0);
    thread_local! { static ID: usize = NEXT.fetch_add(1, Ordering::SeqCst); }
    ID.with(|i| *i)
}
fn point_host() -> String { format!("rpki.point{}.example", worker()) }
const TIME_SHIFT: i64 = 1_000_000;
const UNKNOWN: u64 = 999_999;

//------------ scenario -> RepoSpec ------------------------------------------------

fn fault_of(s: &str) -> Fault {
    serde_json::from_value(Value::String(s.into())).unwrap_or_else(|_| panic!("unknown fault {}", s))
}
fn faults_of(v: &Value) -> Vec<Fault> {
    v.as_array().map(|a| a.iter().map(|f| fault_of(f.as_str().unwrap())).collect()).unwrap_or_default()
}

struct Made { spec: RepoSpec, point: String, base_ca: Option<String> }

fn make_spec(sc: &Value) -> Made {
    let layout = sc["layout"].as_str().unwrap_or("child");
    let mut s = Scen::new();
    let base_ca;
    if layout == "ta" {
        s.add_ta("t", "P", 1, &point_host(), "pp",
                 res(&["10.1.0.0/16"], &["2001:db8:1::/48"], &[(64400, 64999)]));
        base_ca = None;
    } else {
        s.add_ta("t", "A", 0, "rpki.root.example", "repo",
                 res(&["10.0.0.0/8"], &["2001:db8::/32"], &[(64000, 65535)]));
        s.add_roa("A", "base.roa", 64001, &[("10.0.0.0/16", None)]);
        s.add_child("A", "P", 1, &point_host(), "pp",
                    res(&["10.1.0.0/16"], &["2001:db8:1::/48"], &[(64400, 64999)]));
        base_ca = Some("A".to_string());
    }
    // a constant grandchild for "ca" objects
    let wants_ca = sc["versions"].as_array().unwrap().iter()
        .any(|v| v["objects"].as_array().unwrap().iter().any(|o| o["kind"] == "ca"));
    if wants_ca {
        s.add_point("G", 2, &point_host(), "gg");
        s.add_roa("G", "g.roa", 64990, &[("10.1.250.0/24", None)]);
    }
    let mut cache: HashMap<(String, String, u64), ObjSpec> = HashMap::new();
    let mut versions = Vec::new();
    for v in sc["versions"].as_array().unwrap() {
        let mut objects = Vec::new();
        for o in v["objects"].as_array().unwrap() {
            let name = o["name"].as_str().unwrap().to_string();
            let kind = o["kind"].as_str().unwrap().to_string();
            let slot = o["slot"].as_u64().unwrap_or(0);
            let key = (name.clone(), kind.clone(), slot);
            let mut obj = match cache.get(&key) {
                Some(x) => x.clone(),
                None => {
                    let k = match kind.as_str() {
                        "roa" => ObjKind::Roa {
                            asn: 64500 + slot as u32, ee: s.ee(),
                            prefixes: vec![RoaPrefix { prefix: format!("10.1.{}.0/24", slot), max_len: None }],
                        },
                        "roa2" => ObjKind::Roa {
                            asn: 64500 + slot as u32, ee: s.ee(),
                            prefixes: vec![RoaPrefix { prefix: format!("10.1.{}.0/24", 100 + slot), max_len: Some(28) },
                                           RoaPrefix { prefix: format!("2001:db8:1:{:x}::/64", slot), max_len: None }],
                        },
                        "aspa" => ObjKind::Aspa { customer: 64600 + slot as u32, providers: vec![64700 + slot as u32, 64800], ee: s.ee() },
                        "router" => {
                            let mut cert = s.ee();
                            cert.ee_key = rv_harness::rpkigen::keys::FIRST_EE_KEY;
                            ObjKind::Router { asns: vec![(64500 + slot as u32, 64500 + slot as u32)], key: (slot % 4) as usize, cert }
                        }
                        "gbr" => ObjKind::Gbr { ee: s.ee() },
                        "other" => ObjKind::Other { content: format!("content {}", slot) },
                        "ca" => ObjKind::Ca { subject: "G".into(), key: None,
                                              resources: res(&["10.1.250.0/24"], &[], &[(64990, 64999)]), cert: s.ca_cert_times() },
                        x => panic!("unknown object kind {}", x),
                    };
                    let x = ObjSpec { name: name.clone(), kind: k, faults: vec![] };
                    cache.insert(key, x.clone());
                    x
                }
            };
            obj.faults = faults_of(&o["faults"]);
            objects.push(obj);
        }
        let number = v["number"].as_u64().unwrap();
        let this_update = v["this_update"].as_i64().unwrap();
        versions.push(VersionSpec {
            mft: MftSpec { number, this_update, next_update: DAY, ee: s.ee(), faults: faults_of(&v["mft_faults"]) },
            crl: CrlSpec { number, this_update: -2 * HOUR, next_update: DAY, revoked: vec![], faults: faults_of(&v["crl_faults"]) },
            objects,
        });
    }
    s.spec.ca_mut("P").unwrap().versions = versions;
    Made { spec: s.spec, point: "P".into(), base_ca }
}

//------------ ground truth -> model input -------------------------------------------

struct Interner { map: BTreeMap<String, u64> }
impl Interner {
    fn new() -> Self { Interner { map: BTreeMap::new() } }
    fn id(&mut self, k: String) -> u64 { let n = self.map.len() as u64 + 1; *self.map.entry(k).or_insert(n) }
    fn get(&self, k: &str) -> u64 { self.map.get(k).copied().unwrap_or(UNKNOWN) }
}

fn key_origin(prefix: &str, max_len: u8, asn: u32) -> String { format!("o {} {} {}", prefix, max_len, asn) }
fn key_rk(key_id: &str, asn: u32, info: &str) -> String { format!("k {} {} {}", key_id, asn, info) }
fn key_aspa(customer: u32, providers: &[u32]) -> String { let mut p = providers.to_vec(); p.sort(); format!("a {} {:?}", customer, p) }

fn kind_matches(name: &str, obj: &ObjTruth) -> bool {
    match obj {
        ObjTruth::Ca(_) | ObjTruth::Router { .. } => name.ends_with(".cer"),
        ObjTruth::Roa { .. } => name.ends_with(".roa"),
        ObjTruth::Aspa { .. } => name.ends_with(".asa"),
        ObjTruth::Gbr { .. } => name.ends_with(".gbr"),
        ObjTruth::Other { .. } => !(name.ends_with(".cer") || name.ends_with(".roa") || name.ends_with(".asa") || name.ends_with(".gbr")),
    }
}

/// Items the object contributes when the engine processes it (empty unless all verdict bits are good).
fn items_of(truth: &Truth, name: &str, obj: &ObjTruth, items: &mut Interner) -> Vec<u64> {
    if !kind_matches(name, obj) || !obj.all_good() { return vec![] }
    match obj {
        ObjTruth::Roa { vrps, .. } => vrps.iter().map(|r| items.id(key_origin(&r.prefix, r.max_len, r.asn))).collect(),
        ObjTruth::Aspa { customer, providers, .. } => vec![items.id(key_aspa(*customer, providers))],
        ObjTruth::Router { keys, .. } => keys.iter().map(|k| items.id(key_rk(&k.key_id, k.asn, &k.key_info))).collect(),
        ObjTruth::Ca(c) => {
            // the constant, fault-free child below: everything its only version publishes
            let mut out = Vec::new();
            if let Some(sub) = c.subject.as_ref().and_then(|s| truth.ca(s)) {
                for e in &sub.versions[0].entries { if e.listed { out.extend(items_of(truth, &e.name, &e.obj, items)); } }
            }
            out
        }
        _ => vec![],
    }
}

#[derive(Clone)]
struct FileM { name: String, name_id: u64, present: bool, hash_ok: bool, items: Vec<u64> }
#[derive(Clone)]
struct VersionM {
    id: u64, present: bool, decodes: bool, valid: bool, premature: bool, stale: bool,
    crl_loc: bool, crl_inner: bool, crl_stale: bool, number: u64, this: i64,
    /// listed files sorted by name (the order the hook's permutation index refers to)
    files: Vec<FileM>,
}

fn coq_file(f: &FileM) -> String {
    format!("(mkf {} {} {} {})", f.name_id, coq_bool(f.present), coq_bool(f.hash_ok), coq_nlist(f.items.iter()))
}
fn coq_version(v: &VersionM) -> String {
    format!("(mkv {} {} {} {} {} {} {} {} {} {} {})", v.id, coq_bool(v.decodes), coq_bool(v.valid), coq_bool(v.premature),
            coq_bool(v.stale), coq_bool(v.crl_loc), coq_bool(v.crl_inner), coq_bool(v.crl_stale), v.number,
            v.this + TIME_SHIFT, coq_list(v.files.iter(), coq_file))
}

/// Index of the permutation `perm` (indices into a list of length n) in the factorial number
/// system the hook decodes.
fn perm_index(perm: &[usize]) -> u64 {
    let n = perm.len();
    let mut rest: Vec<usize> = (0..n).collect();
    let mut k = 0u64;
    let mut mul = 1u64;
    for p in perm {
        let pos = rest.iter().position(|x| x == p).expect("not a permutation");
        k += pos as u64 * mul;
        mul *= rest.len() as u64;
        rest.remove(pos);
    }
    k
}

//------------ tampering with the stored point -----------------------------------------

/// Rewrites the stored point of `mft_uri` with other cached manifest number / thisUpdate
/// (manifest bytes, CRL and objects unchanged).  Returns false if there is no stored manifest.
fn tamper(world: &World, mft_uri: &str, number: u64, this_update: i64) -> bool {
    use routinator::store::{StoredPoint, StoredPointHeader};
    use rpki::repository::x509::{Serial, Time};
    use chrono::TimeZone;
    let rel = mft_uri.strip_prefix("rsync://").unwrap();
    let path = world.cache_dir().join("stored").join("rsync").join("rsync").join(rel);
    let mut point = match StoredPoint::load_quietly(path.clone()) { Some(p) => p, None => return false };
    let mut mft = match point.manifest() { Some(m) => m.clone(), None => return false };
    let mut objects = Vec::new();
    for o in &mut point { match o { Ok(o) => objects.push(o), Err(_) => return false } }
    drop(point);
    mft.manifest_number = Serial::from(number);
    mft.this_update = Time::new(chrono::Utc.timestamp_opt(world.built.now + this_update, 0).unwrap());
    let uri: rpki::uri::Rsync = std::str::FromStr::from_str(mft_uri).unwrap();
    let header = StoredPointHeader::verif_from_parts(uri, None, true, Time::now());
    let mut buf = Vec::new();
    header.write(&mut buf).unwrap();
    mft.write(&mut buf).unwrap();
    for o in &objects { o.write(&mut buf).unwrap(); }
    std::fs::write(&path, buf).unwrap();
    true
}

//------------ one case ---------------------------------------------------------------

fn run_case(sc: &Value) -> CaseOut {
    let made = make_spec(sc);
    let built = match build(&made.spec) { Ok(b) => b, Err(e) => panic!("build: {} for {}", e, sc) };
    let truth = built.truth.clone();
    let pt = truth.ca(&made.point).unwrap().clone();
    let mut items = Interner::new();
    let mut names = Interner::new();
    // base payload: everything the constant parent publishes itself
    let mut base: Vec<u64> = Vec::new();
    if let Some(a) = made.base_ca.as_ref().and_then(|a| truth.ca(a)) {
        for e in &a.versions[0].entries {
            if let ObjTruth::Ca(_) = e.obj { continue }
            if e.listed { base.extend(items_of(&truth, &e.name, &e.obj, &mut items)); }
        }
    }
    let crl_name = pt.crl_uri.rsplit('/').next().unwrap().to_string();
    let mut sha_id: HashMap<String, u64> = HashMap::new();
    let mut versions: Vec<VersionM> = Vec::new();
    for (i, v) in pt.versions.iter().enumerate() {
        let m = &v.mft;
        let c = &v.crl;
        let mut files: Vec<FileM> = Vec::new();
        if c.listed {
            files.push(FileM { name: crl_name.clone(), name_id: 0, present: c.present, hash_ok: c.hash_ok, items: vec![] });
        }
        for e in v.entries.iter().filter(|e| e.listed) {
            files.push(FileM { name: e.name.clone(), name_id: 0, present: e.present, hash_ok: e.hash_ok,
                               items: items_of(&truth, &e.name, &e.obj, &mut items) });
        }
        files.sort_by(|a, b| a.name.as_bytes().cmp(b.name.as_bytes()));
        for f in &mut files { f.name_id = names.id(f.name.clone()); }
        let id = *sha_id.entry(m.sha256.clone()).or_insert(i as u64 + 1);
        versions.push(VersionM {
            id, present: m.present, decodes: m.decodes,
            valid: m.content_sig_ok && m.ee.sig_ok && m.ee.valid_now && m.ee.res_within,
            premature: m.premature, stale: m.stale,
            crl_loc: m.ee.crl_uri_ok && c.listed && c.present && c.hash_ok,
            crl_inner: c.decodes && c.sig_ok && !m.ee.revoked,
            crl_stale: c.stale, number: m.number, this: m.this_update, files,
        });
    }
    let mft_uri = pt.mft_uri.clone();
    let world = World::new(built).expect("world");

    let mut coll: Option<usize> = None;       // version the collector's copy of the module holds
    let mut runs_coq = Vec::new();
    let mut obs_coq = Vec::new();
    let mut obs_json = Vec::new();
    let mut nontrivial = false;
    for r in sc["runs"].as_array().unwrap() {
        let serve = r["serve"].as_u64().map(|x| x as usize);
        let unreachable = r["unreachable"].as_bool().unwrap_or(false);
        let no_update = r["no_update"].as_bool().unwrap_or(false);
        let stale = r["stale"].as_str().unwrap_or("reject").to_string();
        let mut plan = ServePlan::step(0).with_version(&made.point, serve);
        if unreachable { plan = plan.unreachable(&pt.module); }
        world.serve(&plan).expect("serve");
        if !no_update && !unreachable { coll = serve; }
        // tamper with the stored copy before the run
        let mut tamper_coq = "None".to_string();
        if let Some(t) = r.get("tamper").filter(|t| !t.is_null()) {
            let (n, tu) = (t["number"].as_u64().unwrap(), t["this_update"].as_i64().unwrap());
            if tamper(&world, &mft_uri, n, tu) { tamper_coq = format!("(Some ({}, {}))", n, tu + TIME_SHIFT); }
        }
        let fetched: Option<&VersionM> = if no_update { None } else { coll.map(|v| &versions[v.min(versions.len() - 1)]).filter(|v| v.present) };
        // iteration order
        let perm: Option<Vec<usize>> = r.get("order").and_then(|o| o.as_array()).map(|a| a.iter().map(|x| x.as_u64().unwrap() as usize).collect());
        let n_files = fetched.map(|v| v.files.len()).unwrap_or(0);
        let perm_used: Vec<usize> = match &perm {
            Some(p) if p.len() == n_files => p.clone(),
            _ => (0..n_files).collect(),
        };
        let site = format!("engine.manifest_order {}", mft_uri);
        match &perm {
            Some(p) if p.len() == n_files && n_files > 0 => routinator::verif::set_forced(&site, vec![perm_index(p)]),
            Some(_) => routinator::verif::set_forced(&site, vec![0]),
            None => { }
        }
        let cfg = RunCfg { stale: stale.clone(), no_update, ..RunCfg::default() };
        let out = world.run(&cfg);
        if perm.is_some() { routinator::verif::set_forced(&site, vec![]); }

        let fetch_coq = if no_update { "NoCollector".to_string() } else {
            match fetched {
                None => "NoManifest".to_string(),
                Some(v) => format!("(Collected {} {})", coq_version(v), coq_nlist(perm_used.iter())),
            }
        };
        let pol = match stale.as_str() { "reject" => "Reject", "warn" => "Warn", _ => "Accept" };
        runs_coq.push(format!("(mkr {} {} {})", pol, tamper_coq, fetch_coq));

        // observation
        let mut pay: Vec<u64> = Vec::new();
        for o in &out.payload.origins { pay.push(items.get(&key_origin(&o.prefix, o.max_len, o.asn))); }
        for k in &out.payload.router_keys { pay.push(items.get(&key_rk(&k.key_id, k.asn, &k.key_info))); }
        for a in &out.payload.aspas { pay.push(items.get(&key_aspa(a.customer, &a.providers))); }
        pay.sort();
        pay.dedup();
        let st = out.store.iter().find(|p| p.manifest_uri == mft_uri && p.manifest_number.is_some());
        let store_coq = match st {
            None => "None".to_string(),
            Some(p) => {
                let mut objs: Vec<u64> = p.objects.iter().map(|u| names.get(u.rsplit('/').next().unwrap())).collect();
                objs.sort();
                format!("(Some ({}, {}, {}, {}))", p.manifest_number.unwrap(), p.this_update.unwrap() + TIME_SHIFT,
                        p.manifest_sha256.as_ref().and_then(|s| sha_id.get(s)).copied().unwrap_or(UNKNOWN), coq_nlist(objs.iter()))
            }
        };
        let ok = out.result == "ok";
        obs_coq.push(format!("(mko {} {} {})", coq_bool(ok), coq_nlist(pay.iter()), store_coq));
        obs_json.push(json!({
            "result": out.result, "payload": pay,
            "origins": out.payload.origins.iter().map(|o| format!("{} AS{}", o.prefix, o.asn)).collect::<Vec<_>>(),
            "store": st.map(|p| json!({"number": p.manifest_number, "this_update": p.this_update, "objects": p.objects.iter().map(|u| u.rsplit('/').next().unwrap().to_string()).collect::<Vec<_>>()})),
            "order_forced": perm.is_some(),
        }));
        if fetched.map(|v| v.files.iter().any(|f| !f.present || !f.hash_ok) || !(v.decodes && v.valid)).unwrap_or(true)
            || unreachable || tamper_coq != "None" { nontrivial = true; }
    }
    let coq = format!("(mkc {} {} {})", coq_nlist(base.iter()), coq_list(runs_coq.iter(), |s| s.clone()), coq_list(obs_coq.iter(), |s| s.clone()));
    CaseOut { obs: json!({"runs": obs_json, "items": items.map, "names": names.map}), coq, nontrivial }
}

//------------ generators ------------------------------------------------------------

fn obj(name: &str, kind: &str, slot: u64, faults: &[&str]) -> Value { json!({"name": name, "kind": kind, "slot": slot, "faults": faults}) }
/// this_update for "time step" t (0..15): -20 h + t h, always more than an hour in the past.
fn tu(t: i64) -> i64 { -20 * HOUR + t * HOUR }
fn ver(number: u64, t: i64, objects: Vec<Value>) -> Value {
    json!({"number": number, "this_update": tu(t), "mft_faults": [], "crl_faults": [], "objects": objects})
}
fn run(serve: Option<usize>) -> Value { json!({"serve": serve, "stale": "reject"}) }
fn run_o(serve: usize, order: &[usize]) -> Value { json!({"serve": serve, "stale": "reject", "order": order}) }
fn scen(layout: &str, versions: Vec<Value>, runs: Vec<Value>) -> Value { json!({"layout": layout, "versions": versions, "runs": runs}) }

fn v1_objects() -> Vec<Value> { vec![obj("a.roa", "roa", 0, &[]), obj("b.roa", "roa", 1, &[])] }

fn perms(n: usize) -> Vec<Vec<usize>> {
    fn rec(cur: &mut Vec<usize>, used: &mut Vec<bool>, n: usize, out: &mut Vec<Vec<usize>>) {
        if cur.len() == n { out.push(cur.clone()); return }
        for i in 0..n { if !used[i] { used[i] = true; cur.push(i); rec(cur, used, n, out); cur.pop(); used[i] = false; } }
    }
    let mut out = Vec::new();
    rec(&mut Vec::new(), &mut vec![false; n], n, &mut out);
    out
}

/// Stream `order`: aborted updates with every position of the faulty file.
fn gen_order(rng: &mut Rng, tier: &str) -> Vec<(String, Value)> {
    let mut out = Vec::new();
    let thorough = tier == "thorough";
    // F1 shape: v1 = {a,b}; v2 = {a, c (new), m (faulty)} (b withdrawn); files sorted: P.crl a.roa c.roa m.roa
    for fault in ["Missing", "HashMismatch"] {
        let v2 = vec![obj("a.roa", "roa", 0, &[]), obj("c.roa", "roa", 2, &[]), obj("m.roa", "roa", 3, &[fault])];
        let all = perms(4);
        let chosen: Vec<Vec<usize>> = if thorough { all } else {
            // every position of the faulty file (index 3) and of the new ROA (index 2) relative to it
            all.into_iter().filter(|p| p[0] == 0 || p[3] == 0).collect()
        };
        for p in chosen {
            out.push((format!("abort-{}-all-positions", fault), scen("child", vec![ver(1, 0, v1_objects()), ver(2, 1, v2.clone())],
                      vec![run(Some(0)), run_o(1, &p), json!({"serve": 1, "stale": "reject", "no_update": true})])));
        }
    }
    // fresh cache: aborted update with nothing stored
    for p in [vec![0usize, 1, 2], vec![2, 1, 0], vec![1, 2, 0]] {
        out.push(("abort-nothing-stored".into(), scen("child", vec![ver(1, 0, vec![obj("a.roa", "roa", 0, &[]), obj("m.roa", "roa", 3, &["Missing"])])],
                  vec![run_o(0, &p)])));
    }
    // the faulty file is the CRL entry itself cannot happen past validation; other object kinds processed before the abort
    let kinds: [(&str, &str); 5] = [("n.asa", "aspa"), ("n.cer", "router"), ("n.roa", "roa2"), ("n.gbr", "gbr"), ("n.cer", "ca")];
    for (name, kind) in kinds {
        for layout in ["child", "ta"] {
            let mut v2 = v1_objects();
            v2.push(obj(name, kind, 5, &[]));
            v2.push(obj("zz.txt", "other", 1, &["Missing"]));
            // sorted names: P.crl a.roa b.roa n.* zz.txt -> new object first, faulty file last; and the reverse
            for p in [vec![3usize, 0, 1, 2, 4], vec![4, 3, 2, 1, 0]] {
                out.push((format!("abort-after-{}", kind), scen(layout, vec![ver(1, 0, v1_objects()), ver(2, 1, v2.clone())],
                          vec![run(Some(0)), run_o(1, &p), run(Some(0))])));
            }
        }
    }
    // complete update under every order of three files
    for p in perms(3) {
        out.push(("complete-update-orders".into(), scen("child", vec![ver(1, 0, vec![obj("a.roa", "roa", 0, &[])]),
                  ver(2, 1, vec![obj("a.roa", "roa", 0, &[]), obj("c.roa", "roa", 2, &[])])], vec![run(Some(0)), run_o(1, &p)])));
    }
    // random: 2..5 objects, one or two faulty files, random permutation
    let n_rand = if thorough { 400 } else { 60 };
    for _ in 0..n_rand {
        let n = rng.range(2, 5) as usize;
        let kinds = ["roa", "roa", "aspa", "router", "other", "gbr", "roa2"];
        let mut v2 = Vec::new();
        for i in 0..n {
            let kind = *rng.pick(&kinds);
            let ext = match kind { "roa" | "roa2" => "roa", "aspa" => "asa", "router" => "cer", "gbr" => "gbr", _ => "txt" };
            let fault: Vec<&str> = if rng.chance(1, 3) { vec![*rng.pick(&["Missing", "HashMismatch"])] } else if rng.chance(1, 6) { vec![*rng.pick(&["Garbage", "BadSignature", "Expired"])] } else { vec![] };
            let fault: Vec<&str> = if kind == "other" { fault.into_iter().filter(|f| *f == "Missing" || *f == "HashMismatch").collect() } else if kind == "router" { fault.into_iter().filter(|f| *f != "BadContentSignature").collect() } else { fault };
            v2.push(obj(&format!("f{}.{}", i, ext), kind, 10 + i as u64, &fault));
        }
        let mut p: Vec<usize> = (0..n + 1).collect();
        rng.shuffle(&mut p);
        let layout = if rng.chance(1, 4) { "ta" } else { "child" };
        out.push(("random-abort-order".into(), scen(layout, vec![ver(1, 0, v1_objects()), ver(2, 1, v2)],
                  vec![run(Some(0)), run_o(1, &p), run(Some(1))])));
    }
    out
}

const MFT_FAULTS: [&str; 9] = ["BadSignature", "BadContentSignature", "Expired", "NotYetValid", "Revoked", "WrongCrlUri", "Garbage", "Stale", "Premature"];
const CRL_FAULTS: [&str; 6] = ["BadSignature", "HashMismatch", "Missing", "Unlisted", "Garbage", "Stale"];

/// Stream `hist`: faults of manifest and CRL, regressions, replays, unreachable repository, policies.
fn gen_hist(rng: &mut Rng, tier: &str) -> Vec<(String, Value)> {
    let mut out = Vec::new();
    let thorough = tier == "thorough";
    let v1 = || ver(5, 5, v1_objects());
    let v2objs = || vec![obj("a.roa", "roa", 0, &[]), obj("c.roa", "roa", 2, &[])];
    // manifest number / thisUpdate grid around the stored (5, 5)
    for (dn, dt) in [(0i64, 0i64), (0, 1), (1, 0), (1, 1), (-1, 1), (1, -1), (-1, -1), (0, -1), (-1, 0), (3, 2)] {
        let v2 = ver((5 + dn) as u64, 5 + dt, v2objs());
        out.push((format!("newer-grid dn={} dt={}", dn.signum(), dt.signum()), scen("child", vec![v1(), v2], vec![run(Some(0)), run(Some(1)), run(Some(0))])));
    }
    // every manifest fault on the second version (stored version must stay), then a good third version
    for f in MFT_FAULTS {
        for pol in ["reject", "warn", "accept"] {
            if pol != "reject" && f != "Stale" && !thorough { continue }
            let mut v2 = ver(6, 6, v2objs());
            v2["mft_faults"] = json!([f]);
            let v3 = ver(7, 7, v2objs());
            let runs = vec![json!({"serve": 0, "stale": pol}), json!({"serve": 1, "stale": pol}), json!({"serve": 2, "stale": pol})];
            out.push((format!("mft-fault-{}-{}", f, pol), scen("child", vec![v1(), v2, v3], runs)));
        }
    }
    out.push(("mft-missing".into(), {
        let mut v2 = ver(6, 6, v2objs());
        v2["mft_faults"] = json!(["Missing"]);
        scen("child", vec![v1(), v2], vec![run(Some(0)), run(Some(1)), run(None), run(Some(0))])
    }));
    for f in CRL_FAULTS {
        for pol in ["reject", "warn", "accept"] {
            if pol != "reject" && f != "Stale" && !thorough { continue }
            let mut v2 = ver(6, 6, v2objs());
            v2["crl_faults"] = json!([f]);
            let runs = vec![json!({"serve": 0, "stale": pol}), json!({"serve": 1, "stale": pol}), json!({"serve": 1, "stale": "reject", "no_update": true})];
            out.push((format!("crl-fault-{}-{}", f, pol), scen("child", vec![v1(), v2], runs)));
        }
    }
    // a stale version accepted under accept/warn, then the policy becomes reject (stored copy no longer usable)
    for pol in ["warn", "accept"] {
        let mut v2 = ver(6, 6, v2objs());
        v2["mft_faults"] = json!(["Stale"]);
        out.push((format!("stale-stored-then-reject-{}", pol), scen("child", vec![v1(), v2],
                  vec![json!({"serve": 0, "stale": pol}), json!({"serve": 1, "stale": pol}), json!({"serve": 1, "stale": "reject"}),
                       json!({"serve": 0, "stale": "reject"}), json!({"serve": 1, "stale": pol, "no_update": true})])));
    }
    // faults on the very first version (nothing stored)
    for f in ["Garbage", "Stale", "Premature", "BadSignature"] {
        let mut a = ver(1, 0, v1_objects());
        a["mft_faults"] = json!([f]);
        out.push((format!("first-version-{}", f), scen("ta", vec![a, ver(2, 1, v2objs())], vec![run(Some(0)), run(Some(1))])));
    }
    // unreachable repository / no collector / nothing served
    out.push(("unreachable-first".into(), scen("child", vec![v1()], vec![json!({"serve": 0, "unreachable": true}), run(Some(0))])));
    out.push(("unreachable-later".into(), scen("child", vec![v1(), ver(6, 6, v2objs())],
              vec![run(Some(0)), json!({"serve": 1, "unreachable": true}), json!({"serve": 1, "no_update": true}), run(Some(1)), json!({"serve": 0, "unreachable": true})])));
    out.push(("unreachable-ta-layout".into(), scen("ta", vec![v1(), ver(6, 6, v2objs())],
              vec![run(Some(0)), json!({"serve": 1, "unreachable": true}), run(Some(1))])));
    out.push(("nothing-served".into(), scen("child", vec![v1()], vec![run(None), run(Some(0)), run(None), json!({"serve": 0, "no_update": true})])));
    // (with the "child" layout a first run without collector would also lack the parent: the base payload is only constant once the parent is stored)
    out.push(("no-collector-empty-store".into(), scen("ta", vec![v1()], vec![json!({"serve": 0, "no_update": true}), run(Some(0))])));
    // incomplete newer version with the engine's own random order (payload must be the stored version's, whatever the order)
    for f in ["Missing", "HashMismatch"] {
        let v2 = ver(6, 6, vec![obj("a.roa", "roa", 0, &[]), obj("c.roa", "roa", 2, &[]), obj("d.asa", "aspa", 3, &[]), obj("m.roa", "roa", 4, &[f])]);
        let v3 = ver(7, 7, vec![obj("a.roa", "roa", 0, &[]), obj("c.roa", "roa", 2, &[]), obj("m.roa", "roa", 4, &[])]);
        for _ in 0..(if thorough { 6 } else { 2 }) {
            out.push((format!("incomplete-{}-random-order", f), scen("child", vec![v1(), v2.clone(), v3.clone()], vec![run(Some(0)), run(Some(1)), run(Some(2)), run(Some(1))])));
        }
    }
    // object faults that do not abort (bad objects are dropped, the point is stored with all listed files)
    for f in ["Garbage", "BadSignature", "Expired", "Revoked", "WrongCrlUri", "Overclaim", "Unlisted"] {
        let v2 = ver(6, 6, vec![obj("a.roa", "roa", 0, &[]), obj("c.roa", "roa", 2, &[f]), obj("d.asa", "aspa", 3, &[])]);
        out.push((format!("object-fault-{}", f), scen("child", vec![v1(), v2], vec![run(Some(0)), run(Some(1)), json!({"serve": 1, "no_update": true})])));
    }
    // random histories over 3 versions with random numbers/times/faults and 3-4 runs
    let n_rand = if thorough { 600 } else { 80 };
    for _ in 0..n_rand {
        let mut versions = Vec::new();
        for i in 0..3u64 {
            let number = rng.range(1, 4);
            let t = rng.range(0, 3) as i64;
            let mut objs = vec![obj("a.roa", "roa", 0, &[])];
            if rng.chance(1, 2) { objs.push(obj("b.roa", "roa", 1, &[])); }
            let f: Vec<&str> = if rng.chance(1, 4) { vec![*rng.pick(&["Missing", "HashMismatch"])] } else { vec![] };
            objs.push(obj(&format!("n{}.roa", i), "roa", 20 + i, &f));
            let mut v = ver(number, t, objs);
            if rng.chance(1, 5) { v["mft_faults"] = json!([*rng.pick(&MFT_FAULTS)]); }
            if rng.chance(1, 8) { v["crl_faults"] = json!([*rng.pick(&CRL_FAULTS)]); }
            versions.push(v);
        }
        let layout = if rng.chance(1, 4) { "ta" } else { "child" };
        let mut runs = Vec::new();
        for i in 0..rng.range(3, 4) {
            let serve = if rng.chance(1, 10) { None } else { Some(rng.below(3) as usize) };
            let mut r = json!({"serve": serve, "stale": *rng.pick(&["reject", "reject", "warn", "accept"])});
            if rng.chance(1, 8) { r["unreachable"] = json!(true); }
            if rng.chance(1, 10) && !(i == 0 && layout == "child") { r["no_update"] = json!(true); }
            runs.push(r);
        }
        out.push(("random-history".into(), scen(layout, versions, runs)));
    }
    out
}

/// Stream `tamper`: the cached fields of the stored point disagree with its manifest.
fn gen_tamper(rng: &mut Rng, tier: &str) -> Vec<(String, Value)> {
    let mut out = Vec::new();
    let v1 = || ver(5, 5, v1_objects());
    let good2 = || ver(6, 6, vec![obj("a.roa", "roa", 0, &[]), obj("c.roa", "roa", 2, &[])]);
    let bad2 = || ver(6, 6, vec![obj("a.roa", "roa", 0, &[]), obj("c.roa", "roa", 2, &[]), obj("m.roa", "roa", 3, &["Missing"])]);
    let t = |n: u64, t: i64| json!({"number": n, "this_update": tu(t)});
    // cached number too high: a complete newer version is still adopted (stored copy discarded as inconsistent)
    for (cn, ct) in [(9u64, 5i64), (5, 9), (9, 9), (6, 6), (6, 5), (4, 4)] {
        out.push((format!("tamper-complete cached=({},{})", cn, ct), scen("child", vec![v1(), good2()],
                  vec![run(Some(0)), json!({"serve": 1, "stale": "reject", "tamper": t(cn, ct)}), run(Some(1))])));
        out.push((format!("tamper-incomplete cached=({},{})", cn, ct), scen("child", vec![v1(), bad2()],
                  vec![run(Some(0)), json!({"serve": 1, "stale": "reject", "tamper": t(cn, ct), "order": [0, 1, 2, 3]}), run(Some(0))])));
    }
    // tampered but the same manifest is served again / an invalid manifest is served / nothing is served: untouched
    out.push(("tamper-same-manifest".into(), scen("child", vec![v1()], vec![run(Some(0)), json!({"serve": 0, "stale": "reject", "tamper": t(9, 9)}), run(Some(0))])));
    {
        let mut g = ver(6, 6, v1_objects());
        g["mft_faults"] = json!(["Garbage"]);
        out.push(("tamper-invalid-collected".into(), scen("child", vec![v1(), g], vec![run(Some(0)), json!({"serve": 1, "stale": "reject", "tamper": t(9, 9)})])));
    }
    out.push(("tamper-no-collector".into(), scen("child", vec![v1()], vec![run(Some(0)), json!({"serve": 0, "stale": "reject", "tamper": t(9, 9), "no_update": true})])));
    let n = if tier == "thorough" { 200 } else { 20 };
    for _ in 0..n {
        let cn = rng.range(3, 8);
        let ct = rng.range(3, 8) as i64;
        let second = if rng.chance(1, 2) { good2() } else { bad2() };
        out.push(("tamper-random".into(), scen("child", vec![v1(), second, ver(rng.range(4, 8), rng.range(4, 8) as i64, v1_objects())],
                  vec![run(Some(0)), json!({"serve": 1, "stale": "reject", "tamper": t(cn, ct)}), run(Some(2))])));
    }
    out
}

fn main() {
    act_as_rsync_if_child();
    let stream = std::env::var("C03_STREAM").unwrap_or_else(|_| "order".into());
    match stream.as_str() {
        "order" => drive_par(gen_order, run_case, 4),
        "tamper" => drive_par(gen_tamper, run_case, 4),
        "hist" => drive_par(gen_hist, run_case, 4),
        x => panic!("unknown C03_STREAM {}", x),
    }
}
