//! C37: schedule-controlled replay of the real once-per-run bookkeeping of the collectors
//! (src/collector/rsync.rs `Run::load_module`, src/collector/rrdp/base.rs `Run::load_repository`) vs the Coq model
//! (coq/C37).
//!
//! A case is `rrdp` (which of the two), `dubs` (the keys whose host is dubious), `todos` (per thread: the keys it
//! loads one after the other; a key is an rsync module / an rpkiNotify URI) and `sched` (the thread to step at each
//! moment). Every thread is a real OS thread named `t<i>` that calls the real `load_module` / `load_repository`
//! (hooks `Config::verif_c37_rsync_run` / `verif_c37_rrdp_run`: a bare run of a fresh collector) for its keys.
//! The cfg(routinator_verif) rendezvous points between the atomic steps (first look into `updated`, taking the
//! mutex out of `running`, lock, second look, fetch start, fetch end, `updated.insert`, `running.remove`, return)
//! stop the thread after every atomic step of the model; the harness releases exactly the thread the schedule names
//! and waits until that thread is parked again. A thread about to lock its mutex is released only if that mutex is
//! free (probed on the real `Arc<Mutex<()>>` the thread took, `try_lock` via `Debug`), and a thread about to
//! `updated.write()` only if no thread is parked inside the `if let Some(..) = self.updated.read().get(..)` block
//! of load_repository (which holds the read guard); otherwise the step is a stutter - as in the model. After the given
//! schedule the remaining threads are run to completion round-robin; the schedule reported to Coq is the one
//! actually executed.
//! The fetch is real: rsync = `config.rsync_command` is a script that appends its source argument to a file and
//! copies nothing; RRDP = the HTTP client is pointed at a proxy in this process that logs the CONNECT line and
//! answers 403, so every update attempt fails fast ("unavailable"). Observed: the log of events (fetch started /
//! fetch ended - recorded by the hook right where `command.update` / `RepositoryUpdate::try_update` is called and
//! returns - and "returned", recorded by the thread right after load_* returned), cross-checked against what the
//! script / the proxy saw (a fetch seen there but not by the hook is added to the log as a fetch start of thread 99);
//! after every step where the stepped thread is parked, which mutex it has (Arc identity) and whether that mutex is
//! locked; at the end the contents of `updated` and `running`.
//! No timeouts are used as oracles: the only waits are for a released thread to reach its next point (20 s limit,
//! then the harness panics = machinery failure).
use std::collections::{BTreeMap, HashMap};
use std::io::{Read, Write};
use std::str::FromStr;
use std::sync::{Arc, Mutex, OnceLock};
use std::time::Duration;
use routinator::config::Config;
use routinator::verif as hook;
use rpki::uri;
use rv_harness::util::*;
use serde_json::{json, Value};

//------------ plumbing ------------------------------------------------------------

fn key_uri(rrdp: bool, k: u64, dub: bool) -> String {
    match (rrdp, dub) {
        (false, false) => format!("rsync://host{}.example/mod/", k),
        (false, true) => format!("rsync://127.0.0.{}/mod/", k + 1),
        (true, false) => format!("https://host{}.example/notification.xml", k),
        (true, true) => format!("https://127.0.0.{}/notification.xml", k + 1),
    }
}

/// A proxy that answers every request with 403 and logs the request lines.
struct Proxy { port: u16, lines: Arc<Mutex<Vec<String>>> }

fn proxy() -> &'static Proxy {
    static P: OnceLock<Proxy> = OnceLock::new();
    P.get_or_init(|| {
        let l = std::net::TcpListener::bind("127.0.0.1:0").unwrap();
        let port = l.local_addr().unwrap().port();
        let lines = Arc::new(Mutex::new(Vec::new()));
        let l2 = lines.clone();
        std::thread::spawn(move || {
            for c in l.incoming() {
                let Ok(mut c) = c else { continue };
                let _ = c.set_read_timeout(Some(Duration::from_secs(2)));
                let mut buf = Vec::new();
                let mut b = [0u8; 512];
                while !buf.windows(4).any(|w| w == b"\r\n\r\n") {
                    match c.read(&mut b) { Ok(0) | Err(_) => break, Ok(n) => buf.extend_from_slice(&b[..n]) }
                }
                let first = String::from_utf8_lossy(&buf).lines().next().unwrap_or("").to_string();
                l2.lock().unwrap().push(first);
                let _ = c.write_all(b"HTTP/1.1 403 Forbidden\r\nContent-Length: 0\r\nConnection: close\r\n\r\n");
            }
        });
        Proxy { port, lines }
    })
}

/// The hook types live in private modules of routinator and cannot be named: closures over them.
struct Api {
    load: Box<dyn Fn(&str) -> u8 + Send + Sync>,
    event: Box<dyn Fn(&str, &str) + Send + Sync>,
    events: Box<dyn Fn() -> Vec<(String, String, String)> + Send + Sync>,
    updated: Box<dyn Fn() -> Vec<String> + Send + Sync>,
    running: Box<dyn Fn() -> Vec<(String, usize, bool)> + Send + Sync>,
    mutex_of: Box<dyn Fn(&str) -> Option<(usize, bool)> + Send + Sync>,
    metrics_len: Box<dyn Fn() -> usize + Send + Sync>,
    /// what the fetch target saw: key URI prefix -> number of fetches
    wire: Box<dyn Fn() -> Vec<String> + Send + Sync>,
    _dir: tempfile::TempDir,
}

macro_rules! api { ($run:expr, |$r:ident, $u:ident| $load:expr, $wire:expr, $dir:expr) => {{
    let run = Arc::new($run);
    let (r1, r2, r3, r4, r5, r6, r7) = (run.clone(), run.clone(), run.clone(), run.clone(), run.clone(), run.clone(), run.clone());
    Api {
        load: Box::new(move |$u: &str| { let $r = &*r1; $load }),
        event: Box::new(move |k: &str, key: &str| r2.event(k, key)),
        events: Box::new(move || r3.events()),
        updated: Box::new(move || r4.updated()),
        running: Box::new(move || r5.running()),
        mutex_of: Box::new(move |t: &str| r6.mutex_of(t)),
        metrics_len: Box::new(move || r7.metrics_len()),
        wire: Box::new($wire),
        _dir: $dir,
    }
}} }

/// The rsync collector is made once per process (making one runs `rsync -h`); every case is a new run of it.
/// Returns the config and the file the fake rsync appends its source argument to.
fn rsync_env() -> &'static (Config, std::path::PathBuf, tempfile::TempDir) {
    static E: OnceLock<(Config, std::path::PathBuf, tempfile::TempDir)> = OnceLock::new();
    E.get_or_init(|| {
        let dir = tempfile::tempdir().unwrap();
        let log = dir.path().join("rsync.log");
        let script = dir.path().join("fake-rsync.sh");
        // the source (the module URI) is the last but one argument
        std::fs::write(&script, format!(
            "#!/bin/sh\nif [ \"$1\" = \"-h\" ]; then echo 'fake rsync'; exit 0; fi\n\
             while [ $# -gt 2 ]; do shift; done\nprintf '%s\\n' \"$1\" >> '{}'\nexit 0\n", log.display())).unwrap();
        use std::os::unix::fs::PermissionsExt;
        std::fs::set_permissions(&script, std::fs::Permissions::from_mode(0o755)).unwrap();
        let mut config = Config::default_with_paths(Default::default(), dir.path().join("cache"));
        config.rsync_command = script.display().to_string();
        config.disable_rrdp = true;
        (config, log, dir)
    })
}

fn start_rsync() -> Api {
    let (config, log, _) = rsync_env();
    let run = config.verif_c37_rsync_run().expect("rsync collector");
    let offset = std::fs::read_to_string(log).unwrap_or_default().lines().count();
    api!(run, |r, u| { r.load(&uri::Rsync::from_str(u).expect("rsync uri")); 0u8 },
         move || std::fs::read_to_string(log).unwrap_or_default().lines().skip(offset).map(|l| l.to_string()).collect(),
         tempfile::tempdir().unwrap())
}

fn start_rrdp() -> Api {
    let dir = tempfile::tempdir().unwrap();
    let p = proxy();
    let mut config = Config::default_with_paths(Default::default(), dir.path().join("cache"));
    config.disable_rsync = true;
    config.rrdp_proxies = vec![format!("http://127.0.0.1:{}", p.port)];
    config.rrdp_timeout = Some(Duration::from_secs(10));
    config.rrdp_connect_timeout = Some(Duration::from_secs(10));
    let run = config.verif_c37_rrdp_run().expect("rrdp collector");
    let offset = p.lines.lock().unwrap().len();
    // "CONNECT host5.example:443 HTTP/1.1" -> the notify URI of that host
    api!(run, |r, u| r.load(&uri::Https::from_str(u).expect("https uri")),
         move || proxy().lines.lock().unwrap()[offset..].iter().map(|l| {
             let host = l.split_whitespace().nth(1).unwrap_or("").split(':').next().unwrap_or("").to_string();
             format!("https://{}/notification.xml", host)
         }).collect(), dir)
}


//------------ one schedule-controlled run ---------------------------------------------

const STEPS: [(&str, u64); 10] = [("checked1", 1), ("got_mutex", 2), ("locked", 3), ("unchecked2", 4), ("fetching", 5),
    ("fetched", 6), ("inserted", 7), ("removed", 8), ("found2", 9), ("removed2", 10)];
/// parked right before `updated.write()`: no step of the model lies between the previous point and this one
const TRANSPARENT: u64 = 50;
const END: u64 = 100;

/// The points of thread i with the model's pc code of a thread parked there.
fn points(rrdp: bool, i: usize, ncalls: usize) -> Vec<(String, u64)> {
    let f = if rrdp { "rrdp.load_repository" } else { "rsync.load_module" };
    let mut v: Vec<(String, u64)> = STEPS.iter().map(|(s, c)| (format!("{}.{}@t{}", f, s, i), *c)).collect();
    v.push((format!("{}.inserting@t{}", f, i), TRANSPARENT));
    for n in 0..ncalls { v.push((format!("c37.start{}@t{}", n, i), 0)); }
    v.push((format!("c37.end@t{}", i), END));
    v
}

struct Worker { name: String, pts: Vec<(String, u64)>, at: usize, code: u64, handle: Option<std::thread::JoinHandle<()>> }

impl Worker {
    fn done(&self) -> bool { self.code == END }
    fn transparent(&self) -> bool { self.pts[self.at].1 == TRANSPARENT }
    /// waits until the thread is parked at one of its points other than the one it just left
    fn wait_parked(&mut self, leaving: Option<usize>) {
        let ids: Vec<&str> = self.pts.iter().enumerate().filter(|(k, _)| Some(*k) != leaving).map(|(_, p)| p.0.as_str()).collect();
        match hook::wait_any(&ids, Duration::from_secs(20)) {
            Some(id) => {
                self.at = self.pts.iter().position(|p| p.0 == id).unwrap();
                if !self.transparent() { self.code = self.pts[self.at].1; }
            }
            None => panic!("machinery: released thread {} did not reach its next point within 20 s (left {:?})",
                           self.name, leaving.map(|k| self.pts[k].0.clone())),
        }
    }
}

struct Outcome {
    sched: Vec<usize>,
    trace: Vec<(u64, usize, bool)>,
    events: Vec<(u64, u64, u64)>,
    updated: Vec<u64>,
    running: Vec<(u64, bool)>,
    wire: BTreeMap<u64, u64>,
    metrics: usize,
    failed: bool,
}

fn play(rrdp: bool, dubs: &[u64], todos: &[Vec<u64>], sched: &[usize]) -> Outcome {
    hook::reset();
    let n = todos.len();
    let api = Arc::new(if rrdp { start_rrdp() } else { start_rsync() });
    let uri_of = |k: u64| key_uri(rrdp, k, dubs.contains(&k));
    // the strings under which a key shows up: its URI; for rsync the module is printed the same way
    let mut key_of: HashMap<String, u64> = HashMap::new();
    for t in todos { for k in t { key_of.insert(uri_of(*k), *k); } }
    let failed = Arc::new(Mutex::new(false));
    let mut workers: Vec<Worker> = Vec::new();
    for i in 0..n {
        let pts = points(rrdp, i, todos[i].len());
        for p in &pts { hook::arm(&p.0); }
        let todo: Vec<String> = todos[i].iter().map(|k| uri_of(*k)).collect();
        let api = api.clone();
        let failed = failed.clone();
        let handle = std::thread::Builder::new().name(format!("t{}", i)).spawn(move || {
            for (c, u) in todo.iter().enumerate() {
                hook::point(&format!("c37.start{}@t{}", c, i));
                if (api.load)(u) != 0 { *failed.lock().unwrap() = true; }
                (api.event)("ret", u);
            }
            hook::point(&format!("c37.end@t{}", i));
        }).expect("spawn");
        workers.push(Worker { name: format!("t{}", i), pts, at: 0, code: 0, handle: Some(handle) });
    }
    for w in workers.iter_mut() { w.wait_parked(None); }

    let mut out = Outcome { sched: Vec::new(), trace: Vec::new(), events: Vec::new(), updated: Vec::new(),
                            running: Vec::new(), wire: BTreeMap::new(), metrics: 0, failed: false };
    let blocked = |workers: &Vec<Worker>, i: usize| -> bool {
        let w = &workers[i];
        if w.code == 2 && !w.transparent() { return (api.mutex_of)(&w.name).map(|m| m.1).unwrap_or(false) }
        if w.transparent() { return workers.iter().any(|o| o.code == 9 || o.code == 10) }
        false
    };
    // one step of thread i; returns whether the thread moved
    let step = |workers: &mut Vec<Worker>, out: &mut Outcome, i: usize| -> bool {
        let mut moved = false;
        loop {
            if workers[i].done() || blocked(workers, i) { break }
            let cur = workers[i].at;
            let was_transparent = workers[i].transparent();
            hook::release(&workers[i].pts[cur].0);
            workers[i].wait_parked(Some(cur));
            if workers[i].transparent() && !was_transparent { continue }   // nothing of the model has happened yet
            moved = true;
            break
        }
        out.sched.push(i);
        let w = &workers[i];
        out.trace.push(if w.done() || w.code < 2 { (0.max(if w.done() { 0 } else { w.code }), 0, false) } else {
            let (ptr, locked) = (api.mutex_of)(&w.name).expect("a thread past got_mutex has a mutex");
            (w.code, ptr, locked)
        });
        moved
    };
    for &i in sched { step(&mut workers, &mut out, i); }
    // run everybody to completion, round-robin
    loop {
        if workers.iter().all(|w| w.done()) { break }
        let mut progressed = false;
        for i in 0..n {
            if !workers[i].done() && !blocked(&workers, i) { progressed |= step(&mut workers, &mut out, i); }
        }
        if !progressed { panic!("machinery: no thread can move but not all are finished"); }
    }
    for w in workers.iter_mut() {
        hook::release(&w.pts[w.at].0);
        w.handle.take().unwrap().join().expect("worker panicked");
    }
    let key = |s: &str| -> u64 { *key_of.get(s).unwrap_or_else(|| panic!("unknown key string {:?}", s)) };
    for (kind, thread, k) in (api.events)() {
        let kind = match kind.as_str() { "fetch_start" => 0, "fetch_end" => 1, "ret" => 2, x => panic!("unknown event {}", x) };
        let thread: u64 = thread.trim_start_matches('t').parse().expect("thread name");
        out.events.push((kind, thread, key(&k)));
    }
    for l in (api.wire)() { *out.wire.entry(key(&l)).or_default() += 1; }
    // a fetch the target saw but the hook did not: an extra fetch start (thread 99)
    for (k, seen) in out.wire.clone() {
        let starts = out.events.iter().filter(|e| e.0 == 0 && e.2 == k).count() as u64;
        for _ in starts..seen { out.events.push((0, 99, k)); }
    }
    out.updated = (api.updated)().iter().map(|s| key(s)).collect();
    out.updated.sort();
    out.running = (api.running)().iter().map(|(s, _, l)| (key(s), *l)).collect();
    out.running.sort();
    out.metrics = (api.metrics_len)();
    out.failed = *failed.lock().unwrap();
    out
}

fn run(input: &Value) -> CaseOut {
    let rrdp = input["rrdp"].as_bool().unwrap();
    let nums = |v: &Value| -> Vec<u64> { v.as_array().unwrap().iter().map(|a| a.as_u64().unwrap()).collect() };
    let dubs = nums(&input["dubs"]);
    let todos: Vec<Vec<u64>> = input["todos"].as_array().unwrap().iter().map(|t| nums(t)).collect();
    let sched: Vec<usize> = nums(&input["sched"]).iter().map(|i| *i as usize).collect();
    let o = play(rrdp, &dubs, &todos, &sched);
    if o.failed { panic!("machinery: load_repository returned RunFailed"); }
    // mutex identities: small numbers from 1 in order of first appearance
    let mut names: HashMap<usize, u64> = HashMap::new();
    let mut name = |p: usize| -> u64 { if p == 0 { return 0 } let k = names.len() as u64 + 1; *names.entry(p).or_insert(k) };
    let trace: Vec<(u64, u64, bool)> = o.trace.iter().map(|(c, p, l)| (*c, name(*p), *l)).collect();
    let coq = format!(
        "{{| c_rrdp := {}; c_dubs := {}; c_todos := {}; c_sched := ({})%nat; c_impl := {{| o_trace := {}; o_log := {}; o_updated := {}; o_running := {}; o_done := true |}} |}}",
        coq_bool(rrdp), coq_nlist(dubs.iter()),
        coq_list(todos.iter(), |t| coq_nlist(t.iter())),
        coq_nlist(o.sched.iter()),
        coq_list(trace.iter(), |(c, m, l)| format!("({}, {}, {})", c, m, coq_bool(*l))),
        coq_list(o.events.iter(), |(a, b, c)| format!("({}, {}, {})", a, b, c)),
        coq_nlist(o.updated.iter()),
        coq_list(o.running.iter(), |(k, l)| format!("({}, {})", k, coq_bool(*l))));
    let fetches: BTreeMap<String, u64> = {
        let mut m = BTreeMap::new();
        for e in &o.events { if e.0 == 0 { *m.entry(e.2.to_string()).or_default() += 1; } }
        m
    };
    let obs = json!({
        "executed_schedule": o.sched,
        "trace": trace.iter().map(|(c, m, l)| json!([c, m, l])).collect::<Vec<_>>(),
        "events": o.events.iter().map(|(k, t, key)| { let kind = ["fetch_start", "fetch_end", "returned"][*k as usize]; json!([kind, t, key]) }).collect::<Vec<_>>(),
        "fetches_per_key": fetches,
        "seen_by_fetch_target": o.wire.iter().map(|(k, v)| (k.to_string(), *v)).collect::<BTreeMap<_, _>>(),
        "metrics_entries": o.metrics,
        "updated": o.updated, "running": o.running.iter().map(|(k, l)| json!([k, l])).collect::<Vec<_>>(),
    });
    let nontrivial = todos.iter().filter(|t| !t.is_empty()).count() >= 2;
    CaseOut { obs, coq, nontrivial }
}

//------------ schedule generation (a shadow of the step structure, used only to pick schedules) -------------------

#[derive(Clone, Copy, PartialEq, Debug)]
enum Pc { Start, Checked1, Got(u64), Locked(u64), Unchecked2(u64), Fetching(u64), Fetched(u64), Inserted(u64), Removed(u64), Found2(u64), Removed2(u64) }

#[derive(Clone)]
struct Shadow {
    rrdp: bool, dubs: Vec<u64>,
    updated: Vec<u64>, running: Vec<(u64, u64)>, held: Vec<u64>, readers: usize, next: u64,
    th: Vec<(Pc, Vec<u64>)>, feats: Vec<&'static str>,
}

impl Shadow {
    fn new(rrdp: bool, dubs: &[u64], todos: &[Vec<u64>]) -> Self {
        Shadow { rrdp, dubs: dubs.to_vec(), updated: vec![], running: vec![], held: vec![], readers: 0, next: 0,
                 th: todos.iter().map(|t| (Pc::Start, t.clone())).collect(), feats: vec![] }
    }
    fn finished(&self, i: usize) -> bool { self.th[i].1.is_empty() }
    fn feat(&mut self, f: &'static str) { if !self.feats.contains(&f) { self.feats.push(f); } }
    fn ret(&mut self, i: usize, m: Option<u64>) -> Pc {
        if let Some(m) = m { self.held.retain(|x| *x != m); }
        self.th[i].1.remove(0);
        Pc::Start
    }
    fn insert(&mut self, k: u64, m: u64, cur: Pc) -> Option<Pc> {
        if self.readers > 0 { self.feat("insert_waits_for_reader"); return None }
        if !self.updated.contains(&k) { self.updated.push(k); }
        let _ = cur;
        Some(Pc::Inserted(m))
    }
    /// one step; false if the thread is finished or blocked
    fn step(&mut self, i: usize) -> bool {
        if self.finished(i) { return false }
        let k = self.th[i].1[0];
        let pc = self.th[i].0;
        let new = match pc {
            Pc::Start => if self.updated.contains(&k) { self.feat("found_on_first_look"); self.ret(i, None) } else { Pc::Checked1 },
            Pc::Checked1 => match self.running.iter().find(|x| x.0 == k).map(|x| x.1) {
                Some(m) => { self.feat("shares_mutex"); Pc::Got(m) }
                None => {
                    if self.updated.contains(&k) { self.feat("fresh_mutex_after_update"); }
                    let m = self.next; self.next += 1; self.running.push((k, m)); Pc::Got(m)
                }
            },
            Pc::Got(m) => if self.held.contains(&m) { self.feat("blocked_on_mutex"); return false } else { self.held.push(m); Pc::Locked(m) },
            Pc::Locked(m) => if self.updated.contains(&k) {
                self.feat("found_on_second_look");
                if self.rrdp { self.readers += 1; Pc::Found2(m) } else { self.ret(i, Some(m)) }
            } else { Pc::Unchecked2(m) },
            Pc::Found2(m) => { self.running.retain(|x| x.0 != k); Pc::Removed2(m) }
            Pc::Removed2(m) => { self.readers -= 1; self.ret(i, Some(m)) }
            Pc::Unchecked2(m) => if self.dubs.contains(&k) {
                match self.insert(k, m, pc) { Some(p) => p, None => return false }
            } else { Pc::Fetching(m) },
            Pc::Fetching(m) => Pc::Fetched(m),
            Pc::Fetched(m) => match self.insert(k, m, pc) { Some(p) => p, None => return false },
            Pc::Inserted(m) => { self.running.retain(|x| x.0 != k); Pc::Removed(m) }
            Pc::Removed(m) => self.ret(i, Some(m)),
        };
        self.th[i].0 = new;
        true
    }
}

/// All maximal stutter-free interleavings of the threads in `active` from `start`.
fn enumerate(start: &Shadow, active: &[usize], limit: usize, prefix: &mut Vec<usize>, out: &mut Vec<Vec<usize>>) -> bool {
    let mut any = false;
    for &i in active {
        let mut s = start.clone();
        if s.step(i) {
            any = true;
            prefix.push(i);
            let complete = enumerate(&s, active, limit, prefix, out);
            prefix.pop();
            if !complete { return false }
        }
    }
    if !any {
        if out.len() >= limit { return false }
        out.push(prefix.clone());
    }
    true
}

fn gen(rng: &mut Rng, tier: &str) -> Vec<(String, Value)> {
    let thorough = tier == "thorough";
    let mut cases: Vec<(String, Value)> = Vec::new();
    let mk = |rrdp: bool, dubs: &[u64], todos: &[Vec<u64>], sched: &[usize]| json!({"rrdp": rrdp, "dubs": dubs, "todos": todos, "sched": sched});
    let proto = |rrdp: bool| if rrdp { "rrdp" } else { "rsync" };
    // (a) exhaustive: every interleaving (up to stutters) of two threads; stride > 1 keeps every stride-th one
    let mut exhaustive = |name: &str, rrdp: bool, dubs: Vec<u64>, todos: Vec<Vec<u64>>, warm: Vec<usize>, active: Vec<usize>, stride: usize| {
        let mut s = Shadow::new(rrdp, &dubs, &todos);
        for &i in &warm { s.step(i); }
        let mut out = Vec::new();
        let mut prefix = warm.clone();
        let complete = enumerate(&s, &active, 2_000_000, &mut prefix, &mut out);
        let class = format!("{}.{}.{}{}", if stride > 1 { "sampled" } else { "exhaustive" }, proto(rrdp), name, if complete { "" } else { ".truncated" });
        for (k, sch) in out.iter().enumerate() { if k % stride == 0 { cases.push((class.clone(), mk(rrdp, &dubs, &todos, sch))); } }
    };
    for rrdp in [false, true] {
        exhaustive("same_key", rrdp, vec![], vec![vec![5], vec![5]], vec![], vec![0, 1], 1);
        exhaustive("same_key_dubious", rrdp, vec![5], vec![vec![5], vec![5]], vec![], vec![0, 1], 1);
        exhaustive("different_keys", rrdp, vec![], vec![vec![5], vec![9]], vec![], vec![0, 1], if thorough { 13 } else { 293 });
        // thread 2 is inside its update of 5 (fetch started); 0 and 1 arrive
        exhaustive("same_key_third_fetching", rrdp, vec![], vec![vec![5], vec![5], vec![5]], vec![2; 5], vec![0, 1, 2], if thorough { 1 } else if rrdp { 47 } else { 7 });
        // thread 0 calls twice
        exhaustive("twice_same_key", rrdp, vec![], vec![vec![5, 5], vec![5]], vec![], vec![0, 1], if thorough { 1 } else { 7 });
    }
    // RRDP only: thread 1 finds 5 under the mutex (holding the read guard of `updated`) while thread 2 wants to insert 9
    exhaustive("insert_vs_reader", true, vec![], vec![vec![5], vec![5], vec![9]],
               vec![0, 0, 1, 1, 0, 0, 0, 0, 0, 0, 0, 0, 2, 2, 2, 2, 2, 2], vec![1, 2], 1);
    drop(exhaustive);
    // (b)/(c) structured random: 2-4 threads, 1-3 calls each, few distinct keys, some dubious; the class names the
    //     branches of the proof's case split the schedule reaches (computed on the shadow)
    let n = if thorough { 4000 } else { 400 };
    for k in 0..n {
        let mut r = rng.fork();
        let rrdp = k % 2 == 1;
        let nthreads = if k % 5 == 0 { 2 } else { r.range(3, 4) as usize };
        let pool: Vec<u64> = { let m = r.range(1, 3); (0..m).map(|_| r.below(12)).collect() };
        let dubs: Vec<u64> = pool.iter().copied().filter(|_| r.chance(1, 6)).collect();
        let todos: Vec<Vec<u64>> = (0..nthreads).map(|_| (0..r.range(1, 3)).map(|_| *r.pick(&pool)).collect()).collect();
        let total: usize = todos.iter().map(|t| t.len() * 6).sum();
        let len = r.range(total as u64 / 2, total as u64 + 6) as usize;
        // bursts: a thread usually keeps running for a few steps (so that sections get entered and preempted)
        let mut sched = Vec::new();
        let mut cur = r.below(nthreads as u64) as usize;
        for _ in 0..len {
            if r.chance(2, 5) { cur = r.below(nthreads as u64) as usize; }
            sched.push(cur);
        }
        let mut s = Shadow::new(rrdp, &dubs, &todos);
        for &i in &sched { s.step(i); }
        let mut feats: Vec<&str> = s.feats.iter().copied().filter(|f| ["found_on_second_look", "blocked_on_mutex", "fresh_mutex_after_update", "insert_waits_for_reader"].contains(f)).collect();
        feats.sort();
        let class = format!("random.{}.{}threads{}{}", proto(rrdp), nthreads, if feats.is_empty() { "" } else { "." }, feats.join("+"));
        cases.push((class, mk(rrdp, &dubs, &todos, &sched)));
    }
    // (no malformed stream: the input is a schedule; a schedule naming a missing thread is rejected by check_case, code 9)
    cases
}

//------------ parallel execution: every driver thread talks to its own child process ---------------------------------
//
// The rendezvous registry and the event log are process-global, so one process runs one case at a time; the cases
// are spread over child processes (`c37 worker`: one JSON input per line on stdin, one JSON result per line on stdout).

fn worker_loop() {
    let stdin = std::io::stdin();
    let mut line = String::new();
    loop {
        line.clear();
        if stdin.read_line(&mut line).unwrap_or(0) == 0 { break }
        let input: Value = serde_json::from_str(&line).expect("worker input");
        let out = run(&input);
        let mut so = std::io::stdout().lock();
        writeln!(so, "{}", json!({"obs": out.obs, "coq": out.coq, "nontrivial": out.nontrivial})).unwrap();
        so.flush().unwrap();
    }
}

struct Child { _proc: std::process::Child, stdin: std::process::ChildStdin, stdout: std::io::BufReader<std::process::ChildStdout> }

thread_local! { static CHILD: std::cell::RefCell<Option<Child>> = const { std::cell::RefCell::new(None) }; }

fn run_in_child(input: &Value) -> CaseOut {
    use std::io::BufRead;
    CHILD.with(|c| {
        let mut c = c.borrow_mut();
        let child = c.get_or_insert_with(|| {
            let mut p = std::process::Command::new(std::env::current_exe().expect("own path")).arg("worker")
                .stdin(std::process::Stdio::piped()).stdout(std::process::Stdio::piped()).spawn().expect("spawn worker");
            let stdin = p.stdin.take().unwrap();
            let stdout = std::io::BufReader::new(p.stdout.take().unwrap());
            Child { _proc: p, stdin, stdout }
        });
        writeln!(child.stdin, "{}", input).expect("worker gone");
        child.stdin.flush().expect("worker gone");
        let mut line = String::new();
        if child.stdout.read_line(&mut line).unwrap_or(0) == 0 { panic!("machinery: the worker died on input {}", input); }
        let v: Value = serde_json::from_str(&line).expect("worker output");
        CaseOut { obs: v["obs"].clone(), coq: v["coq"].as_str().unwrap().to_string(), nontrivial: v["nontrivial"].as_bool().unwrap() }
    })
}

//------------ stream `stress`: real threads in lockstep, no schedule ----------------------------------------------
//
// The schedules stream steps threads from rendezvous point to rendezvous point; what lies between two points is one
// atomic step there.  Here several real threads ask one run for the same fresh key at the same moment, key after
// key, and only the number of fetches started per key is looked at: an oracle-only negative test without a model.

fn gen_stress(_rng: &mut Rng, tier: &str) -> Vec<(String, Value)> {
    let k = if tier == "thorough" { 4 } else { 1 };
    let mut v = Vec::new();
    for r in 0..k {
        v.push(("stress.rrdp".to_string(), json!({"kind": "rrdp", "threads": 8, "trials": 150, "round": r})));
        v.push(("stress.rrdp".to_string(), json!({"kind": "rrdp", "threads": 3, "trials": 150, "round": r})));
        v.push(("stress.rsync".to_string(), json!({"kind": "rsync", "threads": 8, "trials": 40, "round": r})));
    }
    v
}

fn run_stress(input: &Value) -> CaseOut {
    use std::sync::atomic::{AtomicUsize, Ordering};
    let threads = input["threads"].as_u64().unwrap() as usize;
    let trials = input["trials"].as_u64().unwrap() as usize;
    let rrdp = input["kind"] == "rrdp";
    let lockstep = |load: &(dyn Fn(usize) + Sync)| {
        let arrived = AtomicUsize::new(0);
        std::thread::scope(|scope| {
            for _ in 0..threads {
                scope.spawn(|| {
                    // pass through the rendezvous points without touching the registry of the hooks
                    routinator::verif::exempt_current_thread(true);
                    for i in 0..trials {
                        arrived.fetch_add(1, Ordering::SeqCst);
                        let mut spins = 0u32;
                        while arrived.load(Ordering::SeqCst) < (i + 1) * threads {
                            spins += 1;
                            if spins % 10_000 == 0 { std::thread::yield_now(); }
                            std::hint::spin_loop();
                        }
                        load(i);
                    }
                });
            }
        });
    };
    let (events, metrics_len): (Vec<(String, String, String)>, usize) = if rrdp {
        // repositories on a local port nobody listens on: every fetch is one failed request for the notification file
        let port = { let l = std::net::TcpListener::bind("127.0.0.1:0").unwrap(); l.local_addr().unwrap().port() };
        let dir = tempfile::tempdir().unwrap();
        let mut config = Config::default_with_paths(Default::default(), dir.path().join("cache"));
        config.allow_dubious_hosts = true;
        config.disable_rsync = true;
        config.rrdp_connect_timeout = Some(Duration::from_secs(2));
        config.rrdp_timeout = Some(Duration::from_secs(2));
        let run = config.verif_c37_rrdp_run().expect("rrdp collector");
        let uris: Vec<uri::Https> = (0..trials).map(|i| uri::Https::from_str(&format!("https://127.0.0.1:{}/repo{}/notification.xml", port, i)).unwrap()).collect();
        lockstep(&|i| { run.load(&uris[i]); });
        (run.events(), run.metrics_len())
    } else {
        let (config, _, _) = rsync_env();
        let run = config.verif_c37_rsync_run().expect("rsync collector");
        let round = input["round"].as_u64().unwrap();
        let uris: Vec<uri::Rsync> = (0..trials).map(|i| uri::Rsync::from_str(&format!("rsync://stress{}x{}.example/mod/", round, i)).unwrap()).collect();
        lockstep(&|i| { run.load(&uris[i]); });
        (run.events(), run.metrics_len())
    };
    let mut fetches: BTreeMap<String, u64> = BTreeMap::new();
    for (kind, _thread, key) in events { if kind == "fetch_start" { *fetches.entry(key).or_default() += 1; } }
    let counts: Vec<u64> = fetches.values().cloned().collect();
    let obs = json!({"keys": counts.len(), "fetches": counts.iter().sum::<u64>(), "metrics": metrics_len});
    let coq = format!("{{| s_threads := {}; s_trials := {}; i_counts := {}; i_metrics := {} |}}", threads, trials, coq_nlist(counts.iter()), metrics_len);
    CaseOut { obs, coq, nontrivial: threads > 1 }
}

fn main() {
    if std::env::var("C37_STREAM").as_deref() == Ok("stress") { drive(gen_stress, run_stress); return }
    if std::env::args().nth(1).as_deref() == Some("worker") { worker_loop(); return }
    let threads = std::env::var("C37_WORKERS").ok().and_then(|s| s.parse().ok()).unwrap_or(8);
    drive_par(gen, run_in_child, threads)
}
