//! C33, stream `iofaults`: a validation run during which a fatal I/O error occurs must fail.
//!
//! Real engine, real store, real rsync collector (stand-in transport) on a generated repository (rpkigen).
//! Run 1 fills the cache.  Then one local I/O fault is planted in the cache directory (a file where a directory
//! is expected or the other way round: EISDIR / ENOTDIR, which `utils::fatal` reports as `Failed`), the server
//! side optionally withholds the trust anchor certificate and/or publishes a new version of one CA, and run 2 is
//! observed: its result and whether its payload equals that of a twin world that went through the same two runs
//! without the fault.  The harness tells the model which task of the run hits the fault (by construction of the
//! fault); the model (coq/C33/Faults.v: the task loop of Run::process) computes the result.
use rv_harness::rpkigen::*;
use rv_harness::util::*;
use serde_json::{json, Value};
use std::path::{Path, PathBuf};

fn walk(d: &Path, out: &mut Vec<PathBuf>) {
    if let Ok(rd) = std::fs::read_dir(d) { for e in rd.flatten() { let p = e.path(); out.push(p.clone()); if p.is_dir() && !p.is_symlink() { walk(&p, out) } } }
}

/// (id, parent, module) of the CAs of a shape; the first is the trust anchor's CA.
fn shape(k: u64) -> Vec<(&'static str, &'static str, &'static str)> {
    match k {
        0 => vec![("A", "", "repo"), ("B", "A", "repo"), ("C", "A", "repo")],                       // one module: nothing deferred
        1 => vec![("A", "", "repo"), ("B", "A", "mb"), ("C", "A", "mc")],                            // own modules: children deferred
        2 => vec![("A", "", "repo"), ("B", "A", "repo"), ("C", "B", "mc"), ("D", "A", "mc")],         // grandchild, shared other module
        _ => vec![("A", "", "repo")],
    }
}

fn build_world(input: &Value) -> (Scen, Vec<(&'static str, &'static str, &'static str)>) {
    let cas = shape(input["shape"].as_u64().unwrap());
    let mut s = Scen::new();
    for (i, (id, parent, module)) in cas.iter().enumerate() {
        if parent.is_empty() {
            s.add_ta("alpha", id, 0, "rpki.alpha.example", module, res(&["10.0.0.0/8"], &[], &[(64496, 64511)]));
        } else {
            s.add_child(parent, id, i, "rpki.alpha.example", module, inherit());
        }
        s.add_roa(id, &format!("{}.roa", id.to_lowercase()), 64496 + i as u32, &[(&format!("10.{}.0.0/16", i), Some(24))]);
    }
    // step 1: optionally a new version of one CA, optionally no trust anchor certificate
    if let Some(ca) = input["new_version"].as_str() { s.push_version(ca); }
    if !input["ta_served"].as_bool().unwrap() { s.spec.tals[0].uris[0].certs.push(None); }
    (s, cas)
}

fn to_file(p: &Path) { let _ = std::fs::remove_dir_all(p); let _ = std::fs::remove_file(p); std::fs::write(p, b"not a directory").unwrap(); }
fn to_dir(p: &Path) { let _ = std::fs::remove_file(p); std::fs::create_dir_all(p).unwrap(); }

fn plant(world: &World, kind: &str, target: &str) -> bool {
    let cache = world.cache_dir();
    let mut files = Vec::new(); walk(&cache.join("stored"), &mut files);
    match kind {
        "none" => true,
        "ta_file_is_dir" => { let mut hit = false; for f in files.iter().filter(|p| p.starts_with(cache.join("stored/ta")) && p.is_file()) { to_dir(f); hit = true } hit }
        "ta_dir_is_file" => { to_file(&cache.join("stored/ta")); true }
        "point_dir_is_file" => {
            let mut hit = false;
            for f in files.iter().filter(|p| p.is_file() && p.file_name().map(|n| n.to_string_lossy() == format!("{}.mft", target)).unwrap_or(false)) {
                to_file(f.parent().unwrap()); hit = true
            }
            hit
        }
        "point_file_is_dir" => {
            let mut hit = false;
            for f in files.iter().filter(|p| p.is_file() && p.file_name().map(|n| n.to_string_lossy() == format!("{}.mft", target)).unwrap_or(false)) {
                to_dir(f); hit = true
            }
            hit
        }
        "tmp_dir_is_file" => { to_file(&cache.join("stored/tmp")); true }
        x => panic!("fault kind {}", x),
    }
}

fn two_runs(input: &Value, with_fault: bool) -> (String, RunOutcome, bool) {
    let (s, _) = build_world(input);
    let built = build(&s.spec).expect("build");
    let world = World::new(built).expect("world");
    let mut cfg = RunCfg::default();
    cfg.validation_threads = input["threads"].as_u64().unwrap() as usize;
    let first = world.run(&cfg);
    world.serve_step(1).expect("serve");
    let planted = if with_fault { plant(&world, input["fault"].as_str().unwrap(), input["target"].as_str().unwrap_or("")) } else { true };
    let second = world.run(&cfg);
    (first.result, second, planted)
}

fn gen(_rng: &mut Rng, _tier: &str) -> Vec<(String, Value)> {
    let mut v = Vec::new();
    for sh in 0..3u64 {
        let ids: Vec<&str> = shape(sh).iter().map(|c| c.0).collect();
        for threads in [1u64, 4] {
            for ta_served in [true, false] {
                let mut nvs: Vec<Value> = vec![Value::Null];
                for id in &ids { nvs.push(json!(id)); }
                for nv in &nvs {
                    let mut faults: Vec<(&str, Value)> = vec![("none", Value::Null), ("ta_file_is_dir", Value::Null), ("ta_dir_is_file", Value::Null), ("tmp_dir_is_file", Value::Null)];
                    for id in &ids { faults.push(("point_dir_is_file", json!(id))); faults.push(("point_file_is_dir", json!(id))); }
                    for (k, t) in faults {
                        // keep the product small: new versions only with the faults that need a write
                        if !nv.is_null() && !(k == "tmp_dir_is_file" || k == "none" || (k.starts_with("point_") && t == *nv)) { continue }
                        if threads == 4 && sh == 0 && !nv.is_null() { continue }
                        v.push((format!("{}.{}", k, if ta_served { "ta" } else { "nota" }),
                                json!({"shape": sh, "threads": threads, "ta_served": ta_served, "new_version": nv, "fault": k, "target": t})));
                    }
                }
            }
        }
    }
    v
}

/// Which tasks hit the fault, by construction.  Returns (Store::start fails, the TAL task fails, failing CA ids).
fn failing(input: &Value, planted: bool) -> (bool, bool, Vec<String>) {
    if !planted { return (false, false, vec![]) }
    match input["fault"].as_str().unwrap() {
        "none" => (false, false, vec![]),
        // load_ta: the stored certificate cannot be read (certificate withheld) or written (certificate fetched)
        "ta_file_is_dir" | "ta_dir_is_file" => (false, true, vec![]),
        // Store::start opens / creates stored/tmp
        "tmp_dir_is_file" => (true, false, vec![]),
        // StoredPoint::open for this CA
        "point_dir_is_file" | "point_file_is_dir" => (false, false, vec![input["target"].as_str().unwrap().to_string()]),
        x => panic!("fault kind {}", x),
    }
}

/// The CA task tree with the deferred flags of the children: a child is deferred when its rsync module has not
/// been fetched at the time its parent is processed (the trust anchor certificate's fetch covers module `repo`
/// only when the certificate is served from there - it always is).
fn tree(cas: &[(&str, &str, &str)], id: &str, fails: &[String], updated: &mut Vec<String>) -> String {
    let me = cas.iter().find(|c| c.0 == id).unwrap();
    if !updated.contains(&me.2.to_string()) { updated.push(me.2.to_string()); }
    let kids: Vec<&(&str, &str, &str)> = cas.iter().filter(|c| c.1 == id).collect();
    let defers: Vec<bool> = kids.iter().map(|k| !updated.contains(&k.2.to_string())).collect();
    let mut parts = Vec::new();
    // non-deferred children are processed (depth first) before the deferred ones leave the queue
    for (k, d) in kids.iter().zip(defers.iter()) { if !*d { parts.push((k.0, false, tree(cas, k.0, fails, updated))); } }
    for (k, d) in kids.iter().zip(defers.iter()) { if *d { parts.push((k.0, true, tree(cas, k.0, fails, updated))); } }
    // keep the certificate order of the manifest (ids are in creation order)
    parts.sort_by_key(|p| p.0);
    format!("(CT {} {})", coq_bool(fails.contains(&id.to_string())), coq_list(parts, |p| format!("({}, {})", coq_bool(p.1), p.2)))
}

fn run(input: &Value) -> CaseOut {
    let (_, cas) = build_world(input);
    let (r1, second, planted) = two_runs(input, true);
    let (t1, twin, _) = two_runs(input, false);
    let same = second.payload == twin.payload;
    let code = |r: &str| match r { "ok" => 0, "retry" => 1, "fatal" => 2, _ => 3 };
    let (start_fails, tal_fails, ca_fails) = failing(input, planted);
    let mut updated = Vec::new();
    let t = tree(&cas, cas[0].0, &ca_fails, &mut updated);
    let obs = json!({"first": r1, "twin_first": t1, "result": second.result, "twin_result": twin.result, "same_payload": same, "planted": planted,
                     "origins": second.payload.origins.len(), "twin_origins": twin.payload.origins.len(),
                     "log": second.log.iter().filter(|l| l.starts_with("ERROR")).take(3).collect::<Vec<_>>()});
    let coq = format!("{{| fc_tasks := [TTal {} (Some {})]; fc_start_fails := {}; fc_threads := {}; fc_first_ok := {}; fc_planted := {}; fc_result := {}; fc_twin := {}; fc_same := {} |}}",
        coq_bool(tal_fails), t, coq_bool(start_fails), input["threads"], coq_bool(r1 == "ok" && t1 == "ok"), coq_bool(planted), code(&second.result), code(&twin.result), coq_bool(same));
    CaseOut { obs, coq, nontrivial: start_fails || tal_fails || !ca_fails.is_empty() }
}

fn main() {
    act_as_rsync_if_child();
    drive(gen, run);
}
