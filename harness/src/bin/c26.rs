//! C26: utils::archive::Archive vs the Coq model (coq/C26).
//!
//! Every case is an operation sequence run on a real archive file.  After
//! every operation the harness records the operation's result, the result of
//! `verify()`, the list `objects()` yields and a parse of the raw file
//! (index, empty index, segments found by walking the file from the end of
//! the index by header sizes).  All of it is compared with the model in Coq.
use routinator::utils::archive::{
    AccessError, AppendArchive, Archive, ArchiveError, FetchError, ObjectMeta, PublishError, StorageRead,
    StorageWrite,
};
use rv_harness::util::*;
use serde_json::{json, Value};
use std::panic::{catch_unwind, AssertUnwindSafe};

//------------ Meta data types -------------------------------------------------

trait MetaLike: ObjectMeta<ConsistencyError = u64> + Sized {
    fn mk(v: u64) -> Self;
    fn val(&self) -> u64;
}

struct M4(u32);
impl ObjectMeta for M4 {
    const SIZE: usize = 4;
    type ConsistencyError = u64;
    fn write(&self, w: &mut StorageWrite) -> Result<(), ArchiveError> { w.write(&self.0.to_le_bytes()) }
    fn read(r: &mut StorageRead) -> Result<Self, ArchiveError> { Ok(M4(u32::from_le_bytes(r.read_array()?))) }
}
impl MetaLike for M4 {
    fn mk(v: u64) -> Self { M4(v as u32) }
    fn val(&self) -> u64 { self.0 as u64 }
}

struct M11(u64);
impl ObjectMeta for M11 {
    const SIZE: usize = 11;
    type ConsistencyError = u64;
    fn write(&self, w: &mut StorageWrite) -> Result<(), ArchiveError> {
        w.write(&self.0.to_le_bytes())?;
        w.write(&[0xEE, 0xEE, 0xEE])
    }
    fn read(r: &mut StorageRead) -> Result<Self, ArchiveError> {
        let v = u64::from_le_bytes(r.read_array()?);
        let _pad: [u8; 3] = r.read_array()?;
        Ok(M11(v))
    }
}
impl MetaLike for M11 {
    fn mk(v: u64) -> Self { M11(v) }
    fn val(&self) -> u64 { self.0 }
}

//------------ Raw file parse ---------------------------------------------------

const HDR: usize = 33;

fn rd_u64(b: &[u8], at: usize) -> u64 { u64::from_ne_bytes(b[at..at + 8].try_into().unwrap()) }

struct Seg { start: u64, size: u64, next: u64, empty: bool, name: Vec<u8>, meta: u64, data: Vec<u8>, odd: bool }
struct Snap { fsize: u64, nb: u64, idx: Vec<(u64, u64)>, eidx: u64, segs: Vec<Seg>, walk_ok: bool }

fn parse_raw(path: &std::path::Path, msz: usize) -> Snap {
    let b = std::fs::read(path).unwrap();
    let nb = rd_u64(&b, 22);
    let mut idx = Vec::new();
    for i in 0..nb {
        let p = rd_u64(&b, 30 + 8 * i as usize);
        if p != 0 { idx.push((i, p)); }
    }
    let eidx = rd_u64(&b, 30 + 8 * nb as usize);
    let mut pos = 30 + 8 * (nb as usize + 1);
    let mut segs = Vec::new();
    let mut walk_ok = true;
    while pos < b.len() {
        if pos + HDR > b.len() { walk_ok = false; break }
        let size = rd_u64(&b, pos);
        let next = rd_u64(&b, pos + 8);
        let flag = b[pos + 16];
        let name_len = rd_u64(&b, pos + 17) as usize;
        let data_len = rd_u64(&b, pos + 25) as usize;
        if size == 0 || pos as u64 + size > b.len() as u64 || flag > 1 { walk_ok = false; break }
        let empty = flag == 1;
        let mut seg = Seg { start: pos as u64, size, next, empty, name: vec![], meta: 0, data: vec![], odd: false };
        if empty {
            // ObjectHeader::new_empty writes zero lengths
            seg.odd = name_len != 0 || data_len != 0;
        } else {
            let need = HDR as u64 + name_len as u64 + msz as u64 + data_len as u64;
            if need > size { walk_ok = false; break }
            let n0 = pos + HDR;
            seg.name = b[n0..n0 + name_len].to_vec();
            let m0 = n0 + name_len;
            let mut mb = [0u8; 8];
            let k = msz.min(8);
            mb[..k].copy_from_slice(&b[m0..m0 + k]);
            seg.meta = u64::from_le_bytes(mb);
            let d0 = m0 + msz;
            seg.data = b[d0..d0 + data_len].to_vec();
        }
        segs.push(seg);
        pos += size as usize;
    }
    Snap { fsize: b.len() as u64, nb, idx, eidx, segs, walk_ok }
}

//------------ Coq / JSON printers ----------------------------------------------

fn coq_data(d: &[u8]) -> String {
    if d.len() > 4 && d.iter().all(|x| *x == d[0]) { format!("(rep {} {})", d.len(), d[0]) } else { coq_bytes(d) }
}
fn js_data(d: &[u8]) -> Value {
    if d.len() > 4 && d.iter().all(|x| *x == d[0]) { json!({"len": d.len(), "fill": d[0]}) } else { json!(d) }
}

impl Snap {
    fn coq(&self) -> String {
        // a failed walk is encoded by a file size that no tiling can reach
        let fsize = if self.walk_ok && !self.segs.iter().any(|s| s.odd) { self.fsize } else { 1 };
        format!("{{| fsize := {}; idx := {}; eidx := {}; heap := {} |}}", fsize,
            coq_list(self.idx.iter(), |(b, p)| format!("({}, {})", b, p)), self.eidx,
            coq_list(self.segs.iter(), |s| format!("({}, {{| h_size := {}; h_next := {}; h_body := {} |}})",
                s.start, s.size, s.next,
                if s.empty { "Empty".to_string() }
                else { format!("Obj {} {} {}", coq_bytes(&s.name), s.meta, coq_data(&s.data)) })))
    }
    fn json(&self) -> Value {
        json!({"fsize": self.fsize, "nb": self.nb, "idx": self.idx, "eidx": self.eidx, "walk_ok": self.walk_ok,
            "segs": self.segs.iter().map(|s| if s.empty {
                json!({"start": s.start, "size": s.size, "next": s.next, "empty": true})
            } else {
                json!({"start": s.start, "size": s.size, "next": s.next, "name": s.name, "meta": s.meta,
                       "data": js_data(&s.data)})
            }).collect::<Vec<_>>()})
    }
}

//------------ Checks (closures) --------------------------------------------------

#[derive(Clone, Copy)]
enum Chk { Ok, Eq(u64, u64), Fail(u64) }

fn chk_of(v: &Value) -> Chk {
    match v["kind"].as_str().unwrap_or("ok") {
        "eq" => Chk::Eq(v["v"].as_u64().unwrap(), v["e"].as_u64().unwrap()),
        "fail" => Chk::Fail(v["e"].as_u64().unwrap()),
        _ => Chk::Ok,
    }
}
impl Chk {
    fn apply(self, m: u64) -> Result<(), u64> {
        match self { Chk::Ok => Ok(()), Chk::Eq(v, e) => if m == v { Ok(()) } else { Err(e) }, Chk::Fail(e) => Err(e) }
    }
    fn coq(self) -> String {
        match self { Chk::Ok => "chk_ok".into(), Chk::Eq(v, e) => format!("(chk_eq {} {})", v, e),
                     Chk::Fail(e) => format!("(chk_fail {})", e) }
    }
}

//------------ Running one case -----------------------------------------------------

fn bytes_of(v: &Value) -> Vec<u8> { v.as_array().unwrap().iter().map(|x| x.as_u64().unwrap() as u8).collect() }
fn data_of(v: &Value) -> Vec<u8> {
    if v.get("data").map(|d| d.is_array()).unwrap_or(false) { return bytes_of(&v["data"]) }
    vec![v["fill"].as_u64().unwrap_or(0) as u8; v["len"].as_u64().unwrap_or(0) as usize]
}


fn access_res<T>(r: Result<T, AccessError<u64>>, ok: impl FnOnce(T) -> (String, Value)) -> (String, Value) {
    match r {
        Ok(x) => ok(x),
        Err(AccessError::NotFound) => ("RNotFound".into(), json!("not_found")),
        Err(AccessError::Inconsistent(e)) => (format!("(RInconsistent {})", e), json!({"inconsistent": e})),
        Err(AccessError::Archive(e)) => ("RErr".into(), json!({"archive_error": e.to_string()})),
    }
}

/// Coq term of one operation of the input.
fn op_term(op: &Value) -> String {
    let kind = op["op"].as_str().unwrap();
    let name = op.get("name").map(bytes_of).unwrap_or_default();
    let meta = op["meta"].as_u64().unwrap_or(0);
    let chk = chk_of(&op["chk"]);
    match kind {
        "publish" => format!("Publish {} {} {}", coq_bytes(&name), meta, coq_data(&data_of(op))),
        "update" => format!("Update {} {} {} {}", coq_bytes(&name), meta, coq_data(&data_of(op)), chk.coq()),
        "delete" => format!("Delete {} {}", coq_bytes(&name), chk.coq()),
        "fetch" => format!("Fetch {}", coq_bytes(&name)),
        "fetch_if" => format!("FetchIf {} {}", coq_bytes(&name), chk.coq()),
        "reopen" => "Reopen".to_string(),
        k => panic!("unknown op {}", k),
    }
}

/// Runs the case on the real archive (in the child process) and emits one JSON line per observation:
/// {"k":"hdr",..} first, then {"k":"init",..} per AppendArchive publish, {"k":"step",..} per operation, {"k":"end"}.
fn run_ops<M: MetaLike>(input: &Value, msz: usize, emit: &mut dyn FnMut(Value)) {
    let dir = tempfile::tempdir().unwrap();
    let path = dir.path().join("a.bin");
    let names: Vec<Vec<u8>> = {
        let mut v: Vec<Vec<u8>> = Vec::new();
        let mut add = |n: Vec<u8>| if !v.contains(&n) { v.push(n) };
        for op in input["init"].as_array().into_iter().flatten() { add(bytes_of(&op["name"])) }
        for op in input["ops"].as_array().unwrap() { if op.get("name").is_some() { add(bytes_of(&op["name"])) } }
        v
    };
    // creation
    let mut init_lines = Vec::new();
    let mut archive: Archive<M> = if !input["create"].is_object() {
        if let Some(init) = input["init"].as_array() {
            // created by AppendArchive: publishes, finalize, then opened as a normal archive
            let mut app = AppendArchive::<M>::create(&path).unwrap();
            for op in init {
                let (name, data, meta) = (bytes_of(&op["name"]), data_of(op), op["meta"].as_u64().unwrap_or(0));
                let r = app.publish(&name, &M::mk(meta), &data);
                let (res, res_js) = match r {
                    Ok(()) => ("ROk".to_string(), json!("ok")),
                    Err(PublishError::AlreadyExists) => ("RAlreadyExists".into(), json!("already_exists")),
                    Err(PublishError::Archive(e)) => ("RErr".into(), json!({"archive_error": e.to_string()})),
                };
                init_lines.push(json!({"k": "init", "res": res, "js": res_js}));
            }
            app.finalize().unwrap();
            drop(app);
            Archive::open(&path, true).unwrap()
        } else {
            Archive::create(&path).unwrap()
        }
    } else {
        let key_hex = input["create"]["key"].as_str().unwrap();
        let mut key = [0u8; 16];
        for i in 0..16 { key[i] = u8::from_str_radix(&key_hex[2 * i..2 * i + 2], 16).unwrap(); }
        let nb = input["create"]["nb"].as_u64().unwrap() as usize;
        let file = std::fs::OpenOptions::new().read(true).write(true).create_new(true).open(&path).unwrap();
        Archive::verif_create_with_file(file, key, nb).unwrap()
    };
    let buckets: Vec<(Vec<u8>, u64)> = names.iter().map(|n| (n.clone(), archive.verif_hash_name(n))).collect();
    let nb = parse_raw(&path, msz).nb;
    emit(json!({"k": "hdr", "nb": nb, "buckets": buckets}));
    for l in init_lines { emit(l) }

    let observe = |archive: &Archive<M>, res: (String, Value)| -> Value {
        let (verify, verify_js) = match catch_unwind(AssertUnwindSafe(|| archive.verify())) {
            Ok(Ok(s)) => (format!("(Ok (mkstats {} {} {} {} {} {} {}))", s.object_count, s.object_size, s.padding_size,
                              s.empty_count, s.empty_size, s.empty_min, s.empty_max),
                          json!({"object_count": s.object_count, "object_size": s.object_size, "padding": s.padding_size,
                                 "empty_count": s.empty_count, "empty_size": s.empty_size, "empty_min": s.empty_min,
                                 "empty_max": s.empty_max})),
            Ok(Err(e)) => ("(Er ECorrupt)".into(), json!({"error": e.to_string()})),
            Err(_) => ("(Er EPanic)".into(), json!("panic")),
        };
        let objs = catch_unwind(AssertUnwindSafe(|| {
            let mut out = Vec::new();
            for item in archive.objects()? {
                // an erroring iterator never advances: stop at the first error
                let (n, m, d) = item?;
                out.push((n.to_vec(), m.val(), d.to_vec()));
            }
            Ok::<_, ArchiveError>(out)
        }));
        let (objects, objects_js) = match objs {
            Ok(Ok(l)) => (format!("(Ok {})", coq_list(l.iter(), |(n, m, d)| format!("({}, {}, {})", coq_bytes(n), m, coq_data(d)))),
                          json!(l.iter().map(|(n, m, d)| json!([n, m, js_data(d)])).collect::<Vec<_>>())),
            Ok(Err(e)) => ("(Er ECorrupt)".into(), json!({"error": e.to_string()})),
            Err(_) => ("(Er EPanic)".into(), json!("panic")),
        };
        let snap = parse_raw(&path, msz);
        json!({"k": "step",
               "obs": format!("{{| o_res := {}; o_verify := {}; o_objects := {}; o_snap := {} |}}", res.0, verify, objects, snap.coq()),
               "js": {"res": res.1, "verify": verify_js, "objects": objects_js, "raw": snap.json()},
               "nt": snap.segs.len() >= 2 && snap.segs.iter().any(|s| s.empty)})
    };

    for op in input["ops"].as_array().unwrap() {
        let kind = op["op"].as_str().unwrap();
        let name = op.get("name").map(bytes_of).unwrap_or_default();
        let meta = op["meta"].as_u64().unwrap_or(0);
        let chk = chk_of(&op["chk"]);
        let r = catch_unwind(AssertUnwindSafe(|| -> (String, Value) {
            match kind {
                "publish" => match archive.publish(&name, &M::mk(meta), &data_of(op)) {
                    Ok(()) => ("ROk".into(), json!("ok")),
                    Err(PublishError::AlreadyExists) => ("RAlreadyExists".into(), json!("already_exists")),
                    Err(PublishError::Archive(e)) => ("RErr".into(), json!({"archive_error": e.to_string()})),
                },
                "update" => access_res(
                    archive.update(&name, &M::mk(meta), &data_of(op), |m| chk.apply(m.val())),
                    |()| ("ROk".into(), json!("ok"))),
                "delete" => access_res(archive.delete(&name, |m| chk.apply(m.val())), |()| ("ROk".into(), json!("ok"))),
                "fetch" => match archive.fetch(&name) {
                    Ok(d) => (format!("(RData {})", coq_data(&d)), json!({"data": js_data(&d)})),
                    Err(FetchError::NotFound) => ("RNotFound".into(), json!("not_found")),
                    Err(FetchError::Archive(e)) => ("RErr".into(), json!({"archive_error": e.to_string()})),
                },
                "fetch_if" => access_res(archive.fetch_if(&name, |m| chk.apply(m.val())),
                    |d| (format!("(RData {})", coq_data(&d)), json!({"data": js_data(&d)}))),
                _ => ("ROk".into(), json!("ok")),
            }
        }));
        if kind == "reopen" {
            // drop the handle and open the file again (writable)
            let tmp = std::mem::replace(&mut archive, Archive::open(&path, true).unwrap());
            drop(tmp);
        }
        match r {
            Ok(res) => emit(observe(&archive, res)),
            Err(_) => {
                // the operation panicked: record it and stop (the handle may be poisoned)
                emit(observe(&archive, ("RPanic".into(), json!("panic"))));
                break;
            }
        }
    }
    emit(json!({"k": "end"}));
}

/// Child process entry: one input JSON per line on stdin, observation lines on stdout.
fn child_main() {
    std::panic::set_hook(Box::new(|_| {}));
    let mut emit = |v: Value| {
        use std::io::Write;
        let mut o = std::io::stdout().lock();
        writeln!(o, "{}", v).unwrap();
        o.flush().unwrap();
    };
    for line in std::io::BufRead::lines(std::io::stdin().lock()) {
        let input: Value = serde_json::from_str(&line.unwrap()).unwrap();
        let msz = input["msz"].as_u64().unwrap_or(4) as usize;
        if msz == 11 { run_ops::<M11>(&input, 11, &mut emit) } else { run_ops::<M4>(&input, 4, &mut emit) }
    }
}

struct Worker { child: std::process::Child, stdin: std::process::ChildStdin, rx: std::sync::mpsc::Receiver<String>, served: u32 }

fn spawn_worker() -> Worker {
    use std::io::BufRead;
    use std::process::{Command, Stdio};
    let exe = std::env::current_exe().unwrap();
    let mut child = Command::new("sh")
        .arg("-c").arg("ulimit -v 4000000; ulimit -t 10; exec \"$0\" child").arg(&exe)
        .stdin(Stdio::piped()).stdout(Stdio::piped()).stderr(Stdio::null())
        .spawn().expect("spawn child");
    let stdin = child.stdin.take().unwrap();
    let out = child.stdout.take().unwrap();
    let (tx, rx) = std::sync::mpsc::channel::<String>();
    std::thread::spawn(move || {
        for line in std::io::BufReader::new(out).lines() {
            match line { Ok(l) => { if tx.send(l).is_err() { break } } Err(_) => break }
        }
    });
    Worker { child, stdin, rx, served: 0 }
}

thread_local! { static WORKER: std::cell::RefCell<Option<Worker>> = std::cell::RefCell::new(None); }

/// Runs one case in a worker process with an address-space limit, a CPU-time limit and a wall-clock deadline: a corrupted archive can make
/// the real code loop forever or allocate without bound (cyclic chain); what was observed until then is the case.
/// The worker is reused for the following cases unless it had to be killed.
fn run(input: &Value) -> CaseOut {
    use std::io::Write;
    let mut w = WORKER.with(|c| c.borrow_mut().take()).unwrap_or_else(spawn_worker);
    let sent = writeln!(w.stdin, "{}", input).and_then(|_| w.stdin.flush()).is_ok();
    let deadline = std::time::Instant::now() + std::time::Duration::from_secs(
        std::env::var("C26_CASE_TIMEOUT").ok().and_then(|s| s.parse().ok()).unwrap_or(120));
    let mut lines: Vec<Value> = Vec::new();
    let mut ended = false;
    let mut aborted = "crashed";
    while sent {
        let now = std::time::Instant::now();
        if now >= deadline { aborted = "timeout"; break }
        match w.rx.recv_timeout(deadline - now) {
            Ok(l) => {
                let v: Value = serde_json::from_str(&l).expect("child line");
                if v["k"] == "end" { ended = true; break }
                lines.push(v);
            }
            Err(std::sync::mpsc::RecvTimeoutError::Timeout) => { aborted = "timeout"; break }
            Err(std::sync::mpsc::RecvTimeoutError::Disconnected) => break,
        }
    }
    w.served += 1;
    if ended && w.served < 150 {
        // reuse; a worker is retired after 150 cases so that its CPU-time limit (10 s, against endless loops) is
        // never reached by accumulated honest work
        WORKER.with(|c| *c.borrow_mut() = Some(w));
    } else {
        let _ = w.child.kill();
        let _ = w.child.wait();
    }
    let hdr = lines.iter().find(|l| l["k"] == "hdr").expect("child produced no header (creation failed)").clone();
    let msz = input["msz"].as_u64().unwrap_or(4);
    let buckets: Vec<(Vec<u8>, u64)> = hdr["buckets"].as_array().unwrap().iter()
        .map(|b| (bytes_of(&b[0]), b[1].as_u64().unwrap())).collect();
    let init_terms: Vec<String> = input["init"].as_array().into_iter().flatten().map(|op| {
        format!("({}, {}, {})", coq_bytes(&bytes_of(&op["name"])), op["meta"].as_u64().unwrap_or(0), coq_data(&data_of(op)))
    }).collect();
    let op_terms: Vec<String> = input["ops"].as_array().unwrap().iter().map(op_term).collect();
    let inits: Vec<&Value> = lines.iter().filter(|l| l["k"] == "init").collect();
    let steps: Vec<&Value> = lines.iter().filter(|l| l["k"] == "step").collect();
    let coq = format!(
        "{{| c_nb := {}; c_msz := {}; c_buckets := {}; c_init := {}; c_init_impl := {}; c_ops := {}; c_impl := {} |}}",
        hdr["nb"], msz,
        coq_list(buckets.iter(), |(n, b)| format!("({}, {})", coq_bytes(n), b)),
        coq_list(init_terms.iter(), |t| t.clone()),
        coq_list(inits.iter(), |o| o["res"].as_str().unwrap().to_string()),
        coq_list(op_terms.iter(), |t| format!("({})", t)),
        coq_list(steps.iter(), |o| o["obs"].as_str().unwrap().to_string()),
    );
    let nontrivial = steps.iter().any(|o| o["nt"] == true);
    let mut js = json!({
        "buckets": buckets, "nb": hdr["nb"],
        "init": inits.iter().map(|o| o["js"].clone()).collect::<Vec<_>>(),
        "steps": steps.iter().map(|o| o["js"].clone()).collect::<Vec<_>>(),
    });
    // a sequence that stopped early (panic, endless loop, crash) has fewer observations than operations:
    // the oracle then fails on it (steps_okb demands one observation per operation)
    if !ended { js["aborted"] = json!(aborted); }
    CaseOut { obs: js, coq, nontrivial }
}

//------------ Generators ---------------------------------------------------------------

const KEY: &str = "000102030405060708090a0b0c0d0e0f";

fn nm(i: u64) -> Value { json!([97 + i]) }
fn publish(n: &Value, meta: u64, len: u64, fill: u64) -> Value { json!({"op": "publish", "name": n, "meta": meta, "len": len, "fill": fill}) }
fn update(n: &Value, meta: u64, len: u64, fill: u64) -> Value { json!({"op": "update", "name": n, "meta": meta, "len": len, "fill": fill, "chk": {"kind": "ok"}}) }
fn delete(n: &Value) -> Value { json!({"op": "delete", "name": n, "chk": {"kind": "ok"}}) }
fn fetch(n: &Value) -> Value { json!({"op": "fetch", "name": n}) }
fn case(nb: u64, msz: u64, ops: Vec<Value>) -> Value { json!({"create": {"key": KEY, "nb": nb}, "msz": msz, "ops": ops}) }

/// Data length so that min_object_size(name_len, len) == total.
fn len_for(total: u64, name_len: u64, msz: u64) -> u64 { total - 33 - name_len - msz }

fn gen(rng: &mut Rng, tier: &str) -> Vec<(String, Value)> {
    let mut cases: Vec<(String, Value)> = Vec::new();
    let thorough = tier == "thorough";

    // (a) exhaustive small scope: every sequence of up to 3 (thorough: 4) operations from a 10-letter alphabet over two
    // names in ONE bucket (always colliding), two object sizes (1 page, 2 pages); followed by fetches of both names.
    {
        let a = nm(0); let b = nm(1);
        let small = len_for(200, 1, 4); let big = len_for(300, 1, 4);
        let alphabet: Vec<Value> = vec![
            publish(&a, 1, small, 11), publish(&a, 2, big, 12), update(&a, 3, small, 13), update(&a, 4, big, 14), delete(&a),
            publish(&b, 5, small, 15), publish(&b, 6, big, 16), update(&b, 7, small, 17), update(&b, 8, big, 18), delete(&b),
        ];
        let maxlen = if thorough { 4 } else { 3 };
        for len in 0..=maxlen {
            let total = (alphabet.len() as u64).pow(len as u32);
            for code in 0..total {
                let mut c = code;
                let mut ops = Vec::new();
                for _ in 0..len { ops.push(alphabet[(c % 10) as usize].clone()); c /= 10; }
                ops.push(fetch(&a)); ops.push(fetch(&b));
                cases.push((format!("exhaustive.len{}", len), case(1, 4, ops)));
            }
        }
    }

    // (b) boundary classes
    // (b1) page rounding: min_object_size at 256k-1, 256k, 256k+1
    for msz in [4u64, 11] {
        for k in 1..=3u64 {
            for d in [-1i64, 0, 1] {
                let total = (256 * k) as i64 + d;
                let a = nm(0);
                let ops = vec![publish(&a, 9, len_for(total as u64, 1, msz), 21), fetch(&a),
                               update(&a, 10, len_for(total as u64, 1, msz), 22), fetch(&a)];
                cases.push(("boundary.page_rounding".into(), case(2, msz, ops)));
            }
        }
    }
    // (b2) free-space reuse: a hole of `hole` pages between two objects, then an object whose minimal size is around
    // the hole size and around hole - 33 (the `fits` rule) and hole - 256
    for nb in [1u64, 3] {
        for hole_pages in [1u64, 2, 3] {
            let hole = 256 * hole_pages;
            let mut totals = vec![hole - 34, hole - 33, hole - 32, hole - 1, hole, hole + 1, hole + 33];
            if hole > 256 { totals.extend([hole - 256 - 1, hole - 256, hole - 256 + 1, hole - 255 - 33]); }
            for total in totals {
                if total < 40 { continue }
                let (a, b, c, d) = (nm(0), nm(1), nm(2), nm(3));
                let ops = vec![
                    publish(&a, 1, 10, 31), publish(&b, 2, len_for(hole, 1, 4), 32), publish(&c, 3, 10, 33),
                    delete(&b), publish(&d, 4, len_for(total, 1, 4), 34), fetch(&d), fetch(&a), fetch(&c), fetch(&b),
                ];
                cases.push(("boundary.fits".into(), case(nb, 4, ops)));
            }
        }
    }
    // (b3) coalescing / truncation orders: publish 4 objects, delete any ordered pair or triple, then publish
    for nb in [1u64, 2] {
        let names: Vec<Value> = (0..4).map(nm).collect();
        for i in 0..4usize { for j in 0..4usize { for k in 0..5usize {
            if i == j || k == i || k == j { continue }
            let mut ops: Vec<Value> = (0..4).map(|x| publish(&names[x], x as u64, 10 + 256 * (x as u64 % 2), 40 + x as u64)).collect();
            ops.push(delete(&names[i])); ops.push(delete(&names[j]));
            if k < 4 { ops.push(delete(&names[k])); }
            ops.push(publish(&nm(5), 7, 300, 47));
            ops.push(publish(&nm(6), 8, 10, 48));
            for n in 0..4 { ops.push(fetch(&names[n])); }
            cases.push(("boundary.coalesce_truncate".into(), case(nb, 4, ops)));
        }}}
    }
    // (b4) update: same page size, smaller, larger; object last / not last; freed space reusable or not
    for last in [false, true] { for before_empty in [false, true] {
        for (old_total, new_total) in [(200u64, 250u64), (256, 257), (257, 256), (600, 200), (600, 300), (200, 600), (512, 513), (769, 256)] {
            let (a, b, c, d) = (nm(0), nm(1), nm(2), nm(3));
            let mut ops = vec![publish(&a, 1, 10, 51)];
            ops.push(publish(&b, 2, len_for(old_total, 1, 4), 52));
            if !last { ops.push(publish(&c, 3, 300, 53)); ops.push(publish(&d, 3, 10, 54)); }
            if before_empty && !last { ops.push(delete(&c)); }
            ops.push(json!({"op": "update", "name": b, "meta": 9, "len": len_for(new_total, 1, 4), "fill": 55, "chk": {"kind": "eq", "v": 2, "e": 77}}));
            ops.push(fetch(&b)); ops.push(json!({"op": "reopen"})); ops.push(fetch(&b)); ops.push(fetch(&a));
            cases.push(("boundary.update".into(), case(2, 4, ops)));
        }
    }}
    // (b5) smallest fitting empty wins; ties go to the most recently freed; several holes
    for perm in 0..6u64 {
        let sizes = [[1u64, 2, 3], [1, 3, 2], [2, 1, 3], [2, 3, 1], [3, 1, 2], [3, 2, 1]][perm as usize];
        for want in [1u64, 2, 3, 4] { for tie in [false, true] {
            let mut ops = Vec::new();
            // objects 0..6: holes at 1,3,5 separated by keepers 0,2,4,6
            for i in 0..7u64 {
                let pages = if i % 2 == 1 { if tie { 2 } else { sizes[(i / 2) as usize] } } else { 1 };
                ops.push(publish(&nm(i), i, len_for(256 * pages, 1, 4), 60 + i));
            }
            for i in [sizes[0], sizes[1], sizes[2]] { ops.push(delete(&nm(2 * i - 1))); }
            ops.push(publish(&nm(8), 8, len_for(256 * want, 1, 4), 70));
            ops.push(publish(&nm(9), 9, len_for(256 * want, 1, 4), 71));
            ops.push(fetch(&nm(8)));
            cases.push(("boundary.smallest_fit".into(), case(3, 4, ops)));
        }}
    }
    // (b6) checks, missing names, duplicates, empty name, empty data, long name
    {
        let a = nm(0);
        let empty_name = json!([]);
        let long: Value = json!((0..300).map(|i| (i % 251) as u8).collect::<Vec<u8>>());
        let ck = |kind: &str, v: u64, e: u64| json!({"kind": kind, "v": v, "e": e});
        let ops = vec![
            fetch(&a), json!({"op": "fetch_if", "name": a, "chk": ck("ok", 0, 0)}), delete(&a), update(&a, 1, 5, 1),
            publish(&a, 5, 0, 0), publish(&a, 6, 10, 1), fetch(&a),
            json!({"op": "fetch_if", "name": a, "chk": ck("eq", 5, 70)}), json!({"op": "fetch_if", "name": a, "chk": ck("eq", 6, 71)}),
            json!({"op": "fetch_if", "name": a, "chk": ck("fail", 0, 72)}),
            json!({"op": "update", "name": a, "meta": 7, "len": 700, "fill": 2, "chk": ck("eq", 6, 73)}), fetch(&a),
            json!({"op": "update", "name": a, "meta": 7, "len": 700, "fill": 3, "chk": ck("eq", 5, 74)}), fetch(&a),
            json!({"op": "delete", "name": a, "chk": ck("fail", 0, 75)}), fetch(&a),
            json!({"op": "delete", "name": a, "chk": ck("eq", 5, 76)}), fetch(&a),
            publish(&empty_name, 1, 3, 4), publish(&empty_name, 1, 3, 4), fetch(&empty_name), publish(&long, 2, 3, 5), fetch(&long),
            update(&empty_name, 3, 600, 6), delete(&long), fetch(&empty_name), delete(&empty_name), fetch(&empty_name),
        ];
        for msz in [4u64, 11] { for nb in [1u64, 2, 1024] {
            cases.push(("boundary.checks_and_names".into(), case(nb, msz, ops.clone())));
        }}
    }

    // (c) structured random sequences
    let n = if thorough { 2500 } else { 260 };
    for i in 0..n {
        let mut r = rng.fork();
        let nb = *r.pick(&[1u64, 1, 2, 2, 3, 3, 5, 5, 1024]);
        let msz = if r.chance(1, 4) { 11 } else { 4 };
        let pool = r.range(2, 8);
        let nops = if nb == 1024 { r.range(6, 14) } else { r.range(8, if thorough { 45 } else { 30 }) };
        let names: Vec<Value> = (0..pool).map(|j| {
            if r.chance(1, 6) { json!((0..r.range(0, 40)).map(|x| ((x * 7 + j) % 256) as u8).collect::<Vec<u8>>()) } else { json!([97 + j, 48 + (i % 10)]) }
        }).collect();
        let mut live: Vec<bool> = vec![false; pool as usize];
        let mut ops = Vec::new();
        for step in 0..nops {
            let j = r.below(pool) as usize;
            let name = names[j].clone();
            let nlen = name.as_array().unwrap().len() as u64;
            // sizes: mostly near page boundaries
            let pages = r.range(1, 4);
            let total = match r.below(6) { 0 => 256 * pages, 1 => 256 * pages - 1, 2 => 256 * pages + 1, 3 => 256 * pages - 33, 4 => 256 * pages - 32,
                                           _ => r.range(40 + nlen + msz, 1100) };
            let total = total.max(33 + nlen + msz);
            let len = total - 33 - nlen - msz;
            let fill = 1 + (step * 7 + i) % 250;
            let meta = r.below(4);
            let chk = match r.below(8) { 0 => json!({"kind": "eq", "v": r.below(4), "e": 100 + step}), 1 => json!({"kind": "fail", "e": 200 + step}), _ => json!({"kind": "ok"}) };
            // bias towards valid operations
            let want_valid = r.chance(5, 6);
            let op = match r.below(10) {
                0 | 1 | 2 => if live[j] && want_valid { json!({"op": "update", "name": name, "meta": meta, "len": len, "fill": fill, "chk": chk}) }
                             else { json!({"op": "publish", "name": name, "meta": meta, "len": len, "fill": fill}) },
                3 | 4 => if !live[j] && want_valid { json!({"op": "publish", "name": name, "meta": meta, "len": len, "fill": fill}) }
                         else { json!({"op": "update", "name": name, "meta": meta, "len": len, "fill": fill, "chk": chk}) },
                5 | 6 => if !live[j] && want_valid { json!({"op": "publish", "name": name, "meta": meta, "len": len, "fill": fill}) }
                         else { json!({"op": "delete", "name": name, "chk": chk}) },
                7 => json!({"op": "fetch", "name": name}),
                8 => json!({"op": "fetch_if", "name": name, "chk": chk}),
                _ => json!({"op": "reopen"}),
            };
            // track liveness approximately (checks may refuse; good enough for biasing)
            match op["op"].as_str().unwrap() {
                "publish" => live[j] = true,
                "delete" if op["chk"]["kind"] == "ok" => live[j] = false,
                _ => {}
            }
            ops.push(op);
        }
        cases.push((format!("random.nb{}", nb), case(nb, msz, ops)));
    }

    // (d) archives created with the production constructors: Archive::create (random key, 1024 buckets) and
    // AppendArchive + finalize followed by Archive::open
    let n = if thorough { 60 } else { 12 };
    for i in 0..n {
        let mut r = rng.fork();
        let pool = 6u64;
        let mut ops = Vec::new();
        for step in 0..r.range(6, 20) {
            let j = r.below(pool);
            let len = *r.pick(&[0u64, 10, 217, 218, 219, 400, 474, 475, 700]);
            ops.push(match r.below(5) { 0 | 1 => publish(&nm(j), step, len, 1 + step), 2 => update(&nm(j), step, len, 1 + step), 3 => delete(&nm(j)), _ => fetch(&nm(j)) });
        }
        if i % 2 == 0 {
            cases.push(("production.create".into(), json!({"create": "default", "msz": 4, "ops": ops})));
        } else {
            let init: Vec<Value> = (0..r.range(0, 7)).map(|s| json!({"name": nm(r.below(pool)), "meta": s, "len": *r.pick(&[0u64, 10, 218, 219, 500]), "fill": 100 + s})).collect();
            cases.push(("production.append_archive".into(), json!({"create": "default", "msz": 4, "init": init, "ops": ops})));
        }
    }
    // the checker evaluates contiguous chunks in 16 parallel shards: deal the cases out so that every shard gets
    // the same mix of cheap and expensive classes (deterministic transposition, nothing is dropped)
    let mut dealt: Vec<(usize, (String, Value))> = cases.into_iter().enumerate().collect();
    dealt.sort_by_key(|(i, _)| (i % 16, i / 16));
    dealt.into_iter().map(|(_, c)| c).collect()
}

fn main() {
    if std::env::args().nth(1).as_deref() == Some("child") { child_main() } else { drive(gen, run) }
}
