//! C15/C16/C33: the real server state (history, HTTP dispatcher, RTR payload source) observed at every
//! gap of the validation thread's cycle (coq/C15).  The validation thread is stopped at the hook points
//! history.write / history.read / server.updated / server.marked_done; at each stop the main thread
//! (exempt from the points) performs every reader operation once.
use std::sync::atomic::{AtomicBool, Ordering};
use std::sync::Arc;
use std::time::Duration;
use chrono::{DateTime, TimeZone, Utc};
use routinator::operation::Server;
use routinator::verif as hooks;
use rpki::rtr::payload::PayloadRef;
use rpki::rtr::server::{PayloadDiff, PayloadSet, PayloadSource};
use rpki::rtr::{Serial, State};
use rv_harness::paygen::*;
use rv_harness::srvenv::*;
use rv_harness::util::*;
use serde_json::{json, Value};

const POINTS: [&str; 4] = ["history.write", "history.read", "server.updated", "server.marked_done"];

fn gen(rng: &mut Rng, tier: &str) -> Vec<(String, Value)> {
    let mut cases = Vec::new();
    // boundary classes of advance_created's case split (seconds of the clock reading <, =, > seconds of the current
    // creation time) at the install and at the mark_update_done of the second and third cycle: the creation time is
    // ahead of the clock after two readings within one second
    {
        let a = json!({"origins": [["10.0.0.0/8", 24, 64500]], "keys": [], "aspas": []});
        let b = json!({"origins": [["10.0.0.0/8", 24, 64501]], "keys": [], "aspas": []});
        let c = json!({"origins": [["10.0.0.0/8", 24, 64502]], "keys": [], "aspas": []});
        let s: i64 = 1_800_000_100_000_000_000;
        let ms: i64 = 1_000_000;
        // offsets (ns) of the six clock readings: install1, done1, install2, done2, install3, done3
        let plans: Vec<(&str, [i64; 6])> = vec![
            ("clock.all_in_one_second", [100 * ms, 200 * ms, 300 * ms, 400 * ms, 500 * ms, 600 * ms]),
            ("clock.install_behind_created", [100 * ms, 900 * ms, 950 * ms, 1_100 * ms, 1_150 * ms, 1_200 * ms]),
            ("clock.whole_seconds", [0, 1_000 * ms, 1_000 * ms, 2_000 * ms, 2_000 * ms, 3_000 * ms]),
            ("clock.steps_back", [5_000 * ms, 5_100 * ms, 3_000 * ms, 3_100 * ms, 1_000 * ms, 1_100 * ms]),
            ("clock.same_second_then_later", [100 * ms, 200 * ms, 300 * ms, 5_000 * ms, 5_100 * ms, 9_000 * ms]),
        ];
        for (name, o) in plans {
            let cycles = json!([
                {"data": a, "outcome": 0, "t_upd": s + o[0], "t_done": s + o[1]},
                {"data": b, "outcome": 0, "t_upd": s + o[2], "t_done": s + o[3]},
                {"data": c, "outcome": 0, "t_upd": s + o[4], "t_done": s + o[5]},
            ]);
            cases.push((name.to_string(), json!({"keep": 3, "cycles": cycles})));
        }
    }
    let n = if tier == "thorough" { 120 } else { 24 };
    for i in 0..n {
        let mut r = rng.fork();
        let u = Universe::new(&mut r, 3 + (i % 3), 0, 1);
        let keep = *r.pick(&[1u64, 2, 3, 10]);
        let ncyc = r.range(1, 5);
        let mut t: i64 = 1_800_000_000_000_000_000 + (r.below(1000) as i64) * 1_000_000_000;
        let mut cycles = Vec::new();
        let mut prev = { let mut s = u.snap(&mut r, 1, 2); s["keys"] = json!([]); s["aspas"] = json!([]); s };
        for c in 0..ncyc {
            let data = if c == 0 { prev.clone() } else {
                match r.below(4) { 0 => prev.clone(), _ => { let mut m = u.mutate(&mut r, &prev); m["keys"] = json!([]); m["aspas"] = json!([]); m } }
            };
            let outcome = if r.chance(1, 4) { r.range(1, 2) } else { 0 };
            // time steps: same second / next second / whole second / later
            let step = |r: &mut Rng| -> i64 { match r.below(4) { 0 => r.below(900_000_000) as i64 / 4, 1 => 1_000_000_000, 2 => 2_345_678_901, _ => 60_000_000_000 } };
            t += step(&mut r);
            if r.chance(1, 4) { t -= t % 1_000_000_000; }      // whole second
            let t_upd = t;
            t += step(&mut r);
            if r.chance(1, 4) { t -= t % 1_000_000_000; }
            let t_done = t;
            if outcome == 0 { prev = data.clone(); }
            cycles.push(json!({"data": data, "outcome": outcome, "t_upd": t_upd, "t_done": t_done}));
        }
        cases.push((format!("keep{}.cycles{}", keep, ncyc), json!({"keep": keep, "cycles": cycles})));
    }
    cases
}

struct Seen { etag: String, serial: u64, lm: String, lm_secs: i64 }

fn parse_origin(v: &Value, r: &Ranker) -> u64 {
    let asn = v["asn"].as_str().unwrap_or("AS0").trim_start_matches("AS").parse::<u32>().unwrap_or(0);
    let spec = json!([v["prefix"], v["maxLength"], asn]);
    r.origin(&origin_of(&spec))
}

fn etag_serial(etag: &str) -> u64 {
    etag.trim_matches('"').rsplit('-').next().and_then(|s| s.parse().ok()).unwrap_or(888_888_888)
}

fn probe_all(env: &Env, r: &Ranker, seen: &mut Vec<Seen>) -> (Vec<Value>, Vec<String>) {
    let mut js = Vec::new();
    let mut cq = Vec::new();
    let h = &env.history;
    let st = h.notify();
    let sess = st.session();
    let cur = u32::from(st.serial());
    let (session64, _) = h.read().session_and_serial();
    // PReady, PNotify, PFull
    let ready = h.ready();
    js.push(json!({"p": "ready", "a": ready})); cq.push(format!("(PReady, AReady {})", coq_bool(ready)));
    js.push(json!({"p": "notify", "a": cur})); cq.push(format!("(PNotify, ASerial {})", cur));
    let (fst, mut set) = h.full();
    let mut items = Vec::new();
    while let Some(p) = set.next() { if let PayloadRef::Origin(o) = p { items.push(r.origin(&o)); } else { items.push(777_777_777); } }
    let fser = if fst.session() == sess { u32::from(fst.serial()) as u64 } else { 999_999_999_999 };
    js.push(json!({"p": "full", "serial": fser, "n": items.len()}));
    cq.push(format!("(PFull, AFull {} {})", fser, coq_list(items.iter(), |k| format!("({},tt)", k))));
    // PDiff
    let mut qs: Vec<(bool, u32)> = vec![(true, cur), (true, cur.wrapping_sub(1)), (true, cur.wrapping_sub(2)), (true, cur.wrapping_add(1)), (false, cur)];
    qs.dedup();
    for (own, c) in qs {
        let session = if own { sess } else { sess.wrapping_add(1) };
        match h.diff(State::from_parts(session, Serial::from(c))) {
            None => { js.push(json!({"p": "diff", "own": own, "c": c, "a": null})); cq.push(format!("(PDiff {} {}, ADiff None)", coq_bool(own), c)); }
            Some((st2, mut d)) => {
                let mut acts = Vec::new();
                while let Some((p, a)) = d.next() { let k = if let PayloadRef::Origin(o) = p { r.origin(&o) } else { 777_777_777 }; acts.push((k, a.is_withdraw())); }
                let tag = if st2.session() == sess { u32::from(st2.serial()) as u64 } else { 999_999_999_999 };
                js.push(json!({"p": "diff", "own": own, "c": c, "a": {"tag": tag, "acts": acts}}));
                cq.push(format!("(PDiff {} {}, ADiff (Some ({}, {})))", coq_bool(own), c, tag, coq_list(acts.iter(), |(k, w)| format!("({},tt,{})", k, coq_bool(*w)))));
            }
        }
    }
    // PJson: plain and conditional with validators of earlier responses
    let mut reqs: Vec<(Option<usize>, bool, bool)> = vec![(None, false, false)];
    for i in 0..seen.len() { reqs.push((Some(i), true, false)); reqs.push((Some(i), false, true)); reqs.push((Some(i), true, true)); }
    let mut new_seen: Option<Seen> = None;
    for (src, inm, ims) in reqs {
        let mut hdr: Vec<(&str, &str)> = Vec::new();
        let s = src.map(|i| &seen[i]);
        if inm { hdr.push(("If-None-Match", &s.unwrap().etag)); }
        if ims { hdr.push(("If-Modified-Since", &s.unwrap().lm)); }
        let resp = env.get("/json", &hdr);
        let p = format!("PJson {} {} {}",
            coq_opt(if inm { Some(s.unwrap().serial.to_string()) } else { None }),
            coq_opt(if ims { Some(format!("({})%Z", s.unwrap().lm_secs)) } else { None }),
            coq_opt(s.map(|x| x.serial.to_string())));
        match resp.status {
            503 => { js.push(json!({"p": "json", "inm": inm, "ims": ims, "status": 503})); cq.push(format!("({}, AJson503)", p)); }
            304 => {
                let e = etag_serial(resp.etag.as_deref().unwrap_or(""));
                js.push(json!({"p": "json", "inm": inm, "ims": ims, "src": s.map(|x| x.serial), "status": 304, "etag": e}));
                cq.push(format!("({}, AJson304 {})", p, e));
            }
            200 => {
                let etag = resp.etag.clone().unwrap_or_default();
                let e = etag_serial(&etag);
                let lm = resp.last_modified.clone().unwrap_or_default();
                let lm_secs = DateTime::parse_from_rfc2822(&lm).map(|d| d.timestamp()).unwrap_or(-1);
                let body: Value = serde_json::from_slice(&resp.body).unwrap_or(Value::Null);
                let items: Vec<u64> = body["roas"].as_array().map(|a| a.iter().map(|v| parse_origin(v, r)).collect()).unwrap_or_else(|| vec![666_666_666]);
                js.push(json!({"p": "json", "inm": inm, "ims": ims, "src": s.map(|x| x.serial), "status": 200, "etag": e, "lm": lm, "n": items.len()}));
                cq.push(format!("({}, AJson200 {} ({})%Z {})", p, e, lm_secs, coq_list(items.iter(), |k| format!("({},tt)", k))));
                if src.is_none() && u64::from_str_radix(etag.trim_matches('"').split('-').next().unwrap_or(""), 16).ok() == Some(session64) {
                    new_seen = Some(Seen { etag, serial: e, lm, lm_secs });
                }
            }
            x => { js.push(json!({"p": "json", "status": x})); cq.push(format!("({}, AJson200 {} 0%Z [])", p, 555_000_000 + x as u64)); }
        }
    }
    if let Some(ns) = new_seen {
        if !seen.iter().any(|x| x.etag == ns.etag && x.lm == ns.lm) { seen.push(ns); if seen.len() > 3 { seen.remove(0); } }
    }
    // PDelta
    let dq: Vec<Option<(bool, u32)>> = vec![None, Some((true, cur.wrapping_sub(1))), Some((true, cur)), Some((true, cur.wrapping_sub(2))), Some((false, cur.wrapping_sub(1)))];
    for ver in dq {
        let path = match ver {
            None => "/json-delta".to_string(),
            Some((own, c)) => format!("/json-delta?session={}&serial={}", if own { session64 } else { session64 + 1 }, c),
        };
        let resp = env.get(&path, &[]);
        let p = format!("PDelta {}", coq_opt(ver.map(|(o, c)| format!("({},{})", coq_bool(o), c))));
        if resp.status == 503 { js.push(json!({"p": "delta", "ver": ver, "status": 503})); cq.push(format!("({}, ADelta503)", p)); continue }
        let body: Value = serde_json::from_slice(&resp.body).unwrap_or(Value::Null);
        let sess_ok = body["session"].as_str().and_then(|s| s.parse::<u64>().ok()) == Some(session64);
        let ser = if sess_ok && resp.status == 200 { body["serial"].as_u64().unwrap_or(444_444_444) } else { 444_000_000 + resp.status as u64 };
        let ann: Vec<u64> = body["announced"].as_array().map(|a| a.iter().map(|v| parse_origin(v, r)).collect()).unwrap_or_else(|| vec![666_666_666]);
        if body["reset"] == json!(true) {
            js.push(json!({"p": "delta", "ver": ver, "reset": true, "serial": ser, "n": ann.len()}));
            cq.push(format!("({}, ADeltaReset {} {})", p, ser, coq_list(ann.iter(), |k| format!("({},tt)", k))));
        } else {
            let wd: Vec<u64> = body["withdrawn"].as_array().map(|a| a.iter().map(|v| parse_origin(v, r)).collect()).unwrap_or_else(|| vec![666_666_666]);
            let from = body["fromSerial"].as_u64().unwrap_or(444_444_444);
            js.push(json!({"p": "delta", "ver": ver, "reset": false, "from": from, "serial": ser, "announced": ann, "withdrawn": wd}));
            cq.push(format!("({}, ADeltaDelta {} {} {} {})", p, from, ser, coq_nlist(ann.iter()), coq_nlist(wd.iter())));
        }
    }
    (js, cq)
}

fn label_code(l: &str) -> u64 { match l { "history.write" => 0, "history.read" => 1, "server.updated" => 2, "server.marked_done" => 3, _ => 4 } }

fn ts(ns: i64) -> DateTime<Utc> { Utc.timestamp_opt(ns.div_euclid(1_000_000_000), ns.rem_euclid(1_000_000_000) as u32).unwrap() }

fn run(input: &Value) -> CaseOut {
    let keep = input["keep"].as_u64().unwrap();
    let env = Env::new(|c| { c.history_size = keep as usize; });
    hooks::exempt_current_thread(true);
    let cycles = input["cycles"].as_array().unwrap();
    let snaps: Vec<_> = cycles.iter().map(|c| snapshot_of(&c["data"])).collect();
    let r = Ranker::new(snaps.iter());
    let mut seen: Vec<Seen> = Vec::new();
    let mut cyc_json = Vec::new();
    let mut cyc_coq = Vec::new();
    let mut gaps_total = 0;
    for (ci, c) in cycles.iter().enumerate() {
        let outcome = c["outcome"].as_u64().unwrap();
        let (t_upd, t_done) = (c["t_upd"].as_i64().unwrap(), c["t_done"].as_i64().unwrap());
        let mut receiver = env.notify.subscribe();
        for p in POINTS { hooks::arm(p); }
        hooks::set_now(Some(ts(t_upd)));
        let finished = Arc::new(AtomicBool::new(false));
        let mut gaps_json = Vec::new();
        let mut gaps_coq = Vec::new();
        let mut result_ok = false;
        let base: u64 = POINTS.iter().map(|p| hooks::arrivals(p)).sum();
        std::thread::scope(|scope| {
            let (config, engine, history, mut notify) = (&env.config, &env.engine, &env.history, env.notify.clone());
            let spec = c["data"].clone();
            let fin = finished.clone();
            let w = scope.spawn(move || {
                hooks::set_forced("validation.process", vec![outcome]);
                let ex = slurm_of(&spec);
                let res = Server::verif_process_once(config, engine, history, &mut notify, &ex, false);
                fin.store(true, Ordering::SeqCst);
                res.is_ok()
            });
            let mut handled = 0u64;
            loop {
                // a stop is new only if the number of arrivals has grown (the thread may not yet have left the point we released)
                let total: u64 = POINTS.iter().map(|p| hooks::arrivals(p)).sum::<u64>() - base;
                let stop = if total > handled { hooks::wait_any(&POINTS, Duration::from_millis(20)) } else { None };
                match stop {
                    Some(l) => {
                        handled += 1;
                        if l == "server.updated" { hooks::set_now(Some(ts(t_done))); }
                        let (j, q) = probe_all(&env, &r, &mut seen);
                        gaps_json.push(json!({"at": l, "obs": j}));
                        gaps_coq.push(format!("({}, [{}])", label_code(&l), q.join("; ")));
                        hooks::release(&l);
                    }
                    None => if finished.load(Ordering::SeqCst) { break } else { std::thread::sleep(Duration::from_micros(200)) },
                }
                if gaps_json.len() > 40 { break }
            }
            for p in POINTS { hooks::disarm(p); }
            result_ok = w.join().unwrap();
        });
        let (j, q) = probe_all(&env, &r, &mut seen);
        gaps_json.push(json!({"at": "end", "obs": j}));
        gaps_coq.push(format!("(4, [{}])", q.join("; ")));
        gaps_total += gaps_json.len();
        // was a notification sent to a receiver that existed before the cycle?
        let notified = {
            let waker = futures::task::noop_waker();
            let mut cx = std::task::Context::from_waker(&waker);
            let mut f = Box::pin(receiver.recv());
            std::future::Future::poll(f.as_mut(), &mut cx).is_ready()
        };
        cyc_json.push(json!({"gaps": gaps_json, "notified": notified, "result_ok": result_ok}));
        cyc_coq.push(format!("{{| a_data := {}; a_ok := {}; a_tupd := ({})%Z; a_tdone := ({})%Z; a_gaps := [{}]; a_notified := {}; a_result_ok := {} |}}",
            coq_snapshot(&snaps[ci], &r), coq_bool(outcome == 0), t_upd, t_done, gaps_coq.join("; "), coq_bool(notified), coq_bool(result_ok)));
    }
    hooks::set_now(None);
    let coq = format!("{{| c_keep := {}; c_cycles := [{}] |}}", keep, cyc_coq.join("; "));
    CaseOut { obs: json!({"cycles": cyc_json}), coq, nontrivial: gaps_total > 7 }
}


//------------ reader-side gaps ("readers" stream) ----------------------------

fn gen_readers(rng: &mut Rng, tier: &str) -> Vec<(String, Value)> {
    let mut cases = Vec::new();
    let n = if tier == "thorough" { 30 } else { 6 };
    for i in 0..n {
        let mut r = rng.fork();
        let u = Universe::new(&mut r, 3 + (i % 3), 0, 1);
        let mk = |r: &mut Rng| { let mut s = u.snap(r, 1, 2); s["keys"] = json!([]); s["aspas"] = json!([]); s };
        let npre = r.range(1, 3);
        let mut pre = Vec::new();
        let mut t: i64 = 1_800_000_000_000_000_000;
        let mut prev = mk(&mut r);
        for _ in 0..npre {
            t += 61_000_000_000;
            let d = { let mut m = u.mutate(&mut r, &prev); m["keys"] = json!([]); m["aspas"] = json!([]); m["origins"].as_array_mut().unwrap().push(json!(["198.51.100.0/24", 24, 64000 + pre.len()])); m };
            pre.push(json!({"data": d, "t_upd": t, "t_done": t + 1_500_000_000}));
            prev = d;
        }
        let mut extra = prev.clone();
        extra["origins"].as_array_mut().unwrap().push(json!(["203.0.113.0/24", 24, 64999]));
        t += 61_000_000_000;
        for kind in ["full", "diff", "json", "delta", "reset"] {
            cases.push((format!("readers.{}", kind), json!({"keep": 5, "pre": pre, "kind": kind,
                "extra": {"data": extra, "t_upd": t, "t_done": t + 1_500_000_000}})));
        }
    }
    cases
}

fn run_reader(input: &Value) -> CaseOut {
    let keep = input["keep"].as_u64().unwrap();
    let mut env = Env::new(|c| { c.history_size = keep as usize; });
    hooks::exempt_current_thread(true);
    let pre = input["pre"].as_array().unwrap();
    let mut specs: Vec<Value> = pre.iter().map(|c| c["data"].clone()).collect();
    specs.push(input["extra"]["data"].clone());
    let snaps: Vec<_> = specs.iter().map(snapshot_of).collect();
    let r = Ranker::new(snaps.iter());
    for c in pre {
        hooks::set_now(Some(ts(c["t_upd"].as_i64().unwrap())));
        // update() and mark_update_done() read the clock once each; good enough: both see t_upd, then we fix created by a second mark
        env.cycle(&c["data"], 0, false).unwrap();
    }
    // make the creation time deterministic: the model's cycle uses (t_upd, t_done); replay the same two readings
    // (the clock override is a single value, so cycles above used t_upd for both readings: model gets t_done := t_upd)
    let kind = input["kind"].as_str().unwrap().to_string();
    let (session64, serial) = env.history.read().session_and_serial();
    let cur = u32::from(serial);
    let sess = env.history.notify().session();
    hooks::arm("history.read");
    let mut arrivals = 0u64;
    let mut injected = false;
    let mut out: Option<(String, String, Value)> = None;
    let extra = input["extra"].clone();
    let base = hooks::arrivals("history.read");
    std::thread::scope(|scope| {
        let envr = &env;
        let rr = &r;
        let k = kind.clone();
        let reader = scope.spawn(move || {
            // NOT exempt: stops before every history read-lock acquisition
            match k.as_str() {
                "full" => {
                    let (st, mut set) = envr.history.full();
                    let mut items = Vec::new();
                    while let Some(p) = set.next() { if let PayloadRef::Origin(o) = p { items.push(rr.origin(&o)); } else { items.push(777_777_777); } }
                    let ser = if st.session() == sess { u32::from(st.serial()) as u64 } else { 999_999_999_999 };
                    ("PFull".to_string(), format!("AFull {} {}", ser, coq_list(items.iter(), |k| format!("({},tt)", k))), json!({"serial": ser, "n": items.len()}))
                }
                "diff" => {
                    let c = cur.wrapping_sub(1);
                    match envr.history.diff(State::from_parts(sess, Serial::from(c))) {
                        None => (format!("PDiff true {}", c), "ADiff None".to_string(), json!(null)),
                        Some((st2, mut d)) => {
                            let mut acts = Vec::new();
                            while let Some((p, a)) = d.next() { let k = if let PayloadRef::Origin(o) = p { rr.origin(&o) } else { 777_777_777 }; acts.push((k, a.is_withdraw())); }
                            let tag = if st2.session() == sess { u32::from(st2.serial()) as u64 } else { 999_999_999_999 };
                            (format!("PDiff true {}", c), format!("ADiff (Some ({}, {}))", tag, coq_list(acts.iter(), |(k, w)| format!("({},tt,{})", k, coq_bool(*w)))), json!({"tag": tag, "acts": acts}))
                        }
                    }
                }
                "json" => {
                    let resp = envr.get("/json", &[]);
                    if resp.status != 200 { ("PJson None None None".to_string(), "AJson503".to_string(), json!({"status": resp.status})) } else {
                        let e = etag_serial(resp.etag.as_deref().unwrap_or(""));
                        let lm_secs = DateTime::parse_from_rfc2822(resp.last_modified.as_deref().unwrap_or("")).map(|d| d.timestamp()).unwrap_or(-1);
                        let body: Value = serde_json::from_slice(&resp.body).unwrap_or(Value::Null);
                        let items: Vec<u64> = body["roas"].as_array().map(|a| a.iter().map(|v| parse_origin(v, rr)).collect()).unwrap_or_else(|| vec![666_666_666]);
                        ("PJson None None None".to_string(), format!("AJson200 {} ({})%Z {}", e, lm_secs, coq_list(items.iter(), |k| format!("({},tt)", k))), json!({"etag": e, "n": items.len()}))
                    }
                }
                _ => {
                    let (ver, path) = if k == "delta" { (Some(cur.wrapping_sub(1)), format!("/json-delta?session={}&serial={}", session64, cur.wrapping_sub(1))) } else { (None, "/json-delta".to_string()) };
                    let resp = envr.get(&path, &[]);
                    let p = format!("PDelta {}", coq_opt(ver.map(|c| format!("(true,{})", c))));
                    let body: Value = serde_json::from_slice(&resp.body).unwrap_or(Value::Null);
                    let ser = if resp.status == 200 { body["serial"].as_u64().unwrap_or(444_444_444) } else { 444_000_000 + resp.status as u64 };
                    let ann: Vec<u64> = body["announced"].as_array().map(|a| a.iter().map(|v| parse_origin(v, rr)).collect()).unwrap_or_else(|| vec![666_666_666]);
                    if body["reset"] == json!(true) {
                        (p, format!("ADeltaReset {} {}", ser, coq_list(ann.iter(), |k| format!("({},tt)", k))), json!({"reset": true, "serial": ser}))
                    } else {
                        let wd: Vec<u64> = body["withdrawn"].as_array().map(|a| a.iter().map(|v| parse_origin(v, rr)).collect()).unwrap_or_else(|| vec![666_666_666]);
                        let from = body["fromSerial"].as_u64().unwrap_or(444_444_444);
                        (p, format!("ADeltaDelta {} {} {} {}", from, ser, coq_nlist(ann.iter()), coq_nlist(wd.iter())), json!({"reset": false, "from": from, "serial": ser}))
                    }
                }
            }
        });
        loop {
            if reader.is_finished() { break }
            if hooks::arrivals("history.read") - base > arrivals && hooks::wait_any(&["history.read"], Duration::from_millis(10)).is_some() {
                arrivals += 1;
                if arrivals == 2 && !injected {
                    // the operation comes back for a second lock acquisition: a whole validation cycle happens in between
                    injected = true;
                    hooks::set_now(Some(ts(extra["t_upd"].as_i64().unwrap())));
                    let ex = slurm_of(&extra["data"]);
                    hooks::set_forced("validation.process", vec![0]);
                    let mut notify = envr.notify.clone();
                    Server::verif_process_once(&envr.config, &envr.engine, &envr.history, &mut notify, &ex, false).unwrap();
                }
                hooks::release("history.read");
            } else { std::thread::sleep(Duration::from_micros(200)); }
            if arrivals > 20 { break }
        }
        hooks::disarm("history.read");
        out = Some(reader.join().unwrap());
    });
    hooks::set_now(None);
    let (p, a, j) = out.unwrap();
    let cyc = |c: &Value, tdone_eq_tupd: bool| format!("({}, ({})%Z, ({})%Z)", coq_snapshot(&snapshot_of(&c["data"]), &r),
        c["t_upd"].as_i64().unwrap(), if tdone_eq_tupd { c["t_upd"].as_i64().unwrap() } else { c["t_done"].as_i64().unwrap() });
    let coq = format!("{{| r_keep := {}; r_pre := {}; r_probe := {}; r_extra := {}; ri_arrivals := {}; ri_injected := {}; ri_reply := {} |}}",
        keep, coq_list(pre.iter(), |c| cyc(c, true)), p, cyc(&input["extra"], true), arrivals, coq_bool(injected), a);
    CaseOut { obs: json!({"arrivals": arrivals, "injected": injected, "reply": j}), coq, nontrivial: true }
}

fn main() {
    if std::env::var("C15_STREAM").ok().as_deref() == Some("readers") { drive(gen_readers, run_reader) } else { drive(gen, run) }
}
