//! C11: PayloadDelta::construct vs the Coq model (coq/C11).
use routinator::payload::PayloadDelta;
use rpki::rtr::Serial;
use rv_harness::paygen::*;
use rv_harness::util::*;
use serde_json::{json, Value};

fn gen(rng: &mut Rng, tier: &str) -> Vec<(String, Value)> {
    let mut cases = Vec::new();
    // (a) exhaustive small scope: all pairs of subsets of a 3-element universe per type
    let u = Universe::new(&mut rng.fork(), 3, 3, 3);
    for ty in 0..3 {
        for m_old in 0..8u32 {
            for m_new in 0..8u32 {
                let pickset = |m: u32, alt: bool| -> Value {
                    let mut s = json!({"origins": [], "keys": [], "aspas": []});
                    for i in 0..3 {
                        if m & (1 << i) != 0 {
                            match ty {
                                0 => s["origins"].as_array_mut().unwrap().push(u.origins[i].clone()),
                                1 => if i < u.keys.len() { s["keys"].as_array_mut().unwrap().push(u.keys[i].clone()) },
                                _ => s["aspas"].as_array_mut().unwrap().push(json!([u.customers[i], if alt && i == 1 { vec![100u32, 101] } else { vec![100u32] }])),
                            }
                        }
                    }
                    s
                };
                cases.push((format!("exhaustive3.type{}", ty), json!({"old": pickset(m_old, false), "new": pickset(m_new, false)})));
                if ty == 2 && (m_old & m_new & 2) != 0 {
                    cases.push(("aspa.providers_changed".into(), json!({"old": pickset(m_old, false), "new": pickset(m_new, true)})));
                }
            }
        }
    }
    // (b) boundary classes
    let u = Universe::new(&mut rng.fork(), 12, 5, 6);
    let full = u.snap(&mut rng.fork(), 1, 1);
    let empty = json!({"origins": [], "keys": [], "aspas": []});
    cases.push(("boundary.empty_empty".into(), json!({"old": empty, "new": empty})));
    cases.push(("boundary.empty_full".into(), json!({"old": empty, "new": full})));
    cases.push(("boundary.full_empty".into(), json!({"old": full, "new": empty})));
    cases.push(("boundary.full_full".into(), json!({"old": full, "new": full})));
    // (c) structured random: independent sets, and small mutations (mostly-equal sets)
    let n = if tier == "thorough" { 6000 } else { 600 };
    for i in 0..n {
        let mut r = rng.fork();
        let u = Universe::new(&mut r, 4 + (i % 20), (i % 5) as usize, 1 + (i % 6));
        let old = u.snap(&mut r, 1, 2);
        if i % 2 == 0 {
            let new = u.snap(&mut r, 1, 2);
            cases.push(("random.independent".into(), json!({"old": old, "new": new})));
        } else {
            let new = u.mutate(&mut r, &old);
            cases.push(("random.mutation".into(), json!({"old": old, "new": new})));
        }
    }
    // (d) large sets
    let big = if tier == "thorough" { 8 } else { 2 };
    for _ in 0..big {
        let mut r = rng.fork();
        let u = Universe::new(&mut r, 1500, 20, 60);
        let old = u.snap(&mut r, 2, 3);
        let base = u.snap(&mut r, 2, 3);
        let new = u.mutate(&mut r, &base);
        cases.push(("random.large".into(), json!({"old": old, "new": new})));
    }
    cases
}

fn run(input: &Value) -> CaseOut {
    let old = snapshot_of(&input["old"]);
    let new = snapshot_of(&input["new"]);
    let r = Ranker::new([&old, &new]);
    let res = PayloadDelta::construct(&old, &new, Serial::from(41));
    let (none, wire, alen, wlen, serial) = match &res {
        None => (true, wire_of_actions(std::iter::empty(), &r), 0, 0, None),
        Some(d) => (false, wire_of_delta(d, &r), d.announce_len(), d.withdraw_len(), Some(u32::from(d.serial()))),
    };
    let obs = json!({
        "old": json_snapshot(&old, &r), "new": json_snapshot(&new, &r),
        "none": none, "actions": wire.json(), "announce_len": alen, "withdraw_len": wlen, "serial": serial,
    });
    // the target serial and the grouping of actions() are checked here (not part of the Coq case)
    let side_ok = wire.grouped() && serial.map(|s| s == 42).unwrap_or(true);
    let coq = format!(
        "{{| c_old := {}; c_new := {}; c_impl := {{| o_none := {}; {}; o_alen := {}; o_wlen := {} |}} |}}",
        coq_snapshot(&old, &r), coq_snapshot(&new, &r), coq_bool(none),
        wire.coq_fields(), if side_ok { alen as u64 } else { 888_888_888 }, wlen);
    CaseOut { obs, coq, nontrivial: !none }
}

fn main() { drive(gen, run) }
