//! C25: RRDP updates reproduce the server state or report failure — the real RRDP collector vs the Coq model
//! (coq/C25).
//!
//! One case = a server history (the "world": session x serial -> content over 3 URIs x 2 contents), a config
//! (delta list limit, delta count limit, expiring copies) and a list of steps.  A step says what the fetch
//! server (rv_harness::rrdpsrv, HTTPS on 127.0.0.1) serves during one validation run: the answer to the
//! notification request (HTTP error / 304 / unusable XML / a notification with any session, serial, snapshot
//! reference + hash and any delta list) and a table of files (reference -> status, snapshot or delta document,
//! possibly cut after some elements).  Hashes in the notification are given symbolically (hash of the file
//! served under a reference, hash of some other document, an unrelated value) and are materialised with real
//! SHA-256 over the real XML.
//!
//! For every step the real `rrdp::Collector` is driven through one fresh `Run::load_repository` (hook
//! `Config::verif_rrdp_updater`, src/collector/rrdp/base.rs: exposure only) in a fresh cache directory per
//! case; observed: the LoadResult (or RunFailed), the snapshot reason of the run's metrics, the requests the
//! server received (in order), the archive read back after the run through the public `RrdpArchive` API
//! (session, serial, stored delta hashes, every object) and, for `Updated`, the objects as the returned
//! `ReadRepository` hands them out.
use std::collections::{BTreeMap, HashMap};
use std::str::FromStr;
use std::sync::atomic::{AtomicU64, Ordering};
use std::sync::Arc;
use std::time::Duration;
use routinator::collector::RrdpArchive;
use routinator::config::Config;
use rpki::uri;
use rv_harness::rrdpsrv::{self, Canned, Server};
use rv_harness::util::*;
use serde_json::{json, Value};

//------------ materialisation ------------------------------------------------------------------------------

pub const NS: &str = "http://www.ripe.net/rpki/rrdp";
pub const NURI: u64 = 3;

pub fn session_uuid(s: u64) -> String { format!("{:08x}-1111-4222-8333-{:012x}", 0xc25c_0000u32 as u64 + (s & 0xffff), s) }
pub fn obj_uri(u: u64) -> String { format!("rsync://rv.example/repo/u{}.cer", u) }
pub fn obj_data(d: u64) -> Vec<u8> { format!("content-{}-of-the-c25-universe", d).into_bytes() }
pub fn sha256(b: &[u8]) -> Vec<u8> { ring::digest::digest(&ring::digest::SHA256, b).as_ref().to_vec() }

fn base64(data: &[u8]) -> String {
    const T: &[u8; 64] = b"ABCDEFGHIJKLMNOPQRSTUVWXYZabcdefghijklmnopqrstuvwxyz0123456789+/";
    let mut s = String::new();
    for c in data.chunks(3) {
        let b = [c[0], *c.get(1).unwrap_or(&0), *c.get(2).unwrap_or(&0)];
        let n = ((b[0] as u32) << 16) | ((b[1] as u32) << 8) | b[2] as u32;
        s.push(T[(n >> 18) as usize & 63] as char);
        s.push(T[(n >> 12) as usize & 63] as char);
        s.push(if c.len() > 1 { T[(n >> 6) as usize & 63] as char } else { '=' });
        s.push(if c.len() > 2 { T[n as usize & 63] as char } else { '=' });
    }
    s
}

/// The XML of a snapshot or delta document.  `broken`: after the listed elements comes an element the
/// schema does not know, so processing fails right after them.
pub fn doc_xml(doc: &Value) -> Vec<u8> {
    let snap = doc["t"] == "s";
    let root = if snap { "snapshot" } else { "delta" };
    let mut s = format!("<{} xmlns=\"{}\" version=\"1\" session_id=\"{}\" serial=\"{}\">\n",
        root, NS, session_uuid(doc["session"].as_u64().unwrap()), doc["serial"].as_u64().unwrap());
    for e in doc["els"].as_array().unwrap() {
        if snap {
            s.push_str(&format!("<publish uri=\"{}\">{}</publish>\n", obj_uri(e[0].as_u64().unwrap()),
                base64(&obj_data(e[1].as_u64().unwrap()))));
        }
        else {
            let u = obj_uri(e[1].as_u64().unwrap());
            match e[0].as_str().unwrap() {
                "p" => s.push_str(&format!("<publish uri=\"{}\">{}</publish>\n", u, base64(&obj_data(e[2].as_u64().unwrap())))),
                "u" => s.push_str(&format!("<publish uri=\"{}\" hash=\"{}\">{}</publish>\n", u,
                    hex(&sha256(&obj_data(e[2].as_u64().unwrap()))), base64(&obj_data(e[3].as_u64().unwrap())))),
                "w" => s.push_str(&format!("<withdraw uri=\"{}\" hash=\"{}\"/>\n", u, hex(&sha256(&obj_data(e[2].as_u64().unwrap()))))),
                x => panic!("element kind {}", x),
            }
        }
    }
    if doc["broken"].as_bool().unwrap_or(false) { s.push_str("<mangled/>\n"); }
    s.push_str(&format!("</{}>\n", root));
    s.into_bytes()
}

struct Interner { map: HashMap<Vec<u8>, u64> }
impl Interner {
    fn id(&mut self, h: &[u8]) -> u64 { let n = self.map.len() as u64 + 1; *self.map.entry(h.to_vec()).or_insert(n) }
}

pub fn file_of<'a>(step: &'a Value, r: u64) -> Option<&'a Value> {
    step["files"].as_array().unwrap().iter().find(|f| f["ref"].as_u64() == Some(r))
}

fn resolve_dig(step: &Value, dig: &Value) -> Vec<u8> {
    if let Some(r) = dig.get("ref").and_then(|r| r.as_u64()) {
        match file_of(step, r) { Some(f) => sha256(&doc_xml(&f["doc"])), None => sha256(format!("no file {}", r).as_bytes()) }
    }
    else if let Some(d) = dig.get("doc") { sha256(&doc_xml(d)) }
    else { sha256(format!("bogus {}", dig["bogus"].as_u64().unwrap_or(0)).as_bytes()) }
}

//------------ Coq printers ----------------------------------------------------------------------------------

pub fn coq_pairs(v: &Value) -> String {
    coq_list(v.as_array().unwrap().iter(), |e| format!("({}, {})", e[0].as_u64().unwrap(), e[1].as_u64().unwrap()))
}

pub fn coq_doc(doc: &Value) -> String {
    let (s, n, b) = (doc["session"].as_u64().unwrap(), doc["serial"].as_u64().unwrap(), doc["broken"].as_bool().unwrap_or(false));
    if doc["t"] == "s" {
        format!("(DSnap {} {} {} {})", s, n, coq_pairs(&doc["els"]), coq_bool(b))
    }
    else {
        let els = coq_list(doc["els"].as_array().unwrap().iter(), |e| match e[0].as_str().unwrap() {
            "p" => format!("EPub {} {}", e[1].as_u64().unwrap(), e[2].as_u64().unwrap()),
            "u" => format!("EUpd {} {} {}", e[1].as_u64().unwrap(), e[2].as_u64().unwrap(), e[3].as_u64().unwrap()),
            _ => format!("EWdr {} {}", e[1].as_u64().unwrap(), e[2].as_u64().unwrap()),
        });
        format!("(DDelta {} {} {} {})", s, n, els, coq_bool(b))
    }
}

//------------ running one case ------------------------------------------------------------------------------

pub struct Env { pub srv: Server, pub seq: AtomicU64 }

type Updater = Box<dyn FnMut(Option<&Config>, &uri::Https, &[uri::Rsync]) -> (u8, Option<&'static str>, Vec<Option<bytes::Bytes>>, Option<std::path::PathBuf>)>;
thread_local! { static UPDATER: std::cell::RefCell<Option<Updater>> = const { std::cell::RefCell::new(None) }; }

const REASONS: &[&str] = &["", "new-repository", "new-session", "inconsistent-delta-set", "large-delta-set", "delta-mutation",
    "large-serial", "outdate-local", "conflicting-delta", "too-many-deltas", "corrupt-local-copy"];

/// The kill points of the RRDP update (hooks `crate::verif::kill_point` in src/collector/rrdp/{base,update}.rs),
/// numbered as coq/C24/Model.v numbers them.
pub const KILL_LABELS: &[&str] = &["", "rrdp.delta.publish", "rrdp.delta.update", "rrdp.delta.withdraw", "rrdp.delta.state",
    "rrdp.snapshot.begin", "rrdp.snapshot.publish", "rrdp.snapshot.state", "rrdp.snapshot.remove", "rrdp.snapshot.rename",
    "rrdp.snapshot.renamed", "rrdp.tainted.remove", "rrdp.not_modified.state"];

pub type Local = Option<(u64, u64, Vec<(u64, u64)>, BTreeMap<u64, u64>)>;

/// What one run looked like from outside.
pub struct StepObs {
    pub result: u64,
    pub reason: u64,
    pub reason_name: Option<String>,
    pub reqs: Vec<u64>,
    pub local: Local,
    pub probe_ok: bool,
    /// For the run that was given a kill counter: the kill points passed (the last one is where the process died,
    /// if it died) and whether it died.
    pub kill_points: Vec<u64>,
    pub killed: bool,
}

impl StepObs {
    pub fn coq_local(&self) -> String {
        match &self.local {
            None => "None".to_string(),
            Some((s, n, ds, c)) => format!("(Some {{| l_session := {}; l_serial := {}; l_dstate := {}; l_content := {} |}})", s, n,
                coq_list(ds.iter(), |(a, b)| format!("({}, {})", a, b)), coq_list(c.iter(), |(a, b)| format!("({}, {})", a, b))),
        }
    }
    pub fn coq_sobs(&self) -> String {
        format!("{{| o_result := {}; o_reason := {}; o_reqs := {}; o_local := {}; o_probe_ok := {} |}}",
            self.result, self.reason, coq_nlist(self.reqs.iter()), self.coq_local(), coq_bool(self.probe_ok))
    }
    pub fn json(&self) -> Value {
        let result_name = ["unavailable", "stale", "current", "updated", "run-failed-retry", "run-failed-fatal", "panic", "killed"][self.result as usize];
        let mut v = json!({
            "result": result_name, "snapshot_reason": self.reason_name, "requests": self.reqs, "probe_ok": self.probe_ok,
            "local": self.local.as_ref().map(|(s, n, ds, c)| json!({"session": s, "serial": n, "delta_state": ds,
                "content": c.iter().map(|(a, b)| json!([a, b])).collect::<Vec<_>>()})),
        });
        if self.killed || !self.kill_points.is_empty() {
            v["killed"] = json!(self.killed);
            v["kill_points"] = json!(self.kill_points.iter().map(|k| KILL_LABELS.get(*k as usize).copied().unwrap_or("?")).collect::<Vec<_>>());
        }
        v
    }
}

pub struct RunOut { pub cfg_coq: String, pub world_coq: String, pub coq_steps: Vec<String>, pub steps: Vec<StepObs> }

fn make_config(cache: &std::path::Path, max_list: u64, max_count: u64, expire: bool) -> Config {
    let mut config = Config::default_with_paths(Default::default(), cache.to_path_buf());
    config.rrdp_root_certs = vec![rrdpsrv::ca_cert_path()];
    config.allow_dubious_hosts = true;
    config.rrdp_timeout = Some(Duration::from_secs(60));
    config.rrdp_max_delta_list_len = max_list as usize;
    config.rrdp_max_delta_count = max_count as usize;
    if expire {
        // best-before = now + [0, 1ns): every copy is expired by the time of the next run
        config.refresh = Duration::ZERO;
        config.rrdp_fallback_time = Duration::from_nanos(1);
    }
    config
}

fn probes() -> Vec<uri::Rsync> { (0..NURI).map(|u| uri::Rsync::from_str(&obj_uri(u)).unwrap()).collect() }
fn data_id(b: &[u8]) -> u64 { (0..8).find(|d| obj_data(*d) == b).unwrap_or(99) }

/// `c25 crashstep <cache dir> <notify uri> <max_list> <max_count> <expire>`: one run of the real collector in a
/// process of its own; with VERIF_KILL_AT=n in the environment the process aborts at the n-th kill point
/// (printing the labels passed to stderr).  If it survives it prints the outcome as one JSON line.
pub fn crashstep() {
    let a: Vec<String> = std::env::args().collect();
    let config = make_config(std::path::Path::new(&a[2]), a[4].parse().unwrap(), a[5].parse().unwrap(), a[6] == "true");
    let notify_uri = uri::Https::from_str(&a[3]).unwrap();
    let mut updater = config.verif_rrdp_updater().expect("RRDP collector");
    let (result, reason, objects, _) = updater(None, &notify_uri, &probes());
    let labels: Vec<String> = routinator::verif::kill_log().iter().map(|l| l.split('|').next().unwrap_or("").to_string()).collect();
    println!("{}", json!({"result": result, "reason": reason, "labels": labels,
        "objects": objects.iter().map(|o| o.as_ref().map(|b| data_id(b))).collect::<Vec<_>>()}));
}

/// Runs a case.  Optional keys of the input: `"etag": true` = every notification is served with the entity tag
/// of its session and serial and a request carrying that tag is answered 304 (an honest server);
/// `"crash": {"step": t, "kill_at": n}` = run t is made by a process of its own that dies at its n-th kill point.
pub fn run_case(input: &Value, env: &Env) -> RunOut {
    let id = env.seq.fetch_add(1, Ordering::SeqCst);
    let prefix = format!("/c{}/", id);
    let cfg = &input["cfg"];
    let max_list = cfg["max_list"].as_u64().unwrap();
    let max_count = cfg["max_count"].as_u64().unwrap();
    let expire = cfg["expire"].as_bool().unwrap();
    let etag = input["etag"].as_bool().unwrap_or(false);
    let crash: Option<(usize, u64)> = input.get("crash").filter(|c| !c.is_null())
        .map(|c| (c["step"].as_u64().unwrap() as usize, c["kill_at"].as_u64().unwrap()));

    let dir = tempfile::tempdir().unwrap();
    let cache = dir.path().join("cache");
    let config = make_config(&cache, max_list, max_count, expire);
    // one HTTP client per worker thread; the collector is moved to this case's cache directory and settings
    UPDATER.with(|u| { if u.borrow().is_none() { *u.borrow_mut() = Some(config.verif_rrdp_updater().expect("RRDP collector")); } });
    let mut first = true;
    let notify_path = format!("{}notification.xml", prefix);
    let notify_uri = uri::Https::from_str(&env.srv.uri(&notify_path)).unwrap();
    let archive_path = config.verif_rrdp_repository_path(&notify_uri);
    let probes = probes();
    let uri_id = |u: &str| -> u64 { (0..16).find(|i| obj_uri(*i) == u).unwrap_or(99) };
    let session_id = |s: &str| -> u64 { (0..64).find(|i| session_uuid(*i) == s).unwrap_or(99) };

    let mut intern = Interner { map: HashMap::new() };
    let mut coq_steps = Vec::new();
    let mut steps_obs = Vec::new();

    for (t, step) in input["steps"].as_array().unwrap().iter().enumerate() {
        env.srv.clear_prefix(&prefix);
        // files
        let mut coq_files = Vec::new();
        for f in step["files"].as_array().unwrap() {
            let r = f["ref"].as_u64().unwrap();
            let status = f["status"].as_u64().unwrap_or(200) as u16;
            let body = doc_xml(&f["doc"]);
            let dig = intern.id(&sha256(&body));
            env.srv.set(&format!("{}f{}.xml", prefix, r), if status == 200 { Canned::ok(body) } else { Canned::status(status) });
            coq_files.push(format!("{{| f_ref := {}; f_ok := {}; f_doc := {}; f_dig := {} |}}", r, coq_bool(status == 200), coq_doc(&f["doc"]), dig));
        }
        // notification
        let n = &step["notify"];
        let coq_notify = match n["k"].as_str().unwrap() {
            "err" => { env.srv.set(&notify_path, Canned::status(n["status"].as_u64().unwrap_or(500) as u16)); "NErr".to_string() }
            "304" => { env.srv.set(&notify_path, Canned::status(304)); "N304".to_string() }
            "missing" => { "NErr".to_string() }
            k => {
                let snap_dig = resolve_dig(step, &n["snap"]["dig"]);
                let authority = if k == "bad" && n["how"] == "origin" { "other.example".to_string() } else { env.srv.authority() };
                let mut xml = format!("<notification xmlns=\"{}\" version=\"1\" session_id=\"{}\" serial=\"{}\">\n", NS,
                    session_uuid(n["session"].as_u64().unwrap()), n["serial"].as_u64().unwrap());
                xml.push_str(&format!("<snapshot uri=\"https://{}{}f{}.xml\" hash=\"{}\"/>\n", authority, prefix,
                    n["snap"]["ref"].as_u64().unwrap(), hex(&snap_dig)));
                let mut coq_deltas = Vec::new();
                for d in n["deltas"].as_array().unwrap() {
                    let dd = resolve_dig(step, &d["dig"]);
                    xml.push_str(&format!("<delta serial=\"{}\" uri=\"https://{}{}f{}.xml\" hash=\"{}\"/>\n",
                        d["serial"].as_u64().unwrap(), env.srv.authority(), prefix, d["ref"].as_u64().unwrap(), hex(&dd)));
                    coq_deltas.push(format!("{{| di_serial := {}; di_ref := {}; di_dig := {} |}}",
                        d["serial"].as_u64().unwrap(), d["ref"].as_u64().unwrap(), intern.id(&dd)));
                }
                xml.push_str("</notification>\n");
                let mut body = xml.into_bytes();
                let mut canned = if k == "bad" {
                    match n["how"].as_str().unwrap_or("xml") {
                        "origin" => Canned::ok(body),
                        "trunc" => { let keep = body.len() / 2; Canned::truncated(body, keep) }
                        "cut" => { body.truncate(body.len() - 10); Canned::ok(body) }
                        _ => Canned::ok(b"<notification this is not xml".to_vec()),
                    }
                } else { Canned::ok(body) };
                if etag && k != "bad" { canned = canned.with_etag(&format!("\"s{}-n{}\"", n["session"].as_u64().unwrap(), n["serial"].as_u64().unwrap())); }
                env.srv.set(&notify_path, canned);
                if k == "bad" { "NBad".to_string() } else {
                    format!("(NOk {{| nf_session := {}; nf_serial := {}; nf_snap_ref := {}; nf_snap_dig := {}; nf_deltas := {} |}})",
                        n["session"].as_u64().unwrap(), n["serial"].as_u64().unwrap(), n["snap"]["ref"].as_u64().unwrap(),
                        intern.id(&snap_dig), coq_list(coq_deltas.iter(), |s| s.clone()))
                }
            }
        };
        coq_steps.push(format!("{{| s_notify := {}; s_files := {} |}}", coq_notify, coq_list(coq_files.iter(), |s| s.clone())));

        // one validation run
        let _ = env.srv.take_log(&prefix);
        let mut kill_points: Vec<u64> = Vec::new();
        let mut killed = false;
        let (result, reason, objects): (u64, Option<String>, Vec<Option<u64>>) = match crash {
            Some((ct, kill_at)) if ct == t => {
                // a process of its own that dies at its kill_at-th kill point
                let out = std::process::Command::new(std::env::current_exe().expect("current_exe"))
                    .arg("crashstep").arg(&cache).arg(notify_uri.as_str())
                    .arg(max_list.to_string()).arg(max_count.to_string()).arg(expire.to_string())
                    .env("VERIF_KILL_AT", kill_at.to_string())
                    .output().expect("spawn crashstep");
                let labels: Vec<String>;
                let res;
                if out.status.success() {
                    let v: Value = serde_json::from_slice(&out.stdout).expect("crashstep output");
                    labels = v["labels"].as_array().unwrap().iter().map(|l| l.as_str().unwrap().to_string()).collect();
                    res = (v["result"].as_u64().unwrap(), v["reason"].as_str().map(|s| s.to_string()),
                           v["objects"].as_array().unwrap().iter().map(|o| o.as_u64()).collect());
                }
                else {
                    killed = true;
                    labels = String::from_utf8_lossy(&out.stderr).lines()
                        .filter_map(|l| l.strip_prefix("VERIF_KILL_POINT ")).map(|l| l.split('|').next().unwrap_or("").to_string()).collect();
                    // died without having reached a kill point: not a kill, a harness problem -> visible as result 6
                    res = (if labels.len() as u64 == kill_at { 7 } else { 6 }, None, Vec::new());
                }
                kill_points = labels.iter().map(|l| KILL_LABELS.iter().position(|x| x == l).unwrap_or(99) as u64).collect();
                res
            }
            _ => {
                let res = std::panic::catch_unwind(std::panic::AssertUnwindSafe(|| UPDATER.with(|u| {
                    let mut u = u.borrow_mut();
                    (u.as_mut().unwrap())(if first { Some(&config) } else { None }, &notify_uri, &probes)
                })));
                first = false;
                if res.is_err() { UPDATER.with(|u| { if let Ok(mut u) = u.try_borrow_mut() { *u = None; } }); }
                match res {
                    Ok((r, reason, objects, _)) => (r as u64, reason.map(|s| s.to_string()),
                        objects.iter().map(|o| o.as_ref().map(|b| data_id(b))).collect()),
                    Err(_) => (6, None, Vec::new()),
                }
            }
        };
        let reqs: Vec<u64> = env.srv.take_log(&prefix).iter().map(|r| {
            let name = &r.path[prefix.len()..];
            if name == "notification.xml" { 0 }
            else { name.strip_prefix('f').and_then(|s| s.strip_suffix(".xml")).and_then(|s| s.parse().ok()).unwrap_or(9999) }
        }).collect();
        let reason_id = reason.as_ref().map(|r| REASONS.iter().position(|x| *x == r.as_str()).unwrap_or(99) as u64).unwrap_or(0);

        // read the archive back
        let mut local: Local = None;
        let mut readable = true;
        if let Some(path) = archive_path.as_ref() {
            if path.exists() {
                match RrdpArchive::open(Arc::new(path.clone())) {
                    Ok(archive) => {
                        match archive.load_state() {
                            Ok(state) => {
                                let mut ds: Vec<(u64, u64)> = state.delta_state.iter().map(|(k, v)| (*k, intern.id(v.as_ref()))).collect();
                                ds.sort();
                                let mut content = BTreeMap::new();
                                match archive.objects() {
                                    Ok(iter) => for item in iter {
                                        match item { Ok((u, b)) => { content.insert(uri_id(u.as_str()), data_id(&b)); } Err(_) => readable = false }
                                    },
                                    Err(_) => readable = false,
                                }
                                local = Some((session_id(&state.session.to_string()), state.serial, ds, content));
                            }
                            Err(_) => readable = false,
                        }
                    }
                    Err(_) => readable = false,
                }
            }
        }
        // what the run's own reader hands out must be what is in the archive
        let probe_ok = readable && (result != 3 || match &local {
            Some((_, _, _, content)) => objects.len() == NURI as usize && (0..NURI).all(|u| {
                objects[u as usize] == content.get(&u).copied()
            }) && content.keys().all(|u| *u < NURI),
            None => false,
        });
        steps_obs.push(StepObs { result, reason: reason_id, reason_name: reason, reqs, local, probe_ok, kill_points, killed });
    }
    env.srv.clear_prefix(&prefix);

    let world_coq = coq_list(input["world"].as_array().unwrap().iter(), |w| {
        format!("({}, {}, {})", w[0].as_u64().unwrap(), w[1].as_u64().unwrap(), coq_pairs(&w[2]))
    });
    let cfg_coq = format!("{{| c_max_list := {}; c_max_count := {}; c_expire := {} |}}", max_list, max_count, coq_bool(expire));
    RunOut { cfg_coq, world_coq, coq_steps, steps: steps_obs }
}

fn run(input: &Value, env: &Env) -> CaseOut {
    let out = run_case(input, env);
    // one world per run (rewritten histories), or none: the single world holds for all runs
    let worlds_coq = match input.get("worlds").and_then(|w| w.as_array()) {
        Some(ws) => coq_list(ws.iter(), |w| coq_list(w.as_array().unwrap().iter(), |e| {
            format!("({}, {}, {})", e[0].as_u64().unwrap(), e[1].as_u64().unwrap(), coq_pairs(&e[2]))
        })),
        None => "[]".to_string(),
    };
    let coq = format!("{{| c_cfg := {}; c_world := {}; c_worlds := {}; c_steps := {}; c_impl := {} |}}", out.cfg_coq, out.world_coq,
        worlds_coq, coq_list(out.coq_steps.iter(), |s| s.clone()), coq_list(out.steps.iter(), |s| s.coq_sobs()));
    let by_delta = out.steps.iter().any(|s| s.result == 3 && s.reason == 0 && s.reqs.len() > 1);
    CaseOut { obs: json!(out.steps.iter().map(|s| s.json()).collect::<Vec<_>>()), coq, nontrivial: by_delta }
}

//------------ generators ------------------------------------------------------------------------------------

pub type Content = BTreeMap<u64, u64>;

pub fn content_json(c: &Content) -> Value { json!(c.iter().map(|(u, d)| json!([u, d])).collect::<Vec<_>>()) }

/// The genuine delta between two contents (elements in URI order).
pub fn diff(a: &Content, b: &Content) -> Vec<Value> {
    let mut els = Vec::new();
    for u in 0..NURI {
        match (a.get(&u), b.get(&u)) {
            (None, Some(d)) => els.push(json!(["p", u, d])),
            (Some(o), Some(d)) if o != d => els.push(json!(["u", u, o, d])),
            (Some(o), None) => els.push(json!(["w", u, o])),
            _ => {}
        }
    }
    els
}

/// A linear history of one session: `first` serial and the contents of the successive versions.
#[derive(Clone)]
pub struct Hist { pub session: u64, pub first: u64, pub versions: Vec<Content> }

impl Hist {
    pub fn serial(&self, i: usize) -> u64 { self.first + i as u64 }
    pub fn snap_doc(&self, i: usize) -> Value {
        json!({"t": "s", "session": self.session, "serial": self.serial(i),
               "els": self.versions[i].iter().map(|(u, d)| json!([u, d])).collect::<Vec<_>>(), "broken": false})
    }
    /// The genuine delta leading to version i (i >= 1).
    pub fn delta_doc(&self, i: usize) -> Value {
        json!({"t": "d", "session": self.session, "serial": self.serial(i), "els": diff(&self.versions[i - 1], &self.versions[i]), "broken": false})
    }
    pub fn world(&self) -> Vec<Value> {
        (0..self.versions.len()).map(|i| json!([self.session, self.serial(i), content_json(&self.versions[i])])).collect()
    }
    /// What an honest server at version i serves: snapshot under ref 1, delta j under ref 10 + j, the last
    /// `window` deltas listed.
    pub fn honest_step(&self, i: usize, window: usize) -> Value {
        let lo = if i > window { i - window + 1 } else { 1 };
        let mut files = vec![json!({"ref": 1, "status": 200, "doc": self.snap_doc(i)})];
        let mut deltas = Vec::new();
        for j in lo..=i {
            if j == 0 { continue }
            files.push(json!({"ref": 10 + j as u64, "status": 200, "doc": self.delta_doc(j)}));
            deltas.push(json!({"serial": self.serial(j), "ref": 10 + j as u64, "dig": {"ref": 10 + j as u64}}));
        }
        json!({"notify": {"k": "ok", "session": self.session, "serial": self.serial(i), "snap": {"ref": 1, "dig": {"ref": 1}}, "deltas": deltas},
               "files": files})
    }
}

pub fn content_of(pairs: &[(u64, u64)]) -> Content { pairs.iter().cloned().collect() }

pub fn case(cfg: (u64, u64, bool), hists: &[&Hist], steps: Vec<Value>) -> Value {
    let world: Vec<Value> = hists.iter().flat_map(|h| h.world()).collect();
    json!({"cfg": {"max_list": cfg.0, "max_count": cfg.1, "expire": cfg.2}, "world": world, "steps": steps})
}

//------------ faults ----------------------------------------------------------------------------------------

/// Replaces every symbolic hash "hash of the file under ref r" by "hash of this document", so that changing a
/// file afterwards does not change the hash the notification announces.
pub fn pin(step: &Value) -> Value {
    let mut s = step.clone();
    if s["notify"]["k"] != "ok" && s["notify"]["k"] != "bad" { return s }
    let fix = |dig: &Value| -> Value {
        match dig.get("ref").and_then(|r| r.as_u64()) {
            Some(r) => match file_of(step, r) { Some(f) => json!({"doc": f["doc"]}), None => dig.clone() },
            None => dig.clone(),
        }
    };
    let d = fix(&s["notify"]["snap"]["dig"]);
    s["notify"]["snap"]["dig"] = d;
    if let Some(ds) = s["notify"]["deltas"].as_array_mut() { for e in ds.iter_mut() { let d = fix(&e["dig"]); e["dig"] = d; } }
    s
}

pub type Fault = (String, Value, Option<(u64, u64)>);

/// Every single fault applicable to a step (an honest one or one that already carries faults).  `h`, `i`: the
/// history and version the server is at (for documents of the wrong type).
pub fn faults_of(step: &Value, h: &Hist, i: usize) -> Vec<Fault> {
    let base = pin(step);
    let mut res: Vec<Fault> = Vec::new();
    if base["notify"]["k"] != "ok" { return res }
    let with_notify = |n: Value| { let mut s = base.clone(); s["notify"] = n; s };
    // the notification request
    res.push(("n.err404".into(), with_notify(json!({"k": "err", "status": 404})), None));
    res.push(("n.err500".into(), with_notify(json!({"k": "err", "status": 500})), None));
    res.push(("n.status204".into(), with_notify(json!({"k": "err", "status": 204})), None));
    res.push(("n.no_route".into(), with_notify(json!({"k": "missing"})), None));
    res.push(("n.304".into(), with_notify(json!({"k": "304"})), None));
    for how in ["xml", "trunc", "cut", "origin"] {
        let mut s = base.clone(); s["notify"]["k"] = json!("bad"); s["notify"]["how"] = json!(how);
        res.push((format!("n.bad_{}", how), s, None));
    }
    let serial = base["notify"]["serial"].as_u64().unwrap();
    { let mut s = base.clone(); s["notify"]["serial"] = json!(serial.wrapping_add(2)); res.push(("n.serial_plus2".into(), s, None)); }
    { let mut s = base.clone(); s["notify"]["serial"] = json!(serial.wrapping_sub(1)); res.push(("n.serial_minus1".into(), s, None)); }
    { let mut s = base.clone(); s["notify"]["session"] = json!(9); res.push(("n.session_other".into(), s, None)); }
    // the delta list
    let ds = base["notify"]["deltas"].as_array().unwrap().clone();
    let l = ds.len();
    let with_list = |v: Vec<Value>| { let mut s = base.clone(); s["notify"]["deltas"] = json!(v); s };
    for j in 0..l {
        let mut v = ds.clone(); v.remove(j);
        res.push((if j == 0 { "l.drop_oldest" } else if j == l - 1 { "l.drop_newest" } else { "l.gap" }.into(), with_list(v), None));
        let mut v = ds.clone(); v.insert(j + 1, ds[j].clone());
        res.push(("l.dup".into(), with_list(v), None));
        let mut v = ds.clone(); let mut e = ds[j].clone(); e["dig"] = json!({"bogus": 7}); v.insert(j + 1, e);
        res.push(("l.dup_other_hash".into(), with_list(v), None));
        let mut v = ds.clone(); let mut e = ds[j].clone(); e["dig"] = json!({"bogus": 7}); v.insert(j, e);
        res.push(("l.dup_other_hash_first".into(), with_list(v), None));
        let mut v = ds.clone(); v[j]["dig"] = json!({"bogus": 3});
        res.push(("l.mutated_hash".into(), with_list(v), None));
        if l > 1 {
            let o = (j + 1) % l;
            let mut v = ds.clone(); v[j]["dig"] = ds[o]["dig"].clone();
            res.push(("l.hash_of_other_delta".into(), with_list(v), None));
            let mut v = ds.clone(); v[j]["ref"] = ds[o]["ref"].clone();
            res.push(("l.uri_of_other_delta".into(), with_list(v), None));
            let mut v = ds.clone(); v[j]["ref"] = ds[o]["ref"].clone(); v[j]["dig"] = ds[o]["dig"].clone();
            res.push(("l.other_delta_under_serial".into(), with_list(v), None));
        }
        let mut v = ds.clone(); v[j]["serial"] = json!(ds[j]["serial"].as_u64().unwrap().wrapping_add(1));
        res.push(("l.entry_serial_plus1".into(), with_list(v), None));
    }
    // pairs of list mutations that keep the number of entries: one entry dropped, another one duplicated
    // (a gapped AND duplicated list has the right length, first and last serial)
    for j in 0..l {
        for m in 0..l {
            if m == j { continue }
            let mut v: Vec<Value> = Vec::new();
            for (k, e) in ds.iter().enumerate() {
                if k == j { continue }
                v.push(e.clone());
                if k == m { v.push(e.clone()); }
            }
            res.push(("l.gap_and_dup".into(), with_list(v), None));
            // the same with the second entry under serial m pointing to a different document that applies
            // cleanly after the first one (an empty delta): only the serial sequence tells that a step is missing
            for before in [false, true] {
                let doc = json!({"t": "d", "session": base["notify"]["session"], "serial": ds[m]["serial"], "els": [], "broken": false});
                let extra = json!({"serial": ds[m]["serial"], "ref": 90 + m as u64, "dig": {"doc": doc}});
                let mut v: Vec<Value> = Vec::new();
                for (k, e) in ds.iter().enumerate() {
                    if k == j { continue }
                    if k == m && before { v.push(extra.clone()); }
                    v.push(e.clone());
                    if k == m && !before { v.push(extra.clone()); }
                }
                let mut s = with_list(v);
                s["files"].as_array_mut().unwrap().push(json!({"ref": 90 + m as u64, "status": 200, "doc": doc}));
                res.push(("l.gap_and_empty_dup".into(), s, None));
            }
        }
    }
    if l > 1 {
        let mut v = ds.clone(); v.reverse(); res.push(("l.reversed".into(), with_list(v), None));
        let mut v = ds.clone(); v.rotate_left(1); res.push(("l.rotated".into(), with_list(v), None));
        res.push(("l.only_newest".into(), with_list(vec![ds[l - 1].clone()]), None));
        res.push(("l.oversized".into(), base.clone(), Some((l as u64 - 1, 10))));
        res.push(("l.count_limit_1".into(), base.clone(), Some((10, 1))));
    }
    if l > 0 {
        res.push(("l.empty".into(), with_list(vec![]), None));
        res.push(("l.count_limit_0".into(), base.clone(), Some((10, 0))));
        res.push(("l.list_limit_0".into(), base.clone(), Some((0, 10))));
        let mut v = ds.clone();
        v.push(json!({"serial": ds[l - 1]["serial"].as_u64().unwrap().wrapping_add(1), "ref": 97, "dig": {"bogus": 5}}));
        res.push(("l.extra_future".into(), with_list(v), None));
    }
    // the snapshot entry
    { let mut s = base.clone(); s["notify"]["snap"]["dig"] = json!({"bogus": 1}); res.push(("s.hash_bogus".into(), s, None)); }
    { let mut s = base.clone(); s["notify"]["snap"]["ref"] = json!(98); res.push(("s.uri_404".into(), s, None)); }
    // the files
    let files = base["files"].as_array().unwrap().clone();
    for (fi, f) in files.iter().enumerate() {
        let snap = f["doc"]["t"] == "s";
        let tag = if snap { "fs" } else { "fd" };
        let with_file = |nf: Value| { let mut s = base.clone(); s["files"][fi] = nf; s };
        let with_doc = |d: Value| { let mut nf = f.clone(); nf["doc"] = d; with_file(nf) };
        for st in [404u64, 500] { let mut nf = f.clone(); nf["status"] = json!(st); res.push((format!("{}.status{}", tag, st), with_file(nf), None)); }
        { let mut d = f["doc"].clone(); d["session"] = json!(9); res.push((format!("{}.doc_session_other", tag), with_doc(d), None)); }
        { let mut d = f["doc"].clone(); d["serial"] = json!(d["serial"].as_u64().unwrap().wrapping_add(1)); res.push((format!("{}.doc_serial_plus1", tag), with_doc(d), None)); }
        if snap { if i >= 1 { res.push(("fs.is_a_delta".into(), with_doc(h.delta_doc(i)), None)); } }
        else { res.push(("fd.is_a_snapshot".into(), with_doc(h.snap_doc(i)), None)); }
        let els = f["doc"]["els"].as_array().unwrap().clone();
        for k in 0..=els.len() {
            let mut d = f["doc"].clone(); d["els"] = json!(els[..k].to_vec()); d["broken"] = json!(true);
            res.push((format!("{}.broken_after_{}", tag, if k == els.len() { "all".to_string() } else { k.to_string() }), with_doc(d), None));
        }
        let with_els = |v: Vec<Value>| { let mut d = f["doc"].clone(); d["els"] = json!(v); with_doc(d) };
        for k in 0..els.len() {
            let mut v = els.clone(); v.remove(k); res.push((format!("{}.element_dropped", tag), with_els(v), None));
            let mut v = els.clone(); v.insert(k + 1, els[k].clone()); res.push((format!("{}.element_repeated", tag), with_els(v), None));
            let mut v = els.clone();
            let last = v[k].as_array().unwrap().len() - 1;
            if snap || v[k][0] != "w" {
                v[k][last] = json!(1 - v[k][last].as_u64().unwrap().min(1));
                res.push((format!("{}.element_other_content", tag), with_els(v), None));
            }
            if !snap && els[k][0] != "p" {
                let mut v = els.clone(); v[k][2] = json!(1 - v[k][2].as_u64().unwrap().min(1));
                res.push(("fd.element_other_old_hash".into(), with_els(v), None));
                let mut v = els.clone(); v[k][2] = json!(5);
                res.push(("fd.element_unknown_old_hash".into(), with_els(v), None));
            }
        }
        for u in 0..NURI {
            if snap {
                for at_end in [false, true] {
                    let mut v = els.clone(); if at_end { v.push(json!([u, 0])) } else { v.insert(0, json!([u, 1])) }
                    res.push(("fs.element_added".into(), with_els(v), None));
                }
            }
            else {
                for e in [json!(["p", u, 0]), json!(["p", u, 1]), json!(["w", u, 0]), json!(["w", u, 1]), json!(["u", u, 0, 1]), json!(["u", u, 1, 0])] {
                    let mut v = els.clone(); v.push(e.clone()); res.push(("fd.element_added_last".into(), with_els(v), None));
                    let mut v = els.clone(); v.insert(0, e); res.push(("fd.element_added_first".into(), with_els(v), None));
                }
            }
        }
    }
    res
}

//------------ histories and walks ---------------------------------------------------------------------------

pub fn all_contents() -> Vec<Content> {
    let mut res = Vec::new();
    for code in 0..27u64 {
        let mut c = Content::new();
        let mut x = code;
        for u in 0..NURI { match x % 3 { 1 => { c.insert(u, 0); } 2 => { c.insert(u, 1); } _ => {} } x /= 3; }
        res.push(c);
    }
    res
}

pub fn fixed_histories() -> Vec<Hist> {
    let c = content_of;
    vec![
        // publish, update, publish
        Hist { session: 1, first: 5, versions: vec![c(&[(0, 0)]), c(&[(0, 0), (1, 0)]), c(&[(0, 1), (1, 0)]), c(&[(0, 1), (1, 0), (2, 0)]), c(&[(1, 0), (2, 0)])] },
        // publish then withdraw the same object, an empty delta, changes on disjoint objects
        Hist { session: 1, first: 1, versions: vec![c(&[]), c(&[(1, 1)]), c(&[]), c(&[]), c(&[(0, 0), (2, 1)])] },
        // update a -> b -> a, everything changes at once
        Hist { session: 3, first: 100, versions: vec![c(&[(0, 0), (1, 0), (2, 0)]), c(&[(0, 1), (1, 0), (2, 0)]), c(&[(0, 0), (1, 0), (2, 0)]), c(&[(0, 1), (1, 1), (2, 1)]), c(&[])] },
        // the last serials a u64 can hold
        Hist { session: 4, first: u64::MAX - 2, versions: vec![c(&[(0, 0)]), c(&[(0, 0), (1, 1)]), c(&[(1, 1)])] },
        // serial 0 is a serial
        Hist { session: 5, first: 0, versions: vec![c(&[(2, 1)]), c(&[(2, 0)]), c(&[(1, 0), (2, 0)])] },
    ]
}

pub fn random_history(rng: &mut Rng, session: u64, len: usize) -> Hist {
    let all = all_contents();
    let mut versions = vec![rng.pick(&all).clone()];
    while versions.len() < len {
        let prev = versions.last().unwrap().clone();
        let next = match rng.below(10) {
            0 => prev.clone(),                                   // empty delta
            1 | 2 => rng.pick(&all).clone(),                     // anything
            _ => {                                               // one or two objects change
                let mut n = prev.clone();
                for _ in 0..rng.range(1, 2) {
                    let u = rng.below(NURI);
                    match rng.below(3) { 0 => { n.remove(&u); } 1 => { n.insert(u, 0); } _ => { n.insert(u, 1); } }
                }
                n
            }
        };
        versions.push(next);
    }
    let first = match rng.below(8) { 0 => 0, 1 => 1, 2 => u64::MAX - len as u64 + 1, _ => rng.range(1, 1000) };
    Hist { session, first, versions }
}

/// The sequence of honest steps for a walk: (index of the history, version, number of deltas listed).
pub fn honest_walk(hists: &[Hist], walk: &[(usize, usize, usize)]) -> Vec<Value> {
    walk.iter().map(|(hi, v, w)| hists[*hi].honest_step(*v, *w)).collect()
}

pub fn case_of(cfg: (u64, u64, bool), hists: &[Hist], steps: Vec<Value>) -> Value {
    let refs: Vec<&Hist> = hists.iter().collect();
    case(cfg, &refs, steps)
}

/// The three witnesses of the defects that were corrected (also kept in corpus/C25/updates.json).
fn witnesses() -> Vec<(String, Value)> {
    let mut cases = Vec::new();
    let h = fixed_histories().remove(0);
    let hs = [h.clone()];
    let mut s = pin(&h.honest_step(3, 5));
    s["notify"]["deltas"].as_array_mut().unwrap().remove(1);
    cases.push(("corpus.F17_gapped_delta_list_applied".to_string(), case_of((10, 10, false), &hs, vec![h.honest_step(0, 5), s])));
    cases.push(("corpus.F16_not_modified_without_copy".to_string(), case_of((10, 10, false), &hs,
        vec![json!({"notify": {"k": "304"}, "files": []}), h.honest_step(0, 5)])));
    let mut s = pin(&h.honest_step(1, 5));
    s["files"][1]["doc"]["els"] = json!([["p", 2, 0]]);
    s["files"][0]["status"] = json!(500);
    cases.push(("corpus.F20_partial_delta_then_failed_snapshot".to_string(), case_of((10, 10, false), &hs,
        vec![h.honest_step(0, 5), s, h.honest_step(1, 5)])));
    cases
}

fn gen(rng: &mut Rng, tier: &str) -> Vec<(String, Value)> {
    let thorough = tier == "thorough";
    // the witnesses of the corrected defects are replayed from corpus/C25/updates.json (written from witnesses())
    let mut cases: Vec<(String, Value)> = if std::env::var("C25_EMIT_WITNESSES").is_ok() { witnesses() } else { Vec::new() };
    let mut hists = fixed_histories();
    let nrand = if thorough { 12 } else { 2 };
    for k in 0..nrand { let h = random_history(rng, 10 + k, 5); hists.push(h); }

    // (a) honest servers: every walk 0 <= v1 <= v2 <= v3 (<= v4) through a history, several window sizes
    for (hi, h) in hists.iter().enumerate() {
        let n = h.versions.len();
        for a in 0..n { for b in a..n { for c in b..n {
            for w in [1usize, 2, 5] {
                if !thorough && (a + b + c + w + hi) % 6 != 0 { continue }
                cases.push(("honest.walk".to_string(), case_of((10, 10, false), std::slice::from_ref(h),
                    honest_walk(std::slice::from_ref(h), &[(0, a, w), (0, b, w), (0, c, w), (0, n - 1, w)]))));
            }
        }}}
    }

    // (b) every single fault at every step of a walk, from the local state the walk has reached, then the walk goes on
    let walks: Vec<Vec<(usize, usize, usize)>> = vec![
        vec![(0, 0, 5), (0, 1, 5), (0, 3, 5), (0, 3, 5), (0, 4, 5)],
        vec![(0, 1, 2), (0, 2, 2), (0, 4, 2)],
        // jumps of three and four versions: three or four deltas to follow, so that a list can lack one serial and
        // repeat another with the count still right (only faults of the delta list are planted on these walks)
        vec![(0, 0, 5), (0, 3, 5), (0, 4, 5)],
        vec![(0, 0, 5), (0, 4, 5)],
    ];
    for (hi, h) in hists.iter().enumerate() {
        for (wi, walk) in walks.iter().enumerate() {
            let walk: Vec<(usize, usize, usize)> = walk.iter().map(|(a, v, w)| (*a, (*v).min(h.versions.len() - 1), *w)).collect();
            if !thorough && hi >= 1 && wi == 1 { continue }
            // quick tier: the full fault list on the first history, every eighth fault on the others
            let list_only = wi >= 2;
            let stride = if thorough || (hi < 1 && (wi == 0 || list_only)) { 1 } else if wi == 1 || list_only { 3 } else { 8 };
            let honest = honest_walk(std::slice::from_ref(h), &walk);
            for t in 0..honest.len() {
                for (fi, (name, step, cfg)) in faults_of(&honest[t], h, walk[t].1).into_iter().enumerate() {
                    if list_only && !name.starts_with("l.") { continue }
                    if (fi + t + hi) % stride != 0 { continue }
                    let mut steps = honest.clone();
                    steps[t] = step;
                    let (ml, mc) = cfg.unwrap_or((10, 10));
                    let expire = (hi + t) % 4 == 3;
                    cases.push((format!("single_fault.{}", name), case_of((ml, mc, expire), std::slice::from_ref(h), steps)));
                }
            }
        }
    }

    // (c) a fault in a delta file together with a failing snapshot in the same run, then the honest server again
    for (hi, h) in hists.iter().enumerate() {
        if !thorough && hi >= 1 { continue }
        let last = h.versions.len() - 1;
        let walk = [(0usize, 0usize, 5usize), (0, last.min(2), 5), (0, last.min(2), 5), (0, last, 5)];
        let honest = honest_walk(std::slice::from_ref(h), &walk);
        let delta_faults: Vec<Fault> = faults_of(&honest[1], h, walk[1].1).into_iter().filter(|f| f.0.starts_with("fd.") || f.0.starts_with("l.")).collect();
        for (name, step, cfg) in delta_faults {
            let snap_faults: Vec<Fault> = faults_of(&step, h, walk[1].1).into_iter()
                .filter(|f| ["fs.status500", "s.hash_bogus", "fs.broken_after_all", "fs.doc_serial_plus1", "fs.element_dropped"].contains(&f.0.as_str())).collect();
            for (k, (sname, step2, _)) in snap_faults.into_iter().enumerate() {
                if !thorough && k > 1 { continue }
                let mut steps = honest.clone();
                steps[1] = step2;
                let (ml, mc) = cfg.unwrap_or((10, 10));
                cases.push((format!("delta_and_snapshot_fault.{}+{}", name, sname), case_of((ml, mc, false), std::slice::from_ref(h), steps)));
            }
        }
    }

    // (d) random: two sessions, the server moves forward, stays, goes back or changes session; several faults per run
    let n = if thorough { 6000 } else { 300 };
    for _ in 0..n {
        let (l1, l2) = (rng.range(2, 5) as usize, rng.range(1, 4) as usize);
        let hs = vec![random_history(rng, 1, l1), random_history(rng, 2, l2)];
        let nsteps = rng.range(2, 6) as usize;
        let (mut hi, mut v) = (0usize, 0usize);
        let mut steps = Vec::new();
        let mut cfg = (rng.range(0, 6), rng.range(0, 6), rng.chance(1, 5));
        if rng.chance(2, 3) { cfg.0 = 10; cfg.1 = 10; }
        let mut nfaults = 0;
        for _ in 0..nsteps {
            match rng.below(10) {
                0 => { hi = 1 - hi; v = rng.below(hs[hi].versions.len() as u64) as usize; }
                1 => { v = rng.below(hs[hi].versions.len() as u64) as usize; }
                2 | 3 => {}
                _ => { v = (v + rng.range(1, 2) as usize).min(hs[hi].versions.len() - 1); }
            }
            let mut step = hs[hi].honest_step(v, rng.range(1, 5) as usize);
            let k = match rng.below(10) { 0..=3 => 0, 4..=7 => 1, 8 => 2, _ => 3 };
            for _ in 0..k {
                let fs = faults_of(&step, &hs[hi], v);
                if fs.is_empty() { break }
                let (_, s2, c2) = fs[rng.below(fs.len() as u64) as usize].clone();
                step = s2;
                if let Some(c) = c2 { if steps.is_empty() { cfg.0 = c.0; cfg.1 = c.1; } }
                nfaults += 1;
            }
            steps.push(step);
        }
        let class = format!("random.{}_faults", if nfaults > 3 { "4+".to_string() } else { nfaults.to_string() });
        cases.push((class, case_of(cfg, &hs, steps)));
    }

    // (e) malformed: the server re-issues a delta with different content under a matching hash (outside the
    //     hash-integrity premise: only the correspondence is checked), before and after the client has seen it
    for (hi, h) in hists.iter().enumerate() {
        if h.versions.len() < 4 || (!thorough && hi >= 3) { continue }
        let honest = honest_walk(std::slice::from_ref(h), &[(0, 1, 5), (0, 2, 5), (0, 3, 5)]);
        for t in 1..3 { for fi in 1..=t + 1 {
            let mut steps = honest.clone();
            if steps[t]["files"].as_array().unwrap().len() <= fi { continue }
            steps[t]["files"][fi]["doc"]["els"].as_array_mut().unwrap().push(json!(["p", 2, 1]));
            cases.push(("malformed.delta_reissued_with_matching_hash".to_string(), case_of((10, 10, false), std::slice::from_ref(h), steps.clone())));
            steps[t]["files"][fi]["doc"]["els"] = json!([]);
            cases.push(("malformed.delta_reissued_with_matching_hash".to_string(), case_of((10, 10, false), std::slice::from_ref(h), steps)));
        }}
    }

    // (f) rewritten history: after the client has stored version i of history h, the server stands for h2, which
    //     has the same session and serials but other content from version r on (so delta r and every later one
    //     have other hashes).  One world per run.  The oracle's premise (coq/C25/Spec.v step_premise) holds when
    //     the copy is still the new world's content (r > i), or the notification lists a delta serial remembered
    //     by the copy with another hash; runs outside the premise only count for the correspondence.
    for (hi, h) in hists.iter().enumerate() {
        let n = h.versions.len();
        if n < 3 { continue }
        let all = all_contents();
        for r in 1..n {
            // h2: versions r.. replaced (a fixed mutation and a random one), possibly one version longer
            for variant in 0..2u64 {
                let mut h2 = h.clone();
                for j in r..n {
                    let mut c = h.versions[j].clone();
                    if variant == 0 {
                        // flip object 2 (present <-> absent with data 1): differs from h at every j >= r
                        if c.contains_key(&2) { c.remove(&2); } else { c.insert(2, 1); }
                    } else {
                        c = rng.pick(&all).clone();
                        if c == h.versions[j] { if c.contains_key(&0) { c.remove(&0); } else { c.insert(0, 1); } }
                    }
                    h2.versions[j] = c;
                }
                if variant == 1 && h2.first < u64::MAX - n as u64 { let c = rng.pick(&all).clone(); h2.versions.push(c); }
                let n2 = h2.versions.len();
                for i in 0..n {
                    for (w1, w2) in [(5usize, 5usize), (2, 5), (5, 1), (1, 2)] {
                        for i2 in [i.min(n2 - 1), (i + 1).min(n2 - 1), n2 - 1, i.saturating_sub(1)] {
                            if !thorough && (hi + r + i + i2 + w1 + w2 + variant as usize) % 5 != 0 { continue }
                            let mut steps = Vec::new();
                            let mut worlds = Vec::new();
                            if i > 0 { steps.push(h.honest_step(0, w1)); worlds.push(json!(h.world())); }
                            steps.push(h.honest_step(i, w1)); worlds.push(json!(h.world()));
                            steps.push(h2.honest_step(i2, w2)); worlds.push(json!(h2.world()));
                            steps.push(h2.honest_step(n2 - 1, w2)); worlds.push(json!(h2.world()));
                            let mut c = case_of((10, 10, false), std::slice::from_ref(h), steps);
                            c["worlds"] = json!(worlds);
                            let class = if i2 == i { "rewritten.same_serial" } else if i2 > i { "rewritten.later_serial" } else { "rewritten.earlier_serial" };
                            cases.push((class.to_string(), c));
                        }
                    }
                }
            }
        }
    }
    cases
}

//------------ process pool ----------------------------------------------------------------------------------
//
// The archive code maps and unmaps files all the time; with many threads in one address space that serialises on
// the kernel's mmap lock.  So the cases are spread over single-threaded worker processes (`c25 worker`: one
// case per input line on stdin, one result line on stdout), each with its own fetch server and HTTP client.

struct Worker { child: std::process::Child, stdin: std::process::ChildStdin, stdout: std::io::BufReader<std::process::ChildStdout> }
thread_local! { static WORKER: std::cell::RefCell<Option<Worker>> = const { std::cell::RefCell::new(None) }; }

pub fn via_worker(input: &Value) -> CaseOut {
    use std::io::{BufRead, Write};
    WORKER.with(|w| {
        let mut w = w.borrow_mut();
        if w.is_none() {
            let mut child = std::process::Command::new(std::env::current_exe().expect("current_exe")).arg("worker")
                .stdin(std::process::Stdio::piped()).stdout(std::process::Stdio::piped()).spawn().expect("spawn worker");
            let stdin = child.stdin.take().unwrap();
            let stdout = std::io::BufReader::new(child.stdout.take().unwrap());
            *w = Some(Worker { child, stdin, stdout });
        }
        let wk = w.as_mut().unwrap();
        writeln!(wk.stdin, "{}", input).expect("worker stdin");
        wk.stdin.flush().expect("worker stdin");
        let mut line = String::new();
        wk.stdout.read_line(&mut line).expect("worker stdout");
        if line.is_empty() { let _ = wk.child.kill(); panic!("worker died on input {}", input); }
        let v: Value = serde_json::from_str(&line).expect("worker result");
        CaseOut { obs: v["obs"].clone(), coq: v["coq"].as_str().unwrap().to_string(), nontrivial: v["nontrivial"].as_bool().unwrap() }
    })
}

pub fn worker(run: fn(&Value, &Env) -> CaseOut) {
    use std::io::{BufRead, Write};
    let env = Env { srv: Server::start(), seq: AtomicU64::new(0) };
    let stdin = std::io::stdin();
    let mut out = std::io::stdout();
    for line in stdin.lock().lines() {
        let Ok(line) = line else { break };
        if line.trim().is_empty() { continue }
        let input: Value = serde_json::from_str(&line).expect("worker input");
        let res = run(&input, &env);
        writeln!(out, "{}", json!({"obs": res.obs, "coq": res.coq, "nontrivial": res.nontrivial})).unwrap();
        out.flush().unwrap();
    }
}

#[allow(dead_code)]
fn main() {
    if std::env::args().nth(1).as_deref() == Some("worker") { return worker(run) }
    if std::env::args().nth(1).as_deref() == Some("crashstep") { return crashstep() }
    let threads = std::env::var("C25_WORKERS").ok().and_then(|s| s.parse().ok()).unwrap_or(12);
    drive_par(gen, via_worker, threads);
}
