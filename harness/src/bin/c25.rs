//! C25: RRDP updates reproduce the server state or report failure — the real RRDP collector vs the Coq model
//! (coq/C25).
//!
//! One case = a server history (the "world": session x serial -> content over 3 URIs x 2 contents), a config
//! (delta list limit, delta count limit, expiring copies) and a list of steps.  A step says what the fetch
//! server (rv_harness::rrdpsrv, HTTPS on 127.0.0.1) serves during one validation run: the answer to the
//! notification request (HTTP error / 304 / unusable XML / a notification with any session, serial, snapshot
//! reference + hash and any delta list) and a table of files (reference -> status, snapshot or delta document,
//! possibly cut after some elements).  Hashes in the notification are given symbolically (hash of the file
//! served under a reference, hash of some other document, an unrelated value) and are materialised with real
//! SHA-256 over the real XML.
//!
//! For every step the real `rrdp::Collector` is driven through one fresh `Run::load_repository` (hook
//! `Config::verif_rrdp_updater`, src/collector/rrdp/base.rs: exposure only) in a fresh cache directory per
//! case; observed: the LoadResult (or RunFailed), the snapshot reason of the run's metrics, the requests the
//! server received (in order), the archive read back after the run through the public `RrdpArchive` API
//! (session, serial, stored delta hashes, every object) and, for `Updated`, the objects as the returned
//! `ReadRepository` hands them out.
use std::collections::{BTreeMap, HashMap};
use std::str::FromStr;
use std::sync::atomic::{AtomicU64, Ordering};
use std::sync::Arc;
use std::time::Duration;
use routinator::collector::RrdpArchive;
use routinator::config::Config;
use rpki::uri;
use rv_harness::rrdpsrv::{self, Canned, Server};
use rv_harness::util::*;
use serde_json::{json, Value};

//------------ materialisation ------------------------------------------------------------------------------

const NS: &str = "http://www.ripe.net/rpki/rrdp";
const NURI: u64 = 3;

fn session_uuid(s: u64) -> String { format!("{:08x}-1111-4222-8333-{:012x}", 0xc25c_0000u32 as u64 + (s & 0xffff), s) }
fn obj_uri(u: u64) -> String { format!("rsync://rv.example/repo/u{}.cer", u) }
fn obj_data(d: u64) -> Vec<u8> { format!("content-{}-of-the-c25-universe", d).into_bytes() }
fn sha256(b: &[u8]) -> Vec<u8> { ring::digest::digest(&ring::digest::SHA256, b).as_ref().to_vec() }

fn base64(data: &[u8]) -> String {
    const T: &[u8; 64] = b"ABCDEFGHIJKLMNOPQRSTUVWXYZabcdefghijklmnopqrstuvwxyz0123456789+/";
    let mut s = String::new();
    for c in data.chunks(3) {
        let b = [c[0], *c.get(1).unwrap_or(&0), *c.get(2).unwrap_or(&0)];
        let n = ((b[0] as u32) << 16) | ((b[1] as u32) << 8) | b[2] as u32;
        s.push(T[(n >> 18) as usize & 63] as char);
        s.push(T[(n >> 12) as usize & 63] as char);
        s.push(if c.len() > 1 { T[(n >> 6) as usize & 63] as char } else { '=' });
        s.push(if c.len() > 2 { T[n as usize & 63] as char } else { '=' });
    }
    s
}

/// The XML of a snapshot or delta document.  `broken`: after the listed elements comes an element the
/// schema does not know, so processing fails right after them.
fn doc_xml(doc: &Value) -> Vec<u8> {
    let snap = doc["t"] == "s";
    let root = if snap { "snapshot" } else { "delta" };
    let mut s = format!("<{} xmlns=\"{}\" version=\"1\" session_id=\"{}\" serial=\"{}\">\n",
        root, NS, session_uuid(doc["session"].as_u64().unwrap()), doc["serial"].as_u64().unwrap());
    for e in doc["els"].as_array().unwrap() {
        if snap {
            s.push_str(&format!("<publish uri=\"{}\">{}</publish>\n", obj_uri(e[0].as_u64().unwrap()),
                base64(&obj_data(e[1].as_u64().unwrap()))));
        }
        else {
            let u = obj_uri(e[1].as_u64().unwrap());
            match e[0].as_str().unwrap() {
                "p" => s.push_str(&format!("<publish uri=\"{}\">{}</publish>\n", u, base64(&obj_data(e[2].as_u64().unwrap())))),
                "u" => s.push_str(&format!("<publish uri=\"{}\" hash=\"{}\">{}</publish>\n", u,
                    hex(&sha256(&obj_data(e[2].as_u64().unwrap()))), base64(&obj_data(e[3].as_u64().unwrap())))),
                "w" => s.push_str(&format!("<withdraw uri=\"{}\" hash=\"{}\"/>\n", u, hex(&sha256(&obj_data(e[2].as_u64().unwrap()))))),
                x => panic!("element kind {}", x),
            }
        }
    }
    if doc["broken"].as_bool().unwrap_or(false) { s.push_str("<mangled/>\n"); }
    s.push_str(&format!("</{}>\n", root));
    s.into_bytes()
}

struct Interner { map: HashMap<Vec<u8>, u64> }
impl Interner {
    fn id(&mut self, h: &[u8]) -> u64 { let n = self.map.len() as u64 + 1; *self.map.entry(h.to_vec()).or_insert(n) }
}

fn file_of<'a>(step: &'a Value, r: u64) -> Option<&'a Value> {
    step["files"].as_array().unwrap().iter().find(|f| f["ref"].as_u64() == Some(r))
}

fn resolve_dig(step: &Value, dig: &Value) -> Vec<u8> {
    if let Some(r) = dig.get("ref").and_then(|r| r.as_u64()) {
        match file_of(step, r) { Some(f) => sha256(&doc_xml(&f["doc"])), None => sha256(format!("no file {}", r).as_bytes()) }
    }
    else if let Some(d) = dig.get("doc") { sha256(&doc_xml(d)) }
    else { sha256(format!("bogus {}", dig["bogus"].as_u64().unwrap_or(0)).as_bytes()) }
}

//------------ Coq printers ----------------------------------------------------------------------------------

fn coq_pairs(v: &Value) -> String {
    coq_list(v.as_array().unwrap().iter(), |e| format!("({}, {})", e[0].as_u64().unwrap(), e[1].as_u64().unwrap()))
}

fn coq_doc(doc: &Value) -> String {
    let (s, n, b) = (doc["session"].as_u64().unwrap(), doc["serial"].as_u64().unwrap(), doc["broken"].as_bool().unwrap_or(false));
    if doc["t"] == "s" {
        format!("(DSnap {} {} {} {})", s, n, coq_pairs(&doc["els"]), coq_bool(b))
    }
    else {
        let els = coq_list(doc["els"].as_array().unwrap().iter(), |e| match e[0].as_str().unwrap() {
            "p" => format!("EPub {} {}", e[1].as_u64().unwrap(), e[2].as_u64().unwrap()),
            "u" => format!("EUpd {} {} {}", e[1].as_u64().unwrap(), e[2].as_u64().unwrap(), e[3].as_u64().unwrap()),
            _ => format!("EWdr {} {}", e[1].as_u64().unwrap(), e[2].as_u64().unwrap()),
        });
        format!("(DDelta {} {} {} {})", s, n, els, coq_bool(b))
    }
}

//------------ running one case ------------------------------------------------------------------------------

struct Env { srv: Server, seq: AtomicU64 }

const REASONS: &[&str] = &["", "new-repository", "new-session", "inconsistent-delta-set", "large-delta-set", "delta-mutation",
    "large-serial", "outdate-local", "conflicting-delta", "too-many-deltas", "corrupt-local-copy"];

fn run(input: &Value, env: &Env) -> CaseOut {
    let id = env.seq.fetch_add(1, Ordering::SeqCst);
    let prefix = format!("/c{}/", id);
    let cfg = &input["cfg"];
    let max_list = cfg["max_list"].as_u64().unwrap();
    let max_count = cfg["max_count"].as_u64().unwrap();
    let expire = cfg["expire"].as_bool().unwrap();

    let dir = tempfile::tempdir().unwrap();
    let mut config = Config::default_with_paths(Default::default(), dir.path().join("cache"));
    config.rrdp_root_certs = vec![rrdpsrv::ca_cert_path()];
    config.allow_dubious_hosts = true;
    config.rrdp_timeout = Some(Duration::from_secs(60));
    config.rrdp_max_delta_list_len = max_list as usize;
    config.rrdp_max_delta_count = max_count as usize;
    if expire {
        // best-before = now + [0, 1ns): every copy is expired by the time of the next run
        config.refresh = Duration::ZERO;
        config.rrdp_fallback_time = Duration::from_nanos(1);
    }
    let mut updater = config.verif_rrdp_updater().expect("RRDP collector");
    let notify_path = format!("{}notification.xml", prefix);
    let notify_uri = uri::Https::from_str(&env.srv.uri(&notify_path)).unwrap();
    let probes: Vec<uri::Rsync> = (0..NURI).map(|u| uri::Rsync::from_str(&obj_uri(u)).unwrap()).collect();
    let data_id = |b: &[u8]| -> u64 { (0..8).find(|d| obj_data(*d) == b).unwrap_or(99) };
    let uri_id = |u: &str| -> u64 { (0..16).find(|i| obj_uri(*i) == u).unwrap_or(99) };
    let session_id = |s: &str| -> u64 { (0..64).find(|i| session_uuid(*i) == s).unwrap_or(99) };

    let mut intern = Interner { map: HashMap::new() };
    let mut coq_steps = Vec::new();
    let mut coq_obs = Vec::new();
    let mut obs_json = Vec::new();
    let mut any_updated_by_delta = false;

    for step in input["steps"].as_array().unwrap() {
        env.srv.clear_prefix(&prefix);
        // files
        let mut coq_files = Vec::new();
        for f in step["files"].as_array().unwrap() {
            let r = f["ref"].as_u64().unwrap();
            let status = f["status"].as_u64().unwrap_or(200) as u16;
            let body = doc_xml(&f["doc"]);
            let dig = intern.id(&sha256(&body));
            env.srv.set(&format!("{}f{}.xml", prefix, r), if status == 200 { Canned::ok(body) } else { Canned::status(status) });
            coq_files.push(format!("{{| f_ref := {}; f_ok := {}; f_doc := {}; f_dig := {} |}}", r, coq_bool(status == 200), coq_doc(&f["doc"]), dig));
        }
        // notification
        let n = &step["notify"];
        let coq_notify = match n["k"].as_str().unwrap() {
            "err" => { env.srv.set(&notify_path, Canned::status(n["status"].as_u64().unwrap_or(500) as u16)); "NErr".to_string() }
            "304" => { env.srv.set(&notify_path, Canned::status(304)); "N304".to_string() }
            "missing" => { "NErr".to_string() }
            k => {
                let snap_dig = resolve_dig(step, &n["snap"]["dig"]);
                let authority = if k == "bad" && n["how"] == "origin" { "other.example".to_string() } else { env.srv.authority() };
                let mut xml = format!("<notification xmlns=\"{}\" version=\"1\" session_id=\"{}\" serial=\"{}\">\n", NS,
                    session_uuid(n["session"].as_u64().unwrap()), n["serial"].as_u64().unwrap());
                xml.push_str(&format!("<snapshot uri=\"https://{}{}f{}.xml\" hash=\"{}\"/>\n", authority, prefix,
                    n["snap"]["ref"].as_u64().unwrap(), hex(&snap_dig)));
                let mut coq_deltas = Vec::new();
                for d in n["deltas"].as_array().unwrap() {
                    let dd = resolve_dig(step, &d["dig"]);
                    xml.push_str(&format!("<delta serial=\"{}\" uri=\"https://{}{}f{}.xml\" hash=\"{}\"/>\n",
                        d["serial"].as_u64().unwrap(), env.srv.authority(), prefix, d["ref"].as_u64().unwrap(), hex(&dd)));
                    coq_deltas.push(format!("{{| di_serial := {}; di_ref := {}; di_dig := {} |}}",
                        d["serial"].as_u64().unwrap(), d["ref"].as_u64().unwrap(), intern.id(&dd)));
                }
                xml.push_str("</notification>\n");
                let mut body = xml.into_bytes();
                let canned = if k == "bad" {
                    match n["how"].as_str().unwrap_or("xml") {
                        "origin" => Canned::ok(body),
                        "trunc" => { let keep = body.len() / 2; Canned::truncated(body, keep) }
                        "cut" => { body.truncate(body.len() - 10); Canned::ok(body) }
                        _ => Canned::ok(b"<notification this is not xml".to_vec()),
                    }
                } else { Canned::ok(body) };
                env.srv.set(&notify_path, canned);
                if k == "bad" { "NBad".to_string() } else {
                    format!("(NOk {{| nf_session := {}; nf_serial := {}; nf_snap_ref := {}; nf_snap_dig := {}; nf_deltas := {} |}})",
                        n["session"].as_u64().unwrap(), n["serial"].as_u64().unwrap(), n["snap"]["ref"].as_u64().unwrap(),
                        intern.id(&snap_dig), coq_list(coq_deltas.iter(), |s| s.clone()))
                }
            }
        };
        coq_steps.push(format!("{{| s_notify := {}; s_files := {} |}}", coq_notify, coq_list(coq_files.iter(), |s| s.clone())));

        // one validation run
        let _ = env.srv.take_log(&prefix);
        let res = std::panic::catch_unwind(std::panic::AssertUnwindSafe(|| updater(&notify_uri, &probes)));
        let (result, reason, objects, path) = match res { Ok(r) => r, Err(_) => (6, None, Vec::new(), None) };
        let reqs: Vec<u64> = env.srv.take_log(&prefix).iter().map(|r| {
            let name = &r.path[prefix.len()..];
            if name == "notification.xml" { 0 }
            else { name.strip_prefix('f').and_then(|s| s.strip_suffix(".xml")).and_then(|s| s.parse().ok()).unwrap_or(9999) }
        }).collect();
        let reason_id = reason.map(|r| REASONS.iter().position(|x| *x == r).unwrap_or(99) as u64).unwrap_or(0);

        // read the archive back
        let mut local: Option<(u64, u64, Vec<(u64, u64)>, BTreeMap<u64, u64>)> = None;
        let mut readable = true;
        if let Some(path) = path.as_ref() {
            if path.exists() {
                match RrdpArchive::open(Arc::new(path.clone())) {
                    Ok(archive) => {
                        match archive.load_state() {
                            Ok(state) => {
                                let mut ds: Vec<(u64, u64)> = state.delta_state.iter().map(|(k, v)| (*k, intern.id(v.as_ref()))).collect();
                                ds.sort();
                                let mut content = BTreeMap::new();
                                match archive.objects() {
                                    Ok(iter) => for item in iter {
                                        match item { Ok((u, b)) => { content.insert(uri_id(u.as_str()), data_id(&b)); } Err(_) => readable = false }
                                    },
                                    Err(_) => readable = false,
                                }
                                local = Some((session_id(&state.session.to_string()), state.serial, ds, content));
                            }
                            Err(_) => readable = false,
                        }
                    }
                    Err(_) => readable = false,
                }
            }
        }
        // what the run's own reader hands out must be what is in the archive
        let probe_ok = readable && (result != 3 || match &local {
            Some((_, _, _, content)) => objects.len() == NURI as usize && (0..NURI).all(|u| {
                objects[u as usize].as_ref().map(|b| data_id(b)) == content.get(&u).copied()
            }) && content.keys().all(|u| *u < NURI),
            None => false,
        });
        if result == 3 && reason_id == 0 && reqs.len() > 1 { any_updated_by_delta = true; }
        let coq_local = match &local {
            None => "None".to_string(),
            Some((s, n, ds, c)) => format!("(Some {{| l_session := {}; l_serial := {}; l_dstate := {}; l_content := {} |}})", s, n,
                coq_list(ds.iter(), |(a, b)| format!("({}, {})", a, b)), coq_list(c.iter(), |(a, b)| format!("({}, {})", a, b))),
        };
        coq_obs.push(format!("{{| o_result := {}; o_reason := {}; o_reqs := {}; o_local := {}; o_probe_ok := {} |}}",
            result, reason_id, coq_nlist(reqs.iter()), coq_local, coq_bool(probe_ok)));
        let result_name = ["unavailable", "stale", "current", "updated", "run-failed-retry", "run-failed-fatal", "panic"][result as usize];
        obs_json.push(json!({
            "result": result_name,
            "snapshot_reason": reason, "requests": reqs, "probe_ok": probe_ok,
            "local": local.as_ref().map(|(s, n, ds, c)| json!({"session": s, "serial": n, "delta_state": ds,
                "content": c.iter().map(|(a, b)| json!([a, b])).collect::<Vec<_>>()})),
        }));
    }
    env.srv.clear_prefix(&prefix);

    let world = coq_list(input["world"].as_array().unwrap().iter(), |w| {
        format!("({}, {}, {})", w[0].as_u64().unwrap(), w[1].as_u64().unwrap(), coq_pairs(&w[2]))
    });
    let coq = format!("{{| c_cfg := {{| c_max_list := {}; c_max_count := {}; c_expire := {} |}}; c_world := {}; c_steps := {}; c_impl := {} |}}",
        max_list, max_count, coq_bool(expire), world, coq_list(coq_steps.iter(), |s| s.clone()), coq_list(coq_obs.iter(), |s| s.clone()));
    CaseOut { obs: json!(obs_json), coq, nontrivial: any_updated_by_delta }
}

//------------ generators ------------------------------------------------------------------------------------

type Content = BTreeMap<u64, u64>;

fn content_json(c: &Content) -> Value { json!(c.iter().map(|(u, d)| json!([u, d])).collect::<Vec<_>>()) }

/// The genuine delta between two contents (elements in URI order).
fn diff(a: &Content, b: &Content) -> Vec<Value> {
    let mut els = Vec::new();
    for u in 0..NURI {
        match (a.get(&u), b.get(&u)) {
            (None, Some(d)) => els.push(json!(["p", u, d])),
            (Some(o), Some(d)) if o != d => els.push(json!(["u", u, o, d])),
            (Some(o), None) => els.push(json!(["w", u, o])),
            _ => {}
        }
    }
    els
}

/// A linear history of one session: `first` serial and the contents of the successive versions.
#[derive(Clone)]
struct Hist { session: u64, first: u64, versions: Vec<Content> }

impl Hist {
    fn serial(&self, i: usize) -> u64 { self.first + i as u64 }
    fn snap_doc(&self, i: usize) -> Value {
        json!({"t": "s", "session": self.session, "serial": self.serial(i),
               "els": self.versions[i].iter().map(|(u, d)| json!([u, d])).collect::<Vec<_>>(), "broken": false})
    }
    /// The genuine delta leading to version i (i >= 1).
    fn delta_doc(&self, i: usize) -> Value {
        json!({"t": "d", "session": self.session, "serial": self.serial(i), "els": diff(&self.versions[i - 1], &self.versions[i]), "broken": false})
    }
    fn world(&self) -> Vec<Value> {
        (0..self.versions.len()).map(|i| json!([self.session, self.serial(i), content_json(&self.versions[i])])).collect()
    }
    /// What an honest server at version i serves: snapshot under ref 1, delta j under ref 10 + j, the last
    /// `window` deltas listed.
    fn honest_step(&self, i: usize, window: usize) -> Value {
        let lo = if i > window { i - window + 1 } else { 1 };
        let mut files = vec![json!({"ref": 1, "status": 200, "doc": self.snap_doc(i)})];
        let mut deltas = Vec::new();
        for j in lo..=i {
            if j == 0 { continue }
            files.push(json!({"ref": 10 + j as u64, "status": 200, "doc": self.delta_doc(j)}));
            deltas.push(json!({"serial": self.serial(j), "ref": 10 + j as u64, "dig": {"ref": 10 + j as u64}}));
        }
        json!({"notify": {"k": "ok", "session": self.session, "serial": self.serial(i), "snap": {"ref": 1, "dig": {"ref": 1}}, "deltas": deltas},
               "files": files})
    }
}

fn content_of(pairs: &[(u64, u64)]) -> Content { pairs.iter().cloned().collect() }

fn case(cfg: (u64, u64, bool), hists: &[&Hist], steps: Vec<Value>) -> Value {
    let world: Vec<Value> = hists.iter().flat_map(|h| h.world()).collect();
    json!({"cfg": {"max_list": cfg.0, "max_count": cfg.1, "expire": cfg.2}, "world": world, "steps": steps})
}

fn gen(_rng: &mut Rng, _tier: &str) -> Vec<(String, Value)> {
    let mut cases = Vec::new();
    let h = Hist { session: 1, first: 5, versions: vec![
        content_of(&[(0, 0)]), content_of(&[(0, 0), (1, 0)]), content_of(&[(0, 1), (1, 0)]), content_of(&[(0, 1), (1, 0), (2, 0)]),
    ] };
    // honest walk
    cases.push(("probe.honest".to_string(), case((10, 10, false), &[&h], vec![h.honest_step(0, 5), h.honest_step(1, 5), h.honest_step(3, 5), h.honest_step(3, 5)])));
    // F17: gapped list
    let mut s = h.honest_step(3, 5);
    s["notify"]["deltas"].as_array_mut().unwrap().remove(1);
    cases.push(("probe.gap".to_string(), case((10, 10, false), &[&h], vec![h.honest_step(0, 5), s])));
    // F16: 304 without copy
    cases.push(("probe.304_nocopy".to_string(), case((10, 10, false), &[&h], vec![json!({"notify": {"k": "304"}, "files": []}), h.honest_step(0, 5)])));
    // F20: mutated delta file, snapshot fails, then honest
    let mut s = h.honest_step(1, 5);
    s["files"][1]["doc"]["els"] = json!([["p", 2, 0]]);
    s["notify"]["deltas"][0]["dig"] = json!({"doc": h.delta_doc(1)});
    s["files"][0]["status"] = json!(500);
    cases.push(("probe.partial".to_string(), case((10, 10, false), &[&h], vec![h.honest_step(0, 5), s, h.honest_step(1, 5)])));
    cases
}

fn main() {
    let env = Env { srv: Server::start(), seq: AtomicU64::new(0) };
    let threads = std::env::var("C25_THREADS").ok().and_then(|s| s.parse().ok()).unwrap_or(12);
    drive_par(gen, |i| run(i, &env), threads);
}
