//! C29: RRDP-to-rsync fallback vs the Coq model (coq/C29).
//!
//! Stream `table` (default): the real `collector::Run::repository` (public API) is run for every point of
//!   policy {never, stale, new} x RRDP outcome {unavailable, stale, current, updated} x RRDP on/off x rsync on/off
//!   x CA with/without rpkiNotify (96 points, EXHAUSTIVE). The RRDP outcome is injected at the place where
//!   `Run::repository` obtains it (cfg hook `verif_forced_outcome` in src/collector/base.rs, add-only; the real
//!   `rrdp::Run::load_repository` still runs first — the CA's rpkiNotify host is `localhost`, which the dubious
//!   host filter rejects without any network access). rsync is a logging fake command. The CA certificates are
//!   real self-signed RPKI CA certificates built with the rpki crate (ring RSA signer, fixture key) and validated
//!   with `Cert::validate_ta`.
//! Stream `classify` (C29_STREAM=classify): the real `rrdp::Run::load_repository` / `RepositoryUpdate::try_update`
//!   classification end to end through `Run::repository`, no forced outcome: a local HTTPS server answers the
//!   notification request with 304 or 404 and the cache holds no / an expired / a current archive.
use std::str::FromStr;
use std::sync::Arc;
use bytes::Bytes;
use routinator::collector::Collector;
use routinator::config::{Config, FallbackPolicy};
use routinator::engine::CaCert;
use routinator::metrics::Metrics;
use rpki::crypto::signer::{KeyError, Signer, SigningAlgorithm, SigningError};
use rpki::crypto::{PublicKey, PublicKeyFormat, Signature, SignatureAlgorithm};
use rpki::repository::cert::{Cert, KeyUsage, Overclaim, TbsCert};
use rpki::repository::resources::{Asn, Prefix};
use rpki::repository::tal::{TalInfo, TalUri};
use rpki::repository::x509::Validity;
use rpki::uri;
use rv_harness::util::*;
use serde_json::{json, Value};

#[path = "../tlssrv.rs"]
mod tlssrv;

//------------ a ring-based signer over the fixture RSA key ------------------------------------------------------

struct FixSigner { key: ring::signature::RsaKeyPair, public: PublicKey }

impl FixSigner {
    fn new() -> Self {
        let key = ring::signature::RsaKeyPair::from_der(include_bytes!("../../fixtures/rsa-key.private.der")).expect("rsa key");
        let public = PublicKey::decode(&include_bytes!("../../fixtures/rsa-key.public.der")[..]).expect("public key");
        FixSigner { key, public }
    }
}

impl Signer for FixSigner {
    type KeyId = ();
    type Error = String;
    fn create_key(&self, _: PublicKeyFormat) -> Result<(), String> { Ok(()) }
    fn get_key_info(&self, _: &()) -> Result<PublicKey, KeyError<String>> { Ok(self.public.clone()) }
    fn destroy_key(&self, _: &()) -> Result<(), KeyError<String>> { Ok(()) }
    fn sign<Alg: SignatureAlgorithm, D: AsRef<[u8]> + ?Sized>(&self, _: &(), alg: Alg, data: &D)
        -> Result<Signature<Alg>, SigningError<String>> {
        if !matches!(alg.signing_algorithm(), SigningAlgorithm::RsaSha256) { return Err(SigningError::IncompatibleKey) }
        let mut sig = vec![0; self.key.public().modulus_len()];
        self.key.sign(&ring::signature::RSA_PKCS1_SHA256, &ring::rand::SystemRandom::new(), data.as_ref(), &mut sig)
            .map_err(|_| SigningError::Signer("ring".to_string()))?;
        Ok(Signature::new(alg, Bytes::from(sig)))
    }
    fn sign_one_off<Alg: SignatureAlgorithm, D: AsRef<[u8]> + ?Sized>(&self, alg: Alg, data: &D)
        -> Result<(Signature<Alg>, PublicKey), String> {
        self.sign(&(), alg, data).map(|s| (s, self.public.clone())).map_err(|e| e.to_string())
    }
    fn rand(&self, target: &mut [u8]) -> Result<(), String> { for b in target { *b = 7 } Ok(()) }
}

const CA_REPO: &str = "rsync://rsync.c29.example/repo/";
const CA_MODULE: &str = "rsync://rsync.c29.example/repo/";

/// A validated self-signed CA certificate with the given rpkiNotify URI.
fn ca_cert(signer: &FixSigner, notify: Option<&str>) -> Arc<CaCert> {
    let pubkey = signer.public.clone();
    let mut cert = TbsCert::new(12u64.into(), pubkey.to_subject_name(), Validity::from_secs(86400), None, pubkey,
                                KeyUsage::Ca, Overclaim::Trim);
    cert.set_basic_ca(Some(true));
    cert.set_ca_repository(Some(uri::Rsync::from_str(CA_REPO).unwrap()));
    cert.set_rpki_manifest(Some(uri::Rsync::from_str(&format!("{}ca.mft", CA_REPO)).unwrap()));
    cert.set_rpki_notify(notify.map(|n| uri::Https::from_str(n).unwrap()));
    cert.build_v4_resource_blocks(|b| b.push(Prefix::new(0, 0)));
    cert.build_v6_resource_blocks(|b| b.push(Prefix::new(0, 0)));
    cert.build_as_resource_blocks(|b| b.push((Asn::MIN, Asn::MAX)));
    let der = cert.into_cert(signer, &()).expect("sign").to_captured();
    let cert = Cert::decode(der.as_slice()).expect("decode");
    let rc = cert.validate_ta(TalInfo::from_name("c29".into()).into_arc(), true).expect("validate_ta");
    let ca = CaCert::root(rc, TalUri::Rsync(uri::Rsync::from_str(&format!("{}ta.cer", CA_REPO)).unwrap()), 0).expect("cacert");
    assert_eq!(ca.rpki_notify().map(|u| u.as_str().to_string()), notify.map(|s| s.to_string()));
    ca
}

const POLICIES: [&str; 3] = ["never", "stale", "new"];
const OUTCOMES: [&str; 4] = ["unavailable", "stale", "current", "updated"];

fn policy_of(s: &str) -> FallbackPolicy { FallbackPolicy::from_str(s).expect("policy") }
fn coq_policy(s: &str) -> &'static str { match s { "never" => "Never", "stale" => "Stale", _ => "New" } }
fn coq_outcome(s: &str) -> &'static str {
    match s { "unavailable" => "Unavailable", "stale" => "OStale", "current" => "Current", _ => "Updated" }
}
fn coq_transport(s: &str) -> &'static str {
    match s { "rrdp" => "TRrdp", "rsync" => "TRsync", "none" => "TNone", _ => "TError" }
}

//------------ the fake rsync command ----------------------------------------------------------------------------

struct FakeRsync { log: std::path::PathBuf, script: std::path::PathBuf }

fn fake_rsync(dir: &std::path::Path) -> FakeRsync {
    let log = dir.join("rsync.log");
    let script = dir.join("fake-rsync.sh");
    std::fs::write(&script, format!(
        "#!/bin/sh\nif [ \"$1\" = \"-h\" ]; then echo 'fake rsync'; exit 0; fi\n\
         {{ for a in \"$@\"; do printf '%s\\n' \"$a\"; done; printf -- '----\\n'; }} >> '{}'\nexit 0\n", log.display())).unwrap();
    use std::os::unix::fs::PermissionsExt;
    std::fs::set_permissions(&script, std::fs::Permissions::from_mode(0o755)).unwrap();
    FakeRsync { log, script }
}

impl FakeRsync {
    /// The sources of all invocations so far.
    fn sources(&self) -> Vec<String> {
        let txt = std::fs::read_to_string(&self.log).unwrap_or_default();
        let mut res = Vec::new();
        let mut cur: Vec<String> = Vec::new();
        for l in txt.lines() {
            if l == "----" { res.push(cur.get(cur.len().wrapping_sub(2)).cloned().unwrap_or_default()); cur.clear(); }
            else { cur.push(l.to_string()); }
        }
        res
    }
}

//------------ stream `table` ------------------------------------------------------------------------------------

fn gen_table(rng: &mut Rng, tier: &str) -> Vec<(String, Value)> {
    let mut cases = Vec::new();
    // the whole domain
    for p in POLICIES { for o in OUTCOMES { for rrdp in [false, true] { for rsync in [false, true] { for notify in [false, true] {
        cases.push(("exhaustive".to_string(), json!({"policy": p, "outcome": o, "rrdp": rrdp, "rsync": rsync, "notify": notify})));
    }}}}}
    // the same points again in random order (fresh collector each; shows the result does not depend on order)
    let n = if tier == "thorough" { 400 } else { 60 };
    for _ in 0..n {
        cases.push(("random.repeat".to_string(), json!({
            "policy": *rng.pick(&POLICIES), "outcome": *rng.pick(&OUTCOMES),
            "rrdp": rng.chance(1, 2), "rsync": rng.chance(1, 2), "notify": rng.chance(3, 4)})));
    }
    cases
}

struct Setup { signer: FixSigner, ca_notify: Arc<CaCert>, ca_plain: Arc<CaCert> }

fn run_table(input: &Value, s: &Setup) -> CaseOut {
    let policy = input["policy"].as_str().unwrap();
    let outcome = input["outcome"].as_str().unwrap();
    let (rrdp, rsync, notify) = (input["rrdp"].as_bool().unwrap(), input["rsync"].as_bool().unwrap(), input["notify"].as_bool().unwrap());
    let dir = tempfile::tempdir().unwrap();
    let fake = fake_rsync(dir.path());
    let mut config = Config::default_with_paths(Default::default(), dir.path().join("cache"));
    config.rsync_command = fake.script.display().to_string();
    config.disable_rrdp = !rrdp;
    config.disable_rsync = !rsync;
    config.rrdp_fallback = policy_of(policy);
    config.allow_dubious_hosts = false;
    let mut collector = Collector::new(&config).expect("collector");
    collector.ignite().expect("ignite");
    let run = collector.start();
    let ca = if notify { &s.ca_notify } else { &s.ca_plain };
    let code = OUTCOMES.iter().position(|o| *o == outcome).unwrap() as u64;
    let uses = Config::verif_rrdp_outcome_uses();
    Config::verif_set_rrdp_outcome(Some(code as u8));
    let res = std::panic::catch_unwind(std::panic::AssertUnwindSafe(|| {
        match run.repository(ca) {
            Ok(None) => "none",
            Ok(Some(r)) => if r.is_rrdp() { "rrdp" } else { "rsync" },
            Err(_) => "error",
        }
    })).unwrap_or("panic");
    // was the forced outcome consumed, i.e. did Run::repository ask the RRDP collector?
    let consumed = Config::verif_rrdp_outcome_uses() == uses + 1;
    let consumed_ok = Config::verif_rrdp_outcome_uses() <= uses + 1;
    Config::verif_set_rrdp_outcome(None);
    let sources = fake.sources();
    let rsync_run = !sources.is_empty();
    let rsync_ok = sources.len() <= 1 && sources.iter().all(|m| m == CA_MODULE);
    let mut metrics = Metrics::default();
    run.done(&mut metrics);
    let rrdp_asked = !metrics.rrdp.is_empty();
    let side_ok = rsync_ok && consumed_ok && metrics.rsync.len() == sources.len() && rrdp_asked == consumed;
    let obs = json!({"transport": res, "rsync_command_run": rsync_run, "rsync_sources": sources,
                     "rrdp_collector_asked": rrdp_asked, "forced_outcome_consumed": consumed, "side_ok": side_ok});
    let coq = format!(
        "{{| c_pol := {}; c_rrdp := {}; c_rsync := {}; c_notify := {}; c_out := {}; \
         c_impl := {{| o_transport := {}; o_rsync_run := {}; o_rrdp_asked := {} |}} |}}",
        coq_policy(policy), coq_bool(rrdp), coq_bool(rsync), coq_bool(notify), coq_outcome(outcome),
        if side_ok { coq_transport(res) } else { "TError" }, coq_bool(rsync_run), coq_bool(rrdp_asked));
    let _ = &s.signer;
    CaseOut { obs, coq, nontrivial: notify && rrdp }
}

//------------ stream `classify` ---------------------------------------------------------------------------------

const COPIES: [&str; 3] = ["none", "expired", "current"];
const SERVERS: [&str; 3] = ["not_modified", "not_found", "garbage"];

fn gen_classify(rng: &mut Rng, tier: &str) -> Vec<(String, Value)> {
    let mut cases = Vec::new();
    for p in POLICIES { for c in COPIES { for sv in SERVERS { for rsync in [false, true] {
        // age of the best-before time relative to now, in seconds (negative = expired)
        // a 304 answer although no local copy exists (no conditional request was sent) is a server fault that
        // belongs to C25 (the run fails); not part of this property's domain
        if c == "none" && sv == "not_modified" { continue }
        let delta: i64 = match c { "expired" => -3600, "current" => 3600, _ => 0 };
        cases.push(("exhaustive".to_string(), json!({"policy": p, "copy": c, "delta": delta, "server": sv, "rsync": rsync})));
    }}}}
    let n = if tier == "thorough" { 120 } else { 24 };
    for _ in 0..n {
        let c = *rng.pick(&COPIES);
        let mag = *rng.pick(&[30i64, 90, 86_400, 31_536_000, 3_000_000_000]);
        let delta = match c { "expired" => -mag, "current" => mag, _ => 0 };
        let sv = if c == "none" { *rng.pick(&SERVERS[1..]) } else { *rng.pick(&SERVERS) };
        cases.push(("random.age".to_string(), json!({"policy": *rng.pick(&POLICIES), "copy": c, "delta": delta,
            "server": sv, "rsync": rng.chance(1, 2)})));
    }
    cases
}

fn run_classify(input: &Value, srv: &tlssrv::Server, signer: &FixSigner, seq: &std::cell::Cell<u64>) -> CaseOut {
    let policy = input["policy"].as_str().unwrap();
    let copy = input["copy"].as_str().unwrap();
    let delta = input["delta"].as_i64().unwrap();
    let server = input["server"].as_str().unwrap();
    let rsync = input["rsync"].as_bool().unwrap();
    seq.set(seq.get() + 1);
    let path = format!("/c29/{}/notification.xml", seq.get());
    let notify = format!("https://localhost:{}{}", srv.port, path);
    let ca = ca_cert(signer, Some(&notify));
    let dir = tempfile::tempdir().unwrap();
    let fake = fake_rsync(dir.path());
    let mut config = Config::default_with_paths(Default::default(), dir.path().join("cache"));
    config.rsync_command = fake.script.display().to_string();
    config.disable_rsync = !rsync;
    config.rrdp_fallback = policy_of(policy);
    config.allow_dubious_hosts = true;          // explicit port
    config.rrdp_root_certs = vec![tlssrv::root_cert_path()];
    config.rrdp_timeout = Some(std::time::Duration::from_secs(10));
    // the local copy
    let uri = uri::Https::from_str(&notify).unwrap();
    if copy != "none" {
        let apath = config.verif_rrdp_repository_path(&uri).expect("repository path");
        let now = chrono::Utc::now().timestamp();
        let state = routinator::collector::RrdpArchive::verif_state_new(
            uri.clone(), uuid::Uuid::from_u128(0x1234_5678_9abc_def0_1234_5678_9abc_def0), 7, now - 7200, now + delta,
            None, Some(Bytes::from_static(b"\"c29\"")), Default::default());
        let mut archive = routinator::collector::RrdpArchive::create(Arc::new(apath)).expect("create archive");
        archive.publish_state(&state).expect("publish state");
    }
    srv.set(&path, match server {
        "not_modified" => tlssrv::Canned::status(304),
        "not_found" => tlssrv::Canned::status(404),
        _ => tlssrv::Canned::ok(tlssrv::BodyMode::ContentLength, Arc::new(b"<this is not a notification file/>".to_vec()), 0),
    });
    let before = srv.hits(&path);
    let mut collector = Collector::new(&config).expect("collector");
    collector.ignite().expect("ignite");
    let run = collector.start();
    let res = std::panic::catch_unwind(std::panic::AssertUnwindSafe(|| {
        match run.repository(&ca) {
            Ok(None) => "none",
            Ok(Some(r)) => if r.is_rrdp() { "rrdp" } else { "rsync" },
            Err(_) => "error",
        }
    })).unwrap_or("panic");
    let requested = srv.hits(&path) > before;
    let sources = fake.sources();
    let rsync_run = !sources.is_empty();
    let mut metrics = Metrics::default();
    run.done(&mut metrics);
    let status = metrics.rrdp.first().map(|m| m.notify_status.into_i16());
    let side_ok = requested && sources.len() <= 1 && sources.iter().all(|m| m == CA_MODULE);
    let obs = json!({"transport": res, "rsync_command_run": rsync_run, "notification_requested": requested,
                     "notify_status": status, "side_ok": side_ok});
    let coq = format!(
        "{{| k_pol := {}; k_rsync := {}; k_copy := {}; k_server_ok := {}; k_impl := {{| ko_transport := {}; ko_rsync_run := {} |}} |}}",
        coq_policy(policy), coq_bool(rsync),
        match copy { "none" => "None".to_string(), _ => format!("(Some ({})%Z)", delta) },
        coq_bool(server == "not_modified"),
        if side_ok { coq_transport(res) } else { "TError" }, coq_bool(rsync_run));
    CaseOut { obs, coq, nontrivial: true }
}

fn mark_exhaustive(domain: usize) {
    // the driver has written stats.json; record that the exhaustive class covers the whole domain
    let args = parse_args();
    if args.mode != "gen" { return }
    let p = format!("{}/stats.json", args.out);
    let mut st: Value = serde_json::from_str(&std::fs::read_to_string(&p).unwrap()).unwrap();
    let n = st["classes"]["exhaustive"].as_u64().unwrap_or(0) as usize;
    // distinct inputs of the exhaustive class
    let mut seen = std::collections::HashSet::new();
    for l in std::fs::read_to_string(format!("{}/cases.jsonl", args.out)).unwrap().lines() {
        let v: Value = serde_json::from_str(l).unwrap();
        if v["class"] == "exhaustive" { seen.insert(v["input"].to_string()); }
    }
    st["x_exhaustive"] = json!(n == domain && seen.len() == domain);
    st["x_domain_size"] = json!(domain);
    std::fs::write(&p, serde_json::to_string_pretty(&st).unwrap()).unwrap();
}

fn main() {
    std::env::remove_var("RSYNC_RSH");
    let signer = FixSigner::new();
    if std::env::var("C29_STREAM").as_deref() == Ok("classify") {
        let srv = tlssrv::Server::start();
        let seq = std::cell::Cell::new(0u64);
        drive(gen_classify, |i| run_classify(i, &srv, &signer, &seq));
        mark_exhaustive(POLICIES.len() * (COPIES.len() * SERVERS.len() - 1) * 2);
    } else {
        let ca_notify = ca_cert(&signer, Some("https://localhost/c29/notification.xml"));
        let ca_plain = ca_cert(&signer, None);
        let s = Setup { signer, ca_notify, ca_plain };
        drive(gen_table, |i| run_table(i, &s));
        mark_exhaustive(96);
    }
}
