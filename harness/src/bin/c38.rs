//! C38: the object size limit vs the Coq model (coq/C38).
//!
//! Stream `reader` (default): the real `LimitedDataRead` (cfg hook `Config::verif_limited_read` in
//!   src/collector/rrdp/http.rs, constructor exposure only) over an in-memory reader that follows a read script
//!   (sizes of the successive `read()` results, injected I/O errors, early `Ok(0)`); both ways the code drains it:
//!   `read_all` (snapshot / delta objects) and `io::Read::read_to_end` (`load_ta`). The Coq case carries the sizes the
//!   wrapped reader ACTUALLY returned (std's read_to_end chooses the buffer sizes).
//! Stream `ta` (C38_STREAM=ta): `collector::Collector::start().load_ta(TalUri::Https)` (public API, the real
//!   `rrdp::Run::load_ta`, reqwest client) against a local HTTPS server: with Content-Length, chunked transfer
//!   encoding, or close-delimited body; error status; truncated body.
//! Stream `config` (C38_STREAM=config): `max-object-size` from a config file and/or the command line through the
//!   public clap interface; the resulting `Config::max_object_size`, what `to_toml` prints and the `--max-size`
//!   argument the rsync collector passes to the (fake) rsync command.
use std::cell::RefCell;
use std::collections::HashMap;
use std::io::Read;
use std::rc::Rc;
use std::str::FromStr;
use std::sync::Arc;
use routinator::collector::Collector;
use routinator::config::Config;
use rpki::repository::tal::TalUri;
use rpki::uri;
use rv_harness::util::*;
use serde_json::{json, Value};

#[path = "../tlssrv.rs"]
mod tlssrv;

const DEFAULT: u64 = 20_000_000;

fn pat(i: usize) -> u8 { (i.wrapping_mul(31).wrapping_add(i >> 8).wrapping_add(7)) as u8 }
fn body_of(n: usize) -> Vec<u8> { (0..n).map(pat).collect() }
fn intact(data: &[u8]) -> bool { data.iter().enumerate().all(|(i, b)| *b == pat(i)) }

fn coq_optn(o: Option<u64>) -> String { coq_opt(o.map(|n| n.to_string())) }
fn opt_u64(v: &Value) -> Option<u64> { v.as_u64() }

//------------ stream `reader` -----------------------------------------------------------------------------------

/// Follows a script: n > 0 deliver up to n bytes (split if the buffer is smaller), 0 = Ok(0), -1 = I/O error,
/// -2 = I/O error of kind Interrupted. After the script: EOF.
struct ScriptReader { script: std::collections::VecDeque<i64>, pos: usize, trace: Rc<RefCell<Vec<i64>>> }

impl Read for ScriptReader {
    fn read(&mut self, buf: &mut [u8]) -> std::io::Result<usize> {
        let Some(front) = self.script.front_mut() else { return Ok(0) };
        match *front {
            -1 => { self.script.pop_front(); self.trace.borrow_mut().push(-1); Err(std::io::Error::other("injected")) }
            -2 => { self.script.pop_front(); self.trace.borrow_mut().push(-1);
                    Err(std::io::Error::new(std::io::ErrorKind::Interrupted, "injected")) }
            0 => { self.script.pop_front(); self.trace.borrow_mut().push(0); Ok(0) }
            n => {
                let k = (n as usize).min(buf.len());
                for (i, b) in buf[..k].iter_mut().enumerate() { *b = pat(self.pos + i); }
                self.pos += k;
                if k as i64 == n { self.script.pop_front(); } else { *front = n - k as i64; }
                self.trace.borrow_mut().push(k as i64);
                Ok(k)
            }
        }
    }
}

/// All compositions of n into positive parts.
fn compositions(n: u64) -> Vec<Vec<i64>> {
    if n == 0 { return vec![vec![]] }
    let mut res = Vec::new();
    for first in 1..=n { for mut rest in compositions(n - first) { rest.insert(0, first as i64); res.push(rest); } }
    res
}

fn random_chunking(rng: &mut Rng, n: u64, maxpiece: u64) -> Vec<i64> {
    let mut left = n;
    let mut res = Vec::new();
    while left > 0 { let k = rng.range(1, maxpiece.min(left)); res.push(k as i64); left -= k; }
    res
}

fn gen_reader(rng: &mut Rng, tier: &str) -> Vec<(String, Value)> {
    let mut cases = Vec::new();
    let mut push = |class: &str, limit: Option<u64>, script: Vec<i64>, all: bool| {
        cases.push((class.to_string(), json!({"limit": limit, "script": script, "all": all})));
    };
    // (a) exhaustive small scope: every chunking of every size 0..5 under every limit None, 0..6, both drains
    for n in 0..=5u64 { for comp in compositions(n) {
        for limit in [None, Some(0), Some(1), Some(2), Some(3), Some(4), Some(5), Some(6)] { for all in [false, true] {
            push("exhaustive.size<=5", limit, comp.clone(), all);
        }}
    }}
    // (b) boundary: limit in {None, 1, 100, default} x size in {0, L-1, L, L+1, large} x chunkings
    for limit in [None, Some(1u64), Some(100), Some(DEFAULT)] {
        let l = limit.unwrap_or(DEFAULT);
        let large = if l >= DEFAULT { 30_000_000 } else { 10 * l + 1000 };
        for size in [0, l.saturating_sub(1), l, l + 1, large] { for all in [false, true] {
            let mut chunkings: Vec<Vec<i64>> = vec![vec![size as i64]];
            if size > 1 {
                if size < 1_000_000 || all {
                    chunkings.push(vec![(size - 1) as i64, 1]);
                    chunkings.push(vec![1, (size - 1) as i64]);
                    chunkings.push(vec![(size / 2) as i64, (size - size / 2) as i64]);
                }
                if l < size { chunkings.push(vec![l as i64, (size - l) as i64]); }
                if size <= 2000 { chunkings.push(vec![1; size as usize]); }
                let mp = if size > 100_000 { size / 3 } else { 40 };
                chunkings.push(random_chunking(rng, size, mp.max(1)));
            }
            for c in chunkings { push("boundary.limit_x_size", limit, c.into_iter().filter(|x| *x > 0).collect(), all); }
        }}
    }
    // (c) structured random: small limits, sizes around the limit
    let n = if tier == "thorough" { 4000 } else { 500 };
    for _ in 0..n {
        let l = rng.range(1, 300);
        let limit = if rng.chance(1, 6) { None } else { Some(l) };
        let size = match rng.below(4) { 0 => l, 1 => l + 1, 2 => rng.range(0, l), _ => rng.range(l, 3 * l + 40) };
        let mp = rng.range(1, 64);
        let c = random_chunking(rng, size, mp);
        push("random.around_limit", limit, c, rng.chance(1, 2));
    }
    // (d) malformed: the wrapped reader fails or reports an early end of file somewhere
    let n = if tier == "thorough" { 1500 } else { 250 };
    for _ in 0..n {
        let l = rng.range(1, 200);
        let limit = if rng.chance(1, 5) { None } else { Some(l) };
        let size = rng.range(0, 2 * l + 20);
        let mp = rng.range(1, 50);
        let mut s = random_chunking(rng, size, mp);
        let at = rng.below(s.len() as u64 + 1) as usize;
        s.insert(at, *rng.pick(&[-1i64, -1, -2, 0]));
        push("malformed.reader_fault", limit, s, rng.chance(1, 2));
    }
    cases
}

fn run_reader(input: &Value) -> CaseOut {
    let limit = opt_u64(&input["limit"]);
    let script: Vec<i64> = input["script"].as_array().unwrap().iter().map(|v| v.as_i64().unwrap()).collect();
    let all = input["all"].as_bool().unwrap();
    let trace = Rc::new(RefCell::new(Vec::new()));
    let reader = ScriptReader { script: script.into(), pos: 0, trace: trace.clone() };
    let res = std::panic::catch_unwind(std::panic::AssertUnwindSafe(|| Config::verif_limited_read(reader, limit, all)));
    let (kind, len, ok) = match &res { Ok((k, data)) => (*k, data.len(), intact(data)), Err(_) => (9, 0, false) };
    let trace = trace.borrow();
    let kname = match kind { 0 => "KOk", 1 => "KLarge", 2 => "KRead", _ => "KRead" };
    // outcome 3 (error without stored reason) or a panic have no counterpart in the model: flag through intact
    let ok = ok && kind <= 2;
    let kind_name = *["ok", "large", "read_error", "unexplained_error"].get(kind as usize).unwrap_or(&"panic");
    let obs = json!({"kind": kind_name,
                     "len": len, "intact": ok, "reads": trace.len(),
                     "reads_head": trace.iter().take(12).collect::<Vec<_>>()});
    let coq = format!("{{| rc_limit := {}; rc_reads := {}; rc_all := {}; rc_impl := {{| ro_kind := {}; ro_len := {}; ro_intact := {} |}} |}}",
        coq_optn(limit), coq_list(trace.iter(), |r| if *r < 0 { "Fail".to_string() } else { format!("Data {}", r) }),
        coq_bool(all), kname, len, coq_bool(ok));
    CaseOut { obs, coq, nontrivial: limit.is_some() && trace.len() > 1 }
}

//------------ stream `ta` ---------------------------------------------------------------------------------------

fn gen_ta(rng: &mut Rng, tier: &str) -> Vec<(String, Value)> {
    let mut cases = Vec::new();
    let mut push = |class: &str, limit: Option<u64>, size: u64, mode: &str, piece: u64, fault: u64| {
        cases.push((class.to_string(), json!({"limit": limit, "size": size, "mode": mode, "piece": piece, "fault": fault})));
    };
    // limit x size x header present / absent (two ways) x how the server writes the body
    for limit in [None, Some(1u64), Some(100), Some(DEFAULT)] {
        let l = limit.unwrap_or(DEFAULT);
        let large = if l >= DEFAULT { 30_000_000 } else { 10 * l + 1000 };
        for size in [0, l.saturating_sub(1), l, l + 1, large] {
            for mode in ["length", "chunked", "close"] {
                for piece in [0u64, if size > 100_000 { 65_536 } else { 7 }] {
                    push("boundary.limit_x_size_x_header", limit, size, mode, piece, 0);
                }
            }
        }
    }
    // typical certificate sizes, random limits
    let n = if tier == "thorough" { 600 } else { 80 };
    for _ in 0..n {
        let l = rng.range(1, 4000);
        let limit = match rng.below(6) { 0 => None, 1 => Some(DEFAULT), _ => Some(l) };
        let size = match rng.below(4) { 0 => l, 1 => l + 1, 2 => rng.range(0, l), _ => rng.range(l, 3 * l + 40) };
        push("random.around_limit", limit, size, *rng.pick(&["length", "chunked", "close"]), rng.range(0, 700), 0);
    }
    // malformed: error status; body shorter than the declared length
    let n = if tier == "thorough" { 120 } else { 24 };
    for i in 0..n {
        let l = rng.range(1, 3000);
        let limit = match rng.below(4) { 0 => None, _ => Some(l) };
        let size = rng.range(1, 2 * l);
        push("malformed.server_fault", limit, size, "length", 0, 1 + (i % 2));
    }
    cases
}

struct TaEnv {
    srv: tlssrv::Server,
    dirs: RefCell<Vec<tempfile::TempDir>>,
    collectors: RefCell<HashMap<Option<u64>, &'static Collector>>,
    bodies: RefCell<HashMap<u64, Arc<Vec<u8>>>>,
    seq: std::cell::Cell<u64>,
}

impl TaEnv {
    fn collector(&self, limit: Option<u64>) -> &'static Collector {
        if let Some(c) = self.collectors.borrow().get(&limit) { return c }
        let dir = tempfile::tempdir().unwrap();
        let mut config = Config::default_with_paths(Default::default(), dir.path().join("cache"));
        config.max_object_size = limit;
        config.disable_rsync = true;
        config.rrdp_root_certs = vec![tlssrv::root_cert_path()];
        config.rrdp_timeout = Some(std::time::Duration::from_secs(60));
        let mut collector = Collector::new(&config).expect("collector");
        collector.ignite().expect("ignite");
        let c: &'static Collector = Box::leak(Box::new(collector));
        self.dirs.borrow_mut().push(dir);
        self.collectors.borrow_mut().insert(limit, c);
        c
    }
    fn body(&self, size: u64) -> Arc<Vec<u8>> {
        if size < 1_000_000 { return Arc::new(body_of(size as usize)) }
        self.bodies.borrow_mut().entry(size).or_insert_with(|| Arc::new(body_of(size as usize))).clone()
    }
}

fn run_ta(input: &Value, env: &TaEnv) -> CaseOut {
    let limit = opt_u64(&input["limit"]);
    let size = input["size"].as_u64().unwrap();
    let mode = input["mode"].as_str().unwrap();
    let piece = input["piece"].as_u64().unwrap() as usize;
    let fault = input["fault"].as_u64().unwrap();
    env.seq.set(env.seq.get() + 1);
    let path = format!("/c38/{}/ta.cer", env.seq.get());
    let body = env.body(size);
    let bmode = match mode { "length" => tlssrv::BodyMode::ContentLength, "chunked" => tlssrv::BodyMode::Chunked, _ => tlssrv::BodyMode::Close };
    let mut canned = tlssrv::Canned::ok(bmode, body.clone(), piece);
    let mut header = if bmode == tlssrv::BodyMode::ContentLength { Some(size) } else { None };
    match fault {
        1 => { canned = tlssrv::Canned::status(if size % 2 == 0 { 404 } else { 500 }); header = None; }
        2 => { canned.mode = tlssrv::BodyMode::ContentLength; canned.declare = Some(size + 10); header = Some(size + 10); }
        _ => {}
    }
    env.srv.set(&path, canned);
    let uri = uri::Https::from_str(&env.srv.uri(&path)).unwrap();
    let collector = env.collector(limit);
    let before = env.srv.hits(&path);
    let res = std::panic::catch_unwind(std::panic::AssertUnwindSafe(|| {
        collector.start().load_ta(&TalUri::Https(uri.clone()))
    }));
    let requested = env.srv.hits(&path) == before + 1;
    env.srv.unset(&path);
    let (obs, coq_impl) = match &res {
        Ok(None) => (json!({"result": "refused", "requested": requested}), "None".to_string()),
        Ok(Some(bytes)) => {
            let ok = bytes.len() <= body.len() && bytes[..] == body[..bytes.len()] && requested;
            (json!({"result": "used", "len": bytes.len(), "intact": ok, "requested": requested}),
             format!("(Some ({}, {}))", bytes.len(), coq_bool(ok)))
        }
        Err(_) => (json!({"result": "panic"}), "(Some (0, false))".to_string()),
    };
    // a refusal without any request reaching the server is a harness problem, not a verdict: make it visible
    let coq_impl = if !requested && res.as_ref().map(|r| r.is_none()).unwrap_or(false) { "(Some (0, false))".to_string() } else { coq_impl };
    let coq = format!("{{| tc_limit := {}; tc_cl := {}; tc_size := {}; tc_fault := {}; tc_impl := {} |}}",
        coq_optn(limit), coq_optn(header), size, fault, coq_impl);
    CaseOut { obs, coq, nontrivial: fault == 0 && limit.is_some() }
}

//------------ stream `config` -----------------------------------------------------------------------------------

fn gen_config(rng: &mut Rng, tier: &str) -> Vec<(String, Value)> {
    let mut cases = Vec::new();
    let vals: [Option<u64>; 7] = [None, Some(0), Some(1), Some(100), Some(DEFAULT), Some(DEFAULT + 1), Some(1 << 62)];
    for f in vals { for a in vals { cases.push(("exhaustive.boundary_values".to_string(), json!({"file": f, "arg": a}))); } }
    let n = if tier == "thorough" { 300 } else { 40 };
    for _ in 0..n {
        let mut v = || match rng.below(4) { 0 => None, 1 => Some(0), _ => Some(rng.next() >> rng.range(2, 63)) };
        let (f, a) = (v(), v());
        cases.push(("random.values".to_string(), json!({"file": f, "arg": a})));
    }
    cases
}

fn run_config(input: &Value) -> CaseOut {
    let file = opt_u64(&input["file"]);
    let arg = opt_u64(&input["arg"]);
    let dir = tempfile::tempdir().unwrap();
    std::env::set_var("HOME", dir.path());
    let conf = dir.path().join("routinator.conf");
    let mut txt = format!("repository-dir = \"{}\"\n", dir.path().join("cache").display());
    if let Some(f) = file { txt.push_str(&format!("max-object-size = {}\n", f)); }
    std::fs::write(&conf, txt).unwrap();
    let mut args: Vec<String> = vec!["routinator".into(), "-c".into(), conf.display().to_string()];
    if let Some(a) = arg { args.push("--max-object-size".into()); args.push(a.to_string()); }
    let built = std::panic::catch_unwind(std::panic::AssertUnwindSafe(|| -> Result<Config, String> {
        let cmd = Config::config_args(clap::Command::new("routinator"));
        let matches = cmd.try_get_matches_from(&args).map_err(|e| format!("clap:{:?}", e.kind()))?;
        Config::from_arg_matches(&matches, dir.path()).map_err(|_| "config".to_string())
    }));
    let config = match built {
        Ok(Ok(c)) => c,
        other => {
            let why = match other { Ok(Err(e)) => e, _ => "panic".to_string() };
            let coq = format!("{{| cc_file := {}; cc_arg := {}; cc_impl := {{| co_limit := Some 0; co_rsync := None; co_printed := 0 |}} |}}",
                coq_optn(file), coq_optn(arg));
            return CaseOut { obs: json!({"error": why}), coq, nontrivial: false }
        }
    };
    let limit = config.max_object_size;
    let printed = config.to_toml().get("max-object-size").and_then(|i| i.as_integer());
    // the rsync collector's command line
    let log = dir.path().join("rsync.log");
    let script = dir.path().join("fake-rsync.sh");
    std::fs::write(&script, format!(
        "#!/bin/sh\nif [ \"$1\" = \"-h\" ]; then echo 'fake rsync'; exit 0; fi\n\
         {{ for a in \"$@\"; do printf '%s\\n' \"$a\"; done; }} >> '{}'\nexit 0\n", log.display())).unwrap();
    use std::os::unix::fs::PermissionsExt;
    std::fs::set_permissions(&script, std::fs::Permissions::from_mode(0o755)).unwrap();
    let mut config = config;
    config.rsync_command = script.display().to_string();
    config.disable_rrdp = true;
    let collector = Collector::new(&config).expect("collector");
    let _ = collector.start().load_ta(&TalUri::Rsync(uri::Rsync::from_str("rsync://rsync.c38.example/repo/ta.cer").unwrap()));
    let logged = std::fs::read_to_string(&log).unwrap_or_default();
    let ran = !logged.is_empty();
    let max_sizes: Vec<&str> = logged.lines().filter_map(|l| l.strip_prefix("--max-size=")).collect();
    let rsync_arg = max_sizes.first().and_then(|s| s.parse::<u64>().ok());
    let side_ok = ran && max_sizes.len() <= 1 && (max_sizes.is_empty() || rsync_arg.is_some()) && printed.is_some();
    let obs = json!({"max_object_size": limit, "printed": printed, "rsync_max_size_args": max_sizes, "rsync_ran": ran});
    let coq = format!("{{| cc_file := {}; cc_arg := {}; cc_impl := {{| co_limit := {}; co_rsync := {}; co_printed := {} |}} |}}",
        coq_optn(file), coq_optn(arg), coq_optn(limit), coq_optn(rsync_arg),
        if side_ok { printed.unwrap_or(0).max(0) as u64 } else { 888_888_888_888 });
    CaseOut { obs, coq, nontrivial: file.is_some() || arg.is_some() }
}

fn main() {
    std::env::remove_var("RSYNC_RSH");
    match std::env::var("C38_STREAM").as_deref() {
        Ok("ta") => {
            let env = TaEnv { srv: tlssrv::Server::start(), dirs: Default::default(), collectors: Default::default(),
                              bodies: Default::default(), seq: std::cell::Cell::new(0) };
            drive(gen_ta, |i| run_ta(i, &env))
        }
        Ok("config") => drive(gen_config, run_config),
        _ => drive(gen_reader, run_reader),
    }
}
