//! C07: validation terminates on deep or cyclic CA hierarchies — the real engine on generated
//! repositories (rv_harness::rpkigen) vs. the Coq model (coq/C07).
//!
//! Every case is a small abstract graph (points, CA certificates naming a point and a subject key, TALs),
//! a depth limit and a thread count.  The real objects are built, served through the rsync stand-in and
//! validated by `routinator::engine::Engine` on a fresh cache **in a worker process** (this binary started
//! with C07_WORKER=1) that the parent watches with a wall clock: no answer within C07_TIMEOUT_MS (default
//! 45 s) = "no termination observed" (o_res 1), worker died = o_res 2.  After 4 expiries the remaining cases
//! are not run (o_res 7, never a verdict).
use std::io::{BufRead, BufReader, Write};
use std::process::{Child, ChildStdin, Command, Stdio};
use std::sync::atomic::{AtomicUsize, Ordering};
use std::sync::mpsc::{channel, Receiver, RecvTimeoutError};
use std::sync::Mutex;
use std::time::Duration;
use rv_harness::rpkigen::*;
use rv_harness::util::*;
use serde_json::{json, Value};

//------------ abstract graphs ---------------------------------------------------------------------------

#[derive(Clone, Default)]
struct Pt { key: u64, module: u64, broken: u64, roas: Vec<u64>, certs: Vec<(u64, u64, u64)> /* key, point, bad */ }

#[derive(Clone, Default)]
struct G { points: Vec<Pt>, tals: Vec<(u64, u64)>, next_asn: u64 }

impl G {
    fn new() -> Self { G { points: vec![], tals: vec![], next_asn: 1000 } }
    /// new point with one ROA
    fn point(&mut self, key: u64) -> u64 {
        let asn = self.next_asn; self.next_asn += 1;
        let id = self.points.len() as u64;
        self.points.push(Pt { key, module: id % 2, broken: 0, roas: vec![asn], certs: vec![] });
        id
    }
    /// certificate in `from` for the key of point `to`
    fn cert(&mut self, from: u64, to: u64) { let k = self.points[to as usize].key; self.points[from as usize].certs.push((k, to, 0)); }
    fn cert_key(&mut self, from: u64, to: u64, key: u64) { self.points[from as usize].certs.push((key, to, 0)); }
    fn tal(&mut self, point: u64) { let k = self.points[point as usize].key; self.tals.push((k, point)); }
    fn json(&self, depth: u64, threads: u64) -> Value {
        json!({
            "depth": depth, "threads": threads,
            "tals": self.tals.iter().map(|(k, p)| json!({"key": k, "point": p})).collect::<Vec<_>>(),
            "points": self.points.iter().enumerate().map(|(i, p)| json!({
                "id": i, "key": p.key, "module": p.module, "broken": p.broken, "roas": p.roas,
                "certs": p.certs.iter().map(|(k, t, b)| json!({"key": k, "point": t, "bad": b})).collect::<Vec<_>>(),
            })).collect::<Vec<_>>(),
        })
    }
}

fn chain(n: u64) -> G {
    let mut g = G::new();
    let mut prev = g.point(0);
    g.tal(prev);
    for i in 1..=n { let p = g.point(i); g.cert(prev, p); prev = p; }
    g
}

fn cycle_shapes() -> Vec<(&'static str, G)> {
    let mut v = Vec::new();
    { let mut g = G::new(); let a = g.point(0); g.tal(a); g.cert(a, a); v.push(("self_issued", g)); }
    { let mut g = G::new(); let a = g.point(0); g.tal(a); let b = g.point(0); g.cert(a, b); v.push(("self_key_other_point", g)); }
    { let mut g = G::new(); let a = g.point(0); g.tal(a); let b = g.point(1); g.cert(a, b); g.cert(b, a); v.push(("two_cycle", g)); }
    { let mut g = G::new(); let a = g.point(0); g.tal(a); let b = g.point(1); let c = g.point(2);
      g.cert(a, b); g.cert(b, c); g.cert(c, a); v.push(("three_cycle", g)); }
    { let mut g = G::new(); let a = g.point(0); g.tal(a); let b = g.point(1); let c = g.point(2);
      g.cert(a, b); g.cert(b, c); g.cert(c, b); v.push(("inner_cycle", g)); }
    { let mut g = G::new(); let a = g.point(0); g.tal(a); let b = g.point(1);
      g.cert(a, b); g.cert_key(b, a, 9); v.push(("back_edge_fresh_key", g)); }
    { let mut g = G::new(); let a = g.point(0); g.tal(a); let b = g.point(1); let c = g.point(2); let r = g.point(1);
      g.cert(a, b); g.cert(b, c); g.cert(c, r); v.push(("key_reuse_new_point", g)); }
    { let mut g = G::new(); let a = g.point(0); g.tal(a); let b = g.point(1); let c = g.point(2); let e = g.point(3);
      g.cert(a, b); g.cert(b, a); g.cert(b, c); g.cert(c, e); g.cert(e, b); v.push(("two_cycle_with_tail", g)); }
    v
}

fn shared_shapes() -> Vec<(&'static str, G)> {
    let mut v = Vec::new();
    { let mut g = G::new(); let a = g.point(0); g.tal(a); let b = g.point(1); let c = g.point(2); let d = g.point(3); let e = g.point(4);
      g.cert(a, b); g.cert(a, c); g.cert(b, d); g.cert(c, d); g.cert(d, e); v.push(("diamond", g)); }
    { let mut g = G::new(); let a = g.point(0); g.tal(a); let b = g.point(1); g.tal(b); let s = g.point(2); let x = g.point(3);
      g.cert(a, s); g.cert(b, s); g.cert(s, x); v.push(("two_tals_one_subtree", g)); }
    { let mut g = G::new(); let a = g.point(0); g.tal(a); let b = g.point(1); let c = g.point(2);
      g.cert(a, b); g.cert(a, b); g.cert(b, c); v.push(("two_certs_one_child", g)); }
    v
}

fn random_graph(r: &mut Rng) -> (G, u64, u64) {
    let n = r.range(2, 7);
    let mut g = G::new();
    for i in 0..n {
        let key = if r.chance(1, 5) { r.below(n) } else { i };
        let id = g.point(key);
        let p = &mut g.points[id as usize];
        p.module = r.below(2);
        if r.chance(1, 12) { p.broken = r.range(1, 3); }
        match r.below(4) { 0 => p.roas.clear(), 1 => { let a = g.next_asn; g.next_asn += 1; g.points[id as usize].roas.push(a); } _ => {} }
    }
    let depth = *r.pick(&[0u64, 1, 1, 2, 2, 3, 3, 4, 5]);
    let cert = |g: &mut G, r: &mut Rng, from: u64, to: u64| {
        let key = if r.chance(1, 8) { r.below(n + 1) } else { g.points[to as usize].key };
        let bad = if r.chance(1, 10) { r.range(1, 3) } else { 0 };
        g.points[from as usize].certs.push((key, to, bad));
    };
    // a backbone that makes most points reachable, then extra edges in any direction (cycles, shared sub-trees)
    for i in 1..n { if r.chance(5, 6) { let from = r.below(i); cert(&mut g, r, from, i); } }
    let extra = r.below(if depth >= 4 { 3 } else { n + 1 });
    for _ in 0..extra { let (from, to) = (r.below(n), r.below(n)); cert(&mut g, r, from, to); }
    g.tal(0);
    if r.chance(1, 3) { let p = r.below(n); g.tal(p); }
    let threads = if r.chance(1, 2) { 1 } else { 4 };
    (g, depth, threads)
}

fn gen(rng: &mut Rng, tier: &str) -> Vec<(String, Value)> {
    let mut cases = Vec::new();
    // (a) chains around the limit, every limit 0..=5
    for d in 0..=5u64 {
        for n in [d.saturating_sub(1), d, d + 1, d + 2] {
            if n > 7 { continue }
            cases.push((format!("chain.limit{}", d), chain(n).json(d, 1)));
            if n == d + 1 { cases.push((format!("chain.limit{}.threads4", d), chain(n).json(d, 4))); }
        }
    }
    // (b) key-reuse cycles
    for (name, g) in cycle_shapes() {
        for (d, t) in [(1u64, 1u64), (2, 4), (2, 1), (3, 4), (3, 1), (5, 4)] { cases.push((format!("cycle.{}", name), g.json(d, t))); }
    }
    // the default limit once
    cases.push(("cycle.two_cycle.limit32".into(), cycle_shapes()[2].1.json(32, 1)));
    // (c) shared sub-trees
    for (name, g) in shared_shapes() {
        for (d, t) in [(1u64, 4u64), (2, 1), (2, 4), (3, 1), (3, 4), (5, 1)] { cases.push((format!("shared.{}", name), g.json(d, t))); }
    }
    // (d) random graphs (cycles, reuse, wrong keys, broken points, bad certificates)
    let n = if tier == "thorough" { 1500 } else { 90 };
    for _ in 0..n {
        let mut r = rng.fork();
        let (g, d, t) = random_graph(&mut r);
        cases.push(("random".into(), g.json(d, t)));
    }
    cases
}

//------------ building and running one world (worker side) ---------------------------------------------

fn prefix_of(asn: u64) -> String { let i = asn - 1000; format!("10.{}.{}.0/24", (i / 256) % 256, i % 256) }

fn build_world(input: &Value) -> Built {
    let all = res(&["10.0.0.0/8"], &[], &[(1, 65000)]);
    let mut s = Scen::new();
    let points = input["points"].as_array().unwrap();
    for p in points {
        let id = p["id"].as_u64().unwrap();
        s.add_point(&format!("p{}", id), p["key"].as_u64().unwrap() as usize,
                    &format!("h{}.example", p["module"].as_u64().unwrap()), "repo");
    }
    for p in points {
        let id = format!("p{}", p["id"].as_u64().unwrap());
        for a in p["roas"].as_array().unwrap() {
            let a = a.as_u64().unwrap();
            s.add_roa(&id, &format!("r{}.roa", a), a as u32, &[(&prefix_of(a), None)]);
        }
        for (j, c) in p["certs"].as_array().unwrap().iter().enumerate() {
            let cert = s.ca_cert_times();
            let faults = match c["bad"].as_u64().unwrap() { 0 => vec![], 1 => vec![Fault::Expired], 2 => vec![Fault::BadSignature], _ => vec![Fault::Revoked] };
            s.add_object(&id, ObjSpec {
                name: format!("c{}.cer", j),
                kind: ObjKind::Ca { subject: format!("p{}", c["point"].as_u64().unwrap()), key: Some(c["key"].as_u64().unwrap() as usize),
                                    resources: all.clone(), cert },
                faults,
            });
        }
        match p["broken"].as_u64().unwrap() {
            0 => {}
            1 => s.version_mut(&id, 0).mft.faults.push(Fault::Garbage),
            2 => s.version_mut(&id, 0).crl.faults.push(Fault::BadSignature),
            _ => s.version_mut(&id, 0).mft.faults.push(Fault::Missing),
        }
    }
    for (i, t) in input["tals"].as_array().unwrap().iter().enumerate() {
        let key = t["key"].as_u64().unwrap() as usize;
        let cert = s.ca_cert_times();
        s.spec.tals.push(TalSpec {
            name: format!("t{}", i), key,
            uris: vec![TaUriSpec {
                uri: format!("rsync://h0.example/repo/ta/t{}.cer", i),
                certs: vec![Some(TaCertSpec { ca: format!("p{}", t["point"].as_u64().unwrap()), key: Some(key), cert, resources: all.clone(), faults: vec![] })],
            }],
        });
    }
    let built = build(&s.spec).unwrap_or_else(|e| panic!("rpkigen build: {}", e));
    // the ground truth must carry the verdict bits the case claims
    for p in points {
        let ca = built.truth.ca(&format!("p{}", p["id"].as_u64().unwrap())).unwrap();
        let v = &ca.versions[0];
        let ok = v.mft.present && v.mft.decodes && v.mft.content_sig_ok && v.mft.ee.all_good() && !v.mft.premature && !v.mft.stale
            && v.crl.listed && v.crl.present && v.crl.hash_ok && v.crl.decodes && v.crl.sig_ok && !v.crl.stale
            && v.entries.iter().all(|e| !e.listed || (e.present && e.hash_ok));
        assert_eq!(ok, p["broken"].as_u64().unwrap() == 0, "ground truth of point {} disagrees with the case", ca.id);
        for (j, c) in p["certs"].as_array().unwrap().iter().enumerate() {
            let e = v.entries.iter().find(|e| e.name == format!("c{}.cer", j)).unwrap();
            // res_within is relative to the canonical certificate of the publishing CA; a CA no good certificate
            // names has none (and is never processed), so the bit is not compared there
            let c0 = e.obj.cert().unwrap();
            let good = e.listed && c0.decodes && c0.sig_ok && c0.valid_now && c0.crl_uri_ok && !c0.revoked
                && (c0.res_within || ca.issuer_resources.is_empty());
            assert_eq!(good, c["bad"].as_u64().unwrap() == 0, "ground truth of {}/{} disagrees", ca.id, e.name);
        }
    }
    built
}

fn run_world(input: &Value) -> Value {
    // a failure of the generator itself is not an observation of the engine: res 8 makes the parent stop
    let built = match std::panic::catch_unwind(|| build_world(input)) {
        Ok(b) => b,
        Err(e) => return json!({"res": 8, "note": e.downcast_ref::<String>().cloned().unwrap_or_else(|| "generator panicked".into())}),
    };
    let world = World::new(built).expect("world");
    let cfg = RunCfg {
        max_ca_depth: input["depth"].as_u64().unwrap() as usize,
        validation_threads: input["threads"].as_u64().unwrap() as usize,
        ..RunCfg::default()
    };
    let out = world.run(&cfg);
    let mut pay: Vec<u64> = out.payload.origins.iter().map(|o| {
        let a = o.asn as u64;
        if a >= 1000 && o.prefix == prefix_of(a) && o.max_len == 24 { a } else { 999_999 }
    }).collect();
    pay.sort(); pay.dedup();
    if !out.payload.router_keys.is_empty() || !out.payload.aspas.is_empty() { pay.push(999_998); }
    let mut stored: Vec<u64> = out.store.iter().filter(|p| p.manifest_number.is_some()).map(|p| {
        // rsync://h0.example/repo/p3/p3.mft
        p.manifest_uri.rsplit('/').next().and_then(|f| f.strip_prefix('p')).and_then(|f| f.strip_suffix(".mft"))
            .and_then(|n| n.parse::<u64>().ok()).unwrap_or(999_999)
    }).collect();
    stored.sort(); stored.dedup();
    let m = &out.metrics.publication;
    json!({
        "res": if out.result == "ok" { 0 } else { 3 }, "result": out.result,
        "pay": pay, "valid_points": m.valid_points, "rejected_points": m.rejected_points, "stored": stored,
        "valid_ca": m.valid_ca_certs, "invalid_certs": m.invalid_certs,
        "deep": out.log.iter().filter(|l| l.contains("CA depth overrun")).count(),
        "millis": out.millis,
    })
}

fn worker_loop() {
    let stdin = std::io::stdin();
    let mut line = String::new();
    loop {
        line.clear();
        if stdin.lock().read_line(&mut line).unwrap_or(0) == 0 { return }
        let input: Value = serde_json::from_str(&line).expect("worker input");
        let out = run_world(&input);
        let mut o = std::io::stdout().lock();
        writeln!(o, "{}", out).unwrap();
        o.flush().unwrap();
    }
}

//------------ parent side: worker pool with a wall-clock watchdog -----------------------------------------

struct Worker { child: Child, stdin: ChildStdin, rx: Receiver<String> }

fn spawn_worker() -> Worker {
    let mut child = Command::new(std::env::current_exe().unwrap())
        .env("C07_WORKER", "1").env_remove("RPKIGEN_ACT_AS_RSYNC").env("TMPDIR", scratch_dir())
        .stdin(Stdio::piped()).stdout(Stdio::piped()).stderr(Stdio::inherit())
        .spawn().expect("spawn worker");
    let stdin = child.stdin.take().unwrap();
    let stdout = child.stdout.take().unwrap();
    let (tx, rx) = channel();
    std::thread::spawn(move || {
        for l in BufReader::new(stdout).lines() {
            match l { Ok(l) => { if tx.send(l).is_err() { break } } Err(_) => break }
        }
    });
    Worker { child, stdin, rx }
}

/// Worlds live below one scratch directory that the parent removes at the end (a killed worker cannot clean up).
fn scratch_dir() -> std::path::PathBuf {
    let d = std::env::temp_dir().join(format!("c07-{}", std::process::id()));
    let _ = std::fs::create_dir_all(&d);
    d
}

static POOL: Mutex<Vec<Worker>> = Mutex::new(Vec::new());
static EXPIRIES: AtomicUsize = AtomicUsize::new(0);

fn timeout() -> Duration {
    Duration::from_millis(std::env::var("C07_TIMEOUT_MS").ok().and_then(|s| s.parse().ok()).unwrap_or(45_000))
}

/// Runs one case in a worker; returns the observation JSON (`res` 1 = watchdog expired, 2 = worker died).
fn run_watched(input: &Value) -> Value {
    if EXPIRIES.load(Ordering::SeqCst) >= 4 { return json!({"res": 7, "note": "not run: the watchdog expired 4 times before"}) }
    let mut w = POOL.lock().unwrap().pop().unwrap_or_else(spawn_worker);
    if writeln!(w.stdin, "{}", input).and_then(|_| w.stdin.flush()).is_err() {
        let _ = w.child.kill(); let _ = w.child.wait();
        return json!({"res": 2, "note": "worker not accepting input"})
    }
    match w.rx.recv_timeout(timeout()) {
        Ok(line) => {
            POOL.lock().unwrap().push(w);
            serde_json::from_str(&line).unwrap_or_else(|_| json!({"res": 2, "note": format!("unparsable worker answer: {}", line)}))
        }
        Err(RecvTimeoutError::Timeout) => {
            EXPIRIES.fetch_add(1, Ordering::SeqCst);
            let _ = w.child.kill(); let _ = w.child.wait();
            json!({"res": 1, "note": format!("no answer within {} ms: validation run did not terminate", timeout().as_millis())})
        }
        Err(RecvTimeoutError::Disconnected) => {
            let st = w.child.wait().map(|s| s.to_string()).unwrap_or_default();
            json!({"res": 2, "note": format!("worker died: {}", st)})
        }
    }
}

//------------ Coq terms -----------------------------------------------------------------------------------

fn coq_input(input: &Value) -> String {
    let tals = coq_list(input["tals"].as_array().unwrap(), |t| format!("{{| t_key := {}; t_point := {} |}}", t["key"], t["point"]));
    let graph = coq_list(input["points"].as_array().unwrap(), |p| format!(
        "({}, {{| p_key := {}; p_ok := {}; p_pay := {}; p_certs := {} |}})",
        p["id"], p["key"], coq_bool(p["broken"].as_u64().unwrap() == 0),
        coq_nlist(p["roas"].as_array().unwrap().iter().map(|a| a.as_u64().unwrap())),
        coq_list(p["certs"].as_array().unwrap(), |c| format!("{{| c_key := {}; c_point := {}; c_valid := {} |}}",
                 c["key"], c["point"], coq_bool(c["bad"].as_u64().unwrap() == 0)))));
    format!("{{| i_depth := {}%nat; i_tals := {}; i_graph := {} |}}", input["depth"], tals, graph)
}

fn coq_obs(o: &Value) -> String {
    let n = |k: &str| o.get(k).and_then(|v| v.as_u64()).unwrap_or(0);
    let l = |k: &str| coq_nlist(o.get(k).and_then(|v| v.as_array()).cloned().unwrap_or_default().iter().map(|x| x.as_u64().unwrap()));
    format!("{{| o_res := {}; o_pay := {}; o_valid_points := {}; o_rejected_points := {}; o_stored := {}; o_valid_ca := {}; o_invalid_certs := {}; o_deep := {} |}}",
            n("res"), l("pay"), n("valid_points"), n("rejected_points"), l("stored"), n("valid_ca"), n("invalid_certs"), n("deep"))
}

fn run(input: &Value) -> CaseOut {
    let obs = run_watched(input);
    if obs["res"].as_u64() == Some(8) { panic!("harness failure (not a verdict): {} on input {}", obs["note"], input) }
    let coq = format!("{{| c_in := {}; c_impl := {} |}}", coq_input(input), coq_obs(&obs));
    let nontrivial = obs["invalid_certs"].as_u64().unwrap_or(0) > 0 || obs["res"].as_u64() != Some(0);
    CaseOut { obs, coq, nontrivial }
}

fn main() {
    act_as_rsync_if_child();
    if std::env::var_os("C07_WORKER").is_some() {
        std::env::remove_var("C07_WORKER");
        worker_loop();
        return
    }
    let threads = std::env::var("C07_JOBS").ok().and_then(|s| s.parse().ok()).unwrap_or(8usize);
    drive_par(gen, run, threads);
    // close the workers' stdin so that they exit
    let ws: Vec<Worker> = std::mem::take(&mut *POOL.lock().unwrap());
    for mut w in ws { drop(w.stdin); let _ = w.child.wait(); }
    let _ = std::fs::remove_dir_all(scratch_dir());
}
