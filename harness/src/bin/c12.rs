//! C12: folding PayloadDelta::merge over consecutive deltas vs the direct delta (coq/C12).
use routinator::payload::PayloadDelta;
use rpki::rtr::Serial;
use rv_harness::paygen::*;
use rv_harness::util::*;
use serde_json::{json, Value};

fn gen(rng: &mut Rng, tier: &str) -> Vec<(String, Value)> {
    let mut cases = Vec::new();
    let empty = json!({"origins": [], "keys": [], "aspas": []});
    // (a) explicit patterns on a tiny universe: add-then-remove, remove-then-re-add, ASPA change and change back
    let u = Universe::new(&mut rng.fork(), 2, 1, 2);
    let o0 = json!({"origins": [u.origins[0]], "keys": [], "aspas": []});
    let o01 = json!({"origins": [u.origins[0], u.origins[1]], "keys": [], "aspas": []});
    let a1 = json!({"origins": [], "keys": [], "aspas": [[65000, [100]]]});
    let a2 = json!({"origins": [], "keys": [], "aspas": [[65000, [100, 101]]]});
    let a3 = json!({"origins": [], "keys": [], "aspas": [[65000, []]]});
    let pats: Vec<(&str, Vec<&Value>)> = vec![
        ("pattern.add_remove", vec![&empty, &o0, &empty]),
        ("pattern.remove_readd", vec![&o0, &empty, &o0]),
        ("pattern.add_add", vec![&empty, &o0, &o01]),
        ("pattern.nochange_steps", vec![&o0, &o0, &o01, &o01]),
        ("pattern.all_equal", vec![&o0, &o0, &o0]),
        ("pattern.single", vec![&o0]),
        ("pattern.aspa_change_back", vec![&a1, &a2, &a1]),
        ("pattern.aspa_change_twice", vec![&a1, &a2, &a3]),
        ("pattern.aspa_withdraw_announce_same", vec![&a1, &empty, &a1]),
        ("pattern.aspa_withdraw_announce_diff", vec![&a1, &empty, &a2]),
        ("pattern.aspa_announce_update", vec![&empty, &a1, &a2]),
        ("pattern.aspa_announce_withdraw", vec![&empty, &a1, &empty]),
        ("pattern.aspa_update_withdraw", vec![&a1, &a2, &empty]),
        ("pattern.aspa_update_update_withdraw_announce", vec![&a1, &a2, &a3, &empty, &a2]),
    ];
    for (n, p) in pats {
        cases.push((n.to_string(), json!({"snaps": p})));
    }
    // (b) exhaustive: all sequences of length 3 over the 4 subsets of a 2-ASPA universe with 2 provider variants
    let variants: Vec<Value> = {
        let mut v = vec![];
        for m in 0..9u32 {
            let (x, y) = (m % 3, m / 3);
            let mut a = vec![];
            if x > 0 { a.push(json!([65000, if x == 1 { vec![100u32] } else { vec![100u32, 101] }])); }
            if y > 0 { a.push(json!([65003, if y == 1 { vec![] } else { vec![102u32] }])); }
            v.push(json!({"origins": [], "keys": [], "aspas": a}));
        }
        v
    };
    for i in 0..9 { for j in 0..9 { for k in 0..9 {
        cases.push(("exhaustive.aspa3".into(), json!({"snaps": [variants[i], variants[j], variants[k]]})));
    }}}
    // (b2) exhaustive: all sequences of length 4 and 5 over one customer with {absent, p1, p2, p3}
    //      (the old providers remembered inside Update/Withdraw only show in a later merge)
    let one: Vec<Value> = vec![
        json!({"origins": [], "keys": [], "aspas": []}),
        json!({"origins": [], "keys": [], "aspas": [[65000, [100]]]}),
        json!({"origins": [], "keys": [], "aspas": [[65000, [100, 101]]]}),
        json!({"origins": [], "keys": [], "aspas": [[65000, []]]}),
    ];
    for len in [4usize, 5] {
        for m in 0..(4u32.pow(len as u32)) {
            let seq: Vec<&Value> = (0..len).map(|i| &one[((m >> (2 * i)) & 3) as usize]).collect();
            cases.push((format!("exhaustive.aspa1x{}", len), json!({"snaps": seq})));
        }
    }
    // same for a single route origin {absent, present}: all sequences of length 2..6
    let oo = [json!({"origins": [], "keys": [], "aspas": []}), o0.clone()];
    for len in 2usize..=6 {
        for m in 0..(1u32 << len) {
            let seq: Vec<&Value> = (0..len).map(|i| &oo[((m >> i) & 1) as usize]).collect();
            cases.push((format!("exhaustive.origin1x{}", len), json!({"snaps": seq})));
        }
    }
    // (c) random walks of 2..10 data sets (the fuzz target's shape)
    let n = if tier == "thorough" { 4000 } else { 400 };
    for i in 0..n {
        let mut r = rng.fork();
        let u = Universe::new(&mut r, 3 + (i % 12), (i % 4) as usize, 1 + (i % 5));
        let len = r.range(2, 10);
        let mut snaps = vec![u.snap(&mut r, 1, 2)];
        for _ in 1..len {
            let prev = snaps.last().unwrap().clone();
            snaps.push(if r.chance(1, 5) { u.snap(&mut r, 1, 2) } else { u.mutate(&mut r, &prev) });
        }
        cases.push(("random.walk".into(), json!({"snaps": snaps})));
    }
    cases
}

fn obs_fields(d: Option<&PayloadDelta>, r: &Ranker) -> (Value, String) {
    match d {
        None => (json!({"none": true}),
            "{| o_none := true; o_origins := []; o_rkeys := []; o_aspas := []; o_alen := 0; o_wlen := 0 |}".into()),
        Some(d) => {
            let w = wire_of_delta(d, r);
            (json!({"none": false, "actions": w.json(), "announce_len": d.announce_len(), "withdraw_len": d.withdraw_len()}),
             format!("{{| o_none := false; {}; o_alen := {}; o_wlen := {} |}}", w.coq_fields(),
                if w.grouped() { d.announce_len() as u64 } else { 888_888_888 }, d.withdraw_len()))
        }
    }
}

fn run(input: &Value) -> CaseOut {
    let snaps: Vec<_> = input["snaps"].as_array().unwrap().iter().map(snapshot_of).collect();
    let r = Ranker::new(snaps.iter());
    // consecutive deltas as the history would keep them (only non-empty ones), serials increasing
    let mut serial = Serial::from(7);
    let mut deltas = Vec::new();
    for w in snaps.windows(2) {
        if let Some(d) = PayloadDelta::construct(&w[0], &w[1], serial) {
            serial = serial.add(1);
            deltas.push(d);
        }
    }
    let merged = deltas.iter().skip(1).fold(deltas.first().cloned(), |acc, d| acc.map(|a| a.merge(d)));
    let serial_ok = merged.as_ref().map(|m| m.serial() == serial).unwrap_or(true);
    let direct = PayloadDelta::construct(&snaps[0], snaps.last().unwrap(), Serial::from(7));
    let (mj, mc) = obs_fields(merged.as_ref(), &r);
    let (dj, dc) = obs_fields(direct.as_ref(), &r);
    let mc = if serial_ok { mc } else { mc.replace("o_wlen := ", "o_wlen := 777000000 + ") };
    let coq = format!("{{| c_first := {}; c_rest := {}; c_merged := {}; c_direct := {} |}}",
        coq_snapshot(&snaps[0], &r), coq_list(snaps.iter().skip(1), |s| coq_snapshot(s, &r)), mc, dc);
    let obs = json!({"snaps": snaps.iter().map(|s| json_snapshot(s, &r)).collect::<Vec<_>>(),
        "n_deltas": deltas.len(), "merged": mj, "direct": dj, "serial_ok": serial_ok});
    CaseOut { obs, coq, nontrivial: deltas.len() >= 2 }
}

fn main() { drive(gen, run) }
