//! C23: a process kill at any file-system step of the store never corrupts it (coq/C23).
//!
//! Two streams (environment variable `C23_STREAM`, default `unit`):
//!
//! * `unit`  — the store API itself (`StoredPoint::open/update/reject`, `Run::update_ta/done`) is driven with
//!   small synthetic values in a child process that is killed at the k-th kill point (optionally after only
//!   `cut` bytes of the write that follows it); the parent then compares the *raw bytes* of every file under
//!   `stored/` with the model's crash state (time stamps normalised, see `normalise`) and reads the store
//!   back through the real readers (`StoredPoint::open` on a copy, `Store::status`, `Run::load_ta`).
//! * `e2e`   — a real rpkigen world (2 TALs, chain A -> A1 -> A2 -> A3, B -> B1, two versions): run 1 completes,
//!   run 2 (new versions) is killed at kill point k of the real `Engine` run; then fresh processes run
//!   `vrps --update-after` (the real command), a run without updates and a full run on the same cache.
//!
//! The child is this binary (`c23 child ...`), the kill is `std::process::abort()` in
//! `routinator::verif::kill_point*` when the arrival count reaches `VERIF_KILL_AT`.
use std::collections::BTreeMap;
use std::path::{Path, PathBuf};
use std::process::{Command, Stdio};
use std::str::FromStr;
use std::sync::OnceLock;
use bytes::Bytes;
use routinator::config::Config;
use routinator::engine::Engine;
use routinator::payload::ValidationReport;
use routinator::slurm::LocalExceptions;
use routinator::store::{Store, StoredManifest, StoredObject, StoredPoint, UpdateError};
use rpki::repository::manifest::ManifestHash;
use rpki::repository::tal::TalUri;
use rpki::repository::x509::Serial;
use rpki::crypto::DigestAlgorithm;
use rpki::uri;
use rv_harness::rpkigen::*;
use rv_harness::util::*;
use serde_json::{json, Value};

const T0: i64 = 1_700_000_000;
const RSYNC_ENV: &str = "RPKIGEN_ACT_AS_RSYNC";

//============ synthetic values of the unit stream (mirrored by coq/C23/Spec.v) ==========================

fn point_uri(i: u64) -> uri::Rsync { uri::Rsync::from_str(&format!("rsync://a.b/m/p{}.mft", i)).unwrap() }
fn point_notify(i: u64) -> Option<uri::Https> {
    if i % 2 == 1 { Some(uri::Https::from_str("https://a.b/n.xml").unwrap()) } else { None }
}
fn ta_uri(i: u64) -> TalUri { TalUri::Rsync(uri::Rsync::from_str(&format!("rsync://a.b/m/t{}.cer", i)).unwrap()) }
fn ta_content(i: u64, v: u64) -> Vec<u8> { vec![48, 130, i as u8, v as u8, 1, 2, 3] }
fn mk_manifest(i: u64, v: u64) -> StoredManifest {
    let mut num = [0u8; 20];
    num[19] = v as u8;
    StoredManifest {
        not_after: chrono::DateTime::from_timestamp(2_000_000_000, 0).unwrap().into(),
        manifest_number: Serial::from_array(num).unwrap(),
        this_update: chrono::DateTime::from_timestamp(1_600_000_000 + v as i64, 0).unwrap().into(),
        ca_repository: uri::Rsync::from_str("rsync://a.b/m/").unwrap(),
        manifest: Bytes::from(vec![48, i as u8, v as u8, 77]),
        crl_uri: uri::Rsync::from_str(&format!("rsync://a.b/m/p{}.crl", i)).unwrap(),
        crl: Bytes::from(vec![49, i as u8, v as u8]),
    }
}
fn mk_object(v: u64, j: u64, olen: u64) -> StoredObject {
    let mut content = vec![v as u8, j as u8, 7];
    if j == 0 { content.extend(std::iter::repeat(0u8).take(olen as usize)); }
    let hash = if j % 2 == 0 {
        Some(ManifestHash::new(Bytes::from(vec![(16 * v + j) as u8; 32]), DigestAlgorithm::sha256()))
    } else { None };
    StoredObject::new(uri::Rsync::from_str(&format!("rsync://a.b/m/o{}", j)).unwrap(), Bytes::from(content), hash)
}

//============ child modes ==================================================================================

fn base_config(dir: &Path) -> Config {
    let mut c = Config::default_with_paths(Default::default(), dir.join("cache"));
    c.no_rir_tals = true;
    c.extra_tals_dir = Some(dir.join("tals"));
    c.disable_rrdp = true;
    c.rsync_command = std::env::current_exe().unwrap().display().to_string();
    c.rsync_args = Some(Vec::new());
    c.rsync_timeout = Some(std::time::Duration::from_secs(60));
    c.enable_bgpsec = true;
    c.enable_aspa = true;
    c.validation_threads = 1;
    c
}

/// `child run <dir> <flags>`: one validation run as `vrps` would do it; prints one JSON line.
/// Flags: `n` = without updates (no collector), `d` = "dirty" (no cleanup after the run), `-` = none.
struct StderrLog;
impl log::Log for StderrLog {
    fn enabled(&self, _: &log::Metadata) -> bool { true }
    fn log(&self, r: &log::Record) { eprintln!("LOG {}: {}", r.level(), r.args()); }
    fn flush(&self) { }
}
static STDERR_LOG: StderrLog = StderrLog;

fn child_run(dir: &Path, flags: &str) -> ! {
    if std::env::var_os("C23_LOG").is_some() {
        let _ = log::set_logger(&STDERR_LOG);
        log::set_max_level(log::LevelFilter::Debug);
    }
    let no_update = flags.contains('n');
    let mut config = base_config(dir);
    config.dirty_repository = flags.contains('d');
    let mut out = json!({"result": "", "payload": null, "kill_log": []});
    match Engine::new(&config, !no_update) {
        Err(_) => out["result"] = json!("engine"),
        Ok(mut engine) => {
            if engine.ignite().is_err() { out["result"] = json!("ignite"); }
            else {
                match ValidationReport::process(&engine, &config, false) {
                    Err(err) => out["result"] = json!(if err.is_fatal() { "fatal" } else { "retry" }),
                    Ok((report, mut metrics)) => {
                        let snapshot = report.into_snapshot(&LocalExceptions::empty(), &mut metrics);
                        out["result"] = json!("ok");
                        out["payload"] = serde_json::to_value(payload_of(&snapshot)).unwrap();
                    }
                }
            }
        }
    }
    out["kill_log"] = json!(routinator::verif::kill_log());
    println!("{}", out);
    std::process::exit(0)
}

/// `child vrps <dir>`: the real `routinator vrps --update-after 600` through the same path as main.rs.
fn child_vrps(dir: &Path) -> ! {
    use routinator::{ExitError, Operation};
    let conf = dir.join("c23.conf");
    std::fs::write(&conf, format!(
        "repository-dir = \"{}\"\nextra-tals-dir = \"{}\"\nno-rir-tals = true\ndisable-rrdp = true\n\
         rsync-command = \"{}\"\nrsync-args = []\nvalidation-threads = 1\nenable-aspa = true\nenable-bgpsec = true\n",
        dir.join("cache").display(), dir.join("tals").display(), std::env::current_exe().unwrap().display())).unwrap();
    let args: Vec<String> = vec!["routinator".into(), "--config".into(), conf.display().to_string(),
        "vrps".into(), "--update-after".into(), "600".into(), "-f".into(), "csv".into(),
        "-o".into(), dir.join("vrps.csv").display().to_string()];
    let res: Result<(), ExitError> = (|| {
        Operation::prepare()?;
        let cur_dir = std::env::current_dir().unwrap();
        let matches = Operation::config_args(Config::config_args(clap::Command::new("Routinator")))
            .try_get_matches_from(&args).map_err(|e| { eprintln!("{}", e); ExitError::Generic })?;
        let mut config = Config::from_arg_matches(&matches, &cur_dir)?;
        let op = Operation::from_arg_matches(&matches, &cur_dir, &mut config)?;
        op.run(config)
    })();
    let code = match res { Ok(()) => 0, Err(ExitError::Generic) => 1, Err(ExitError::IncompleteUpdate) => 2, Err(ExitError::Invalid) => 3 };
    println!("RESULT exit={}", code);
    std::process::exit(0)
}

/// `child unit <dir> <ops.json>`: the store API on synthetic values.
fn child_unit(dir: &Path, ops: &Value) -> ! {
    let config = Config::default_with_paths(Default::default(), dir.join("cache"));
    let store = Store::new(&config).expect("store");
    let run = store.start();
    let mut open: BTreeMap<u64, StoredPoint> = BTreeMap::new();
    for op in ops.as_array().unwrap() {
        let p = op["p"].as_u64().unwrap_or(0);
        match op["op"].as_str().unwrap() {
            "open" => {
                open.remove(&p);
                let uri = point_uri(p);
                let notify = point_notify(p);
                let path = store.verif_point_path(notify.as_ref(), &uri);
                open.insert(p, StoredPoint::verif_open(path, &uri, notify.as_ref()).expect("open"));
            }
            "update" => {
                let (v, n, olen, commit) = (op["v"].as_u64().unwrap(), op["n"].as_u64().unwrap(),
                                            op["olen"].as_u64().unwrap(), op["commit"].as_bool().unwrap());
                let point = open.get_mut(&p).expect("update without open");
                let mut j = 0;
                let res = point.update(&store, mk_manifest(p, v), || {
                    if j == n { return if commit { Ok(None) } else { Err(UpdateError::Abort) } }
                    j += 1;
                    Ok(Some(mk_object(v, j - 1, olen)))
                });
                match res { Ok(()) => assert!(commit), Err(UpdateError::Abort) => assert!(!commit), Err(_) => panic!("update failed") }
            }
            "reject" => { open.get_mut(&p).expect("reject without open").reject().expect("reject"); }
            "ta" => {
                let (i, v) = (op["i"].as_u64().unwrap(), op["v"].as_u64().unwrap());
                run.update_ta(&ta_uri(i), &ta_content(i, v)).expect("update_ta");
            }
            "touch" => {
                let t = dir.join("cache/stored/tmp");
                std::fs::create_dir_all(&t).unwrap();
                std::fs::write(t.join(format!("left{}", op["i"].as_u64().unwrap())), b"").unwrap();
            }
            "done" => {
                // `Run::done` consumes the run: a fresh one (the start time is not used by `done`)
                store.start().done(&mut routinator::metrics::Metrics::new());
            }
            x => panic!("unknown op {}", x),
        }
    }
    println!("{}", json!({"kill_log": routinator::verif::kill_log()}));
    std::process::exit(0)
}

struct ChildOut { killed: bool, stdout: String, stderr: String, kill_log: Vec<String>, status: String }

fn spawn_child(args: &[String], kill_at: Option<u64>, cut: Option<u64>) -> ChildOut {
    let exe = std::env::current_exe().unwrap();
    let mut cmd = Command::new(exe);
    cmd.arg("child").args(args).env_remove(RSYNC_ENV).env_remove("VERIF_KILL_AT").env_remove("VERIF_KILL_CUT")
        .stdin(Stdio::null()).stdout(Stdio::piped()).stderr(Stdio::piped());
    if let Some(k) = kill_at { cmd.env("VERIF_KILL_AT", k.to_string()); }
    if let Some(c) = cut { cmd.env("VERIF_KILL_CUT", c.to_string()); }
    let out = cmd.output().expect("spawn child");
    let stderr = String::from_utf8_lossy(&out.stderr).to_string();
    let stdout = String::from_utf8_lossy(&out.stdout).to_string();
    let mut kill_log: Vec<String> = stderr.lines().filter_map(|l| l.strip_prefix("VERIF_KILL_POINT ")).map(|s| s.to_string()).collect();
    let killed = !out.status.success();
    if !killed {
        if let Some(line) = stdout.lines().rev().find(|l| l.starts_with('{')) {
            if let Ok(v) = serde_json::from_str::<Value>(line) {
                if let Some(l) = v["kill_log"].as_array() { kill_log = l.iter().map(|x| x.as_str().unwrap().to_string()).collect(); }
            }
        }
    } else if kill_log.is_empty() {
        panic!("child {:?} failed without reaching its kill point: {}\n{}", args, out.status, stderr);
    }
    ChildOut { killed, stdout, stderr, kill_log, status: out.status.to_string() }
}

fn child_json(o: &ChildOut) -> Value {
    o.stdout.lines().rev().find(|l| l.starts_with('{')).and_then(|l| serde_json::from_str(l).ok())
        .unwrap_or_else(|| json!({"result": format!("died: {}", o.status)}))
}

fn copy_dir(from: &Path, to: &Path) {
    std::fs::create_dir_all(to).unwrap();
    for e in std::fs::read_dir(from).unwrap() {
        let e = e.unwrap();
        let (p, t) = (e.path(), to.join(e.file_name()));
        if p.is_dir() { copy_dir(&p, &t); } else { std::fs::copy(&p, &t).unwrap(); }
    }
}

//============ labels ===============================================================================

fn label_code(id: &str) -> u64 {
    match id {
        "point.create.create" => 1, "point.create.header" => 2, "point.rewrite.create" => 3, "point.rewrite.header" => 4,
        "point.update.tmp_create" => 5, "point.update.header" => 6, "point.update.manifest" => 7, "point.update.object" => 8,
        "point.update.persist" => 9, "point.reject.create" => 10, "point.reject.header" => 11,
        "status.tmp_create" => 12, "status.write" => 13, "status.persist" => 14,
        "ta.tmp_create" => 15, "ta.write" => 16, "ta.persist" => 17, "cleanup.remove" => 18,
        "fatal.create_file" => 20, "fatal.write_file.create" => 22, "fatal.write_file.write" => 23,
        _ => 99,
    }
}

/// Is the kill point followed by a write (so that `cut` variants make sense)?
fn is_write_label(code: u64) -> bool { matches!(code, 2 | 4 | 6 | 7 | 8 | 11 | 13 | 16 | 23) }

//============ reading a crash state back ========================================================================

/// The universe of store paths of a case: name in Coq, real path.
struct Universe {
    stored: PathBuf,
    points: Vec<(u64, PathBuf, uri::Rsync, Option<uri::Https>)>,
    tas: Vec<(u64, PathBuf, TalUri)>,
}

fn coq_path_of(u: &Universe, path: &Path) -> Option<String> {
    if path == u.stored.join("status.bin") { return Some("PStatus".into()) }
    for (i, p, _, _) in &u.points { if p == path { return Some(format!("(PPoint {})", i)) } }
    for (i, p, _) in &u.tas { if p == path { return Some(format!("(PTa {})", i)) } }
    if path.parent() == Some(&u.stored.join("tmp")) {
        let name = path.file_name().unwrap().to_string_lossy().to_string();
        return Some(match name.strip_prefix("left") { Some(n) => format!("(PTmp {})", n), None => "(PTmp 0)".into() })
    }
    None
}

fn walk(dir: &Path, out: &mut Vec<PathBuf>) {
    if let Ok(rd) = std::fs::read_dir(dir) {
        for e in rd.flatten() {
            let p = e.path();
            if p.is_dir() { walk(&p, out) } else { out.push(p) }
        }
    }
}

fn hexs(b: &[u8]) -> String { hex(b) }

/// Replaces the 8 time-stamp bytes at `off` (as far as they exist) by those of T0.
fn normalise(data: &mut [u8], off: usize) {
    let t = T0.to_be_bytes();
    for i in 0..8 { if off + i < data.len() { data[off + i] = t[i]; } }
}

fn header_time_offset(uri: &uri::Rsync, notify: Option<&uri::Https>) -> usize {
    1 + 4 + uri.as_slice().len() + 4 + notify.map(|n| n.as_slice().len()).unwrap_or(0) + 1
}

/// What `StoredPoint::open` + iteration see in the file at `path` (on a scratch copy; `open` rewrites).
/// `ident(manifest bytes) -> version`, `obj(uri) -> id`.
fn open_view(path: &Path, uri: &uri::Rsync, notify: Option<&uri::Https>, scratch: &Path,
             ident: &dyn Fn(&[u8]) -> u64, obj: &dyn Fn(u64, &str) -> u64, sort: bool) -> (Value, String) {
    if !path.exists() { return (json!("absent"), "OAbsent".into()) }
    let copy = scratch.join("view.bin");
    std::fs::copy(path, &copy).unwrap();
    let r = match StoredPoint::verif_open(copy.clone(), uri, notify) {
        Err(_) => (json!("failed"), "OFailed".to_string()),
        Ok(mut point) => match point.manifest().map(|m| m.manifest.clone()) {
            None => (json!("none"), "ONone".into()),
            Some(m) => {
                let v = ident(&m);
                let mut js = Vec::new();
                let mut broken = false;
                for o in &mut point {
                    match o { Ok(o) => js.push(obj(v, &o.uri.to_string())), Err(_) => { broken = true; break } }
                }
                if sort { js.sort(); }
                if broken { (json!("broken"), "OBroken".into()) }
                else { (json!({"version": v, "objects": js}), format!("(OData {} {})", v, coq_nlist(js.iter()))) }
            }
        }
    };
    let _ = std::fs::remove_file(&copy);
    r
}

fn status_view(cache: &Path) -> (Value, String) {
    let config = Config::default_with_paths(Default::default(), cache.to_path_buf());
    let store = Store::new(&config).expect("store");
    match store.status() {
        Ok(None) => (json!("absent"), "OSAbsent".into()),
        Ok(Some(_)) => (json!("some"), "OSSome".into()),
        Err(_) => (json!("failed"), "OSFailed".into()),
    }
}

fn ta_view(cache: &Path, uri: &TalUri, ident: &dyn Fn(&[u8]) -> Option<u64>) -> (Value, String) {
    let config = Config::default_with_paths(Default::default(), cache.to_path_buf());
    let store = Store::new(&config).expect("store");
    match store.start().load_ta(uri) {
        Err(_) => (json!("failed"), "(OTSome 98)".into()),
        Ok(None) => (json!("absent"), "OTAbsent".into()),
        Ok(Some(b)) => match ident(&b) {
            Some(v) => (json!({"version": v}), format!("(OTSome {})", v)),
            None => (json!("corrupt"), "(OTSome 99)".into()),
        }
    }
}

//============ unit stream ============================================================================

fn unit_universe(dir: &Path) -> Universe {
    let config = Config::default_with_paths(Default::default(), dir.join("cache"));
    let store = Store::new(&config).expect("store");
    Universe {
        stored: dir.join("cache/stored"),
        points: (0..3).map(|i| { let (u, n) = (point_uri(i), point_notify(i)); (i, store.verif_point_path(n.as_ref(), &u), u, n) }).collect(),
        tas: (0..2).map(|i| (i, store.verif_ta_path(&ta_uri(i)), ta_uri(i))).collect(),
    }
}

fn coq_uact(op: &Value) -> String {
    let n = |k: &str| op[k].as_u64().unwrap();
    match op["op"].as_str().unwrap() {
        "open" => format!("UOpen {}", n("p")),
        "update" => format!("UUpdate {} {} {} {} {}", n("p"), n("v"), n("n"), n("olen"), coq_bool(op["commit"].as_bool().unwrap())),
        "reject" => format!("UReject {}", n("p")),
        "ta" => format!("UTa {} {}", n("i"), n("v")),
        "done" => "UDone".into(),
        "touch" => format!("UTouch (PTmp {})", n("i")),
        "remove_point" => format!("URemove (PPoint {})", n("p")),
        "remove_tmp" => format!("URemove (PTmp {})", n("i")),
        x => panic!("unknown op {}", x),
    }
}

fn run_unit(input: &Value) -> CaseOut {
    let tmp = tempfile::Builder::new().prefix("c23u-").tempdir().unwrap();
    let dir = tmp.path();
    std::fs::create_dir_all(dir.join("cache")).unwrap();
    let k = input["k"].as_u64().unwrap();
    let cut = input["cut"].as_u64();
    let init = spawn_child(&["unit".into(), dir.display().to_string(), input["init"].to_string()], None, None);
    assert!(!init.killed, "init died");
    let out = spawn_child(&["unit".into(), dir.display().to_string(), input["run"].to_string()], Some(k), cut);
    let u = unit_universe(dir);
    // which point is the leftover temporary file for? (from the last label)
    let last = out.kill_log.last().cloned().unwrap_or_default();
    let (last_id, last_path) = last.split_once('|').map(|(a, b)| (a.to_string(), PathBuf::from(b))).unwrap_or_default();
    // raw files
    let mut files = Vec::new();
    walk(&u.stored, &mut files);
    let mut raw: BTreeMap<String, Vec<u8>> = BTreeMap::new();
    let mut strays: Vec<String> = Vec::new();
    for f in &files {
        // a file the model has no name for (e.g. a temporary file outside stored/tmp) is an observation, not a
        // harness error: it is reported under a path the model never writes, so the case cannot agree with the model
        let name = match coq_path_of(&u, f) {
            Some(n) => n,
            None => { strays.push(f.display().to_string()); format!("(PTmp {})", 8 + strays.len()) }
        };
        let mut data = std::fs::read(f).unwrap();
        if name == "PStatus" { normalise(&mut data, 1); }
        for (_, p, uri, n) in &u.points { if p == f { normalise(&mut data, header_time_offset(uri, n.as_ref())); } }
        if name == "(PTmp 0)" && out.killed {
            if last_id.starts_with("status.") { normalise(&mut data, 1); }
            for (_, p, uri, n) in &u.points { if *p == last_path { normalise(&mut data, header_time_offset(uri, n.as_ref())); } }
        }
        assert!(raw.insert(name, data).is_none(), "two files with one name");
    }
    let mut names: Vec<String> = vec!["PStatus".into(), "(PTmp 0)".into(), "(PTmp 1)".into()];
    for k in 0..strays.len() { names.push(format!("(PTmp {})", 9 + k)); }
    for (i, _, _, _) in &u.points { names.push(format!("(PPoint {})", i)); }
    for (i, _, _) in &u.tas { names.push(format!("(PTa {})", i)); }
    let coq_fs = coq_list(names.iter(), |n| format!("({}, {})", n,
        coq_opt(raw.get(n).map(|d| format!("(unhex \"{}\")", hexs(d))))));
    // views
    let mut views = Vec::new();
    let mut jviews = serde_json::Map::new();
    let (sj, sc) = status_view(&dir.join("cache"));
    jviews.insert("status".into(), sj);
    views.push(format!("(PStatus, OStatus {})", sc));
    for (i, p, uri, n) in &u.points {
        let (j, c) = open_view(p, uri, n.as_ref(), dir, &|m| m.get(2).copied().unwrap_or(99) as u64,
                               &|_, u| u.chars().last().and_then(|c| c.to_digit(10)).unwrap_or(99) as u64, false);
        jviews.insert(format!("point{}", i), j);
        views.push(format!("(PPoint {}, OPoint {})", i, c));
    }
    for (i, _, uri) in &u.tas {
        let (j, c) = ta_view(&dir.join("cache"), uri, &|b| (0..4).find(|v| b == ta_content(*i, *v).as_slice()));
        jviews.insert(format!("ta{}", i), j);
        views.push(format!("(PTa {}, OTa {})", i, c));
    }
    // "every command keeps working": `routinator dump` over the store as the kill left it (reads stored/ only,
    // writes into a directory of its own; run last so that it cannot disturb the other observations)
    let dump_ok = {
        let config = Config::default_with_paths(Default::default(), dir.join("cache"));
        let store = Store::new(&config).expect("store");
        let target = dir.join("dump-out");
        std::fs::create_dir_all(&target).unwrap();
        store.dump(&target).is_ok()
    };
    jviews.insert("dump".into(), json!(if dump_ok { "ok" } else { "failed" }));
    if !strays.is_empty() { jviews.insert("unexpected_files".into(), json!(strays)); }
    let labels: Vec<u64> = out.kill_log.iter().map(|l| label_code(l.split('|').next().unwrap())).collect();
    let coq = format!(
        "{{| c_init := {}; c_run := {}; c_k := {}; c_cut := {}; o_killed := {}; o_labels := {}; o_fs := Some {}; o_views := {}; o_next_ok := {} |}}",
        coq_list(input["init"].as_array().unwrap().iter(), coq_uact),
        coq_list(input["run"].as_array().unwrap().iter(), coq_uact),
        k, coq_opt(cut.map(|c| c.to_string())), coq_bool(out.killed), coq_nlist(labels.iter()), coq_fs,
        format!("[{}]", views.join("; ")), coq_bool(dump_ok));
    let obs = json!({"killed": out.killed, "kill_log": out.kill_log, "views": jviews,
                     "files": raw.iter().map(|(k, v)| (k.clone(), json!(hexs(v)))).collect::<serde_json::Map<_, _>>()});
    CaseOut { obs, coq, nontrivial: out.killed }
}

fn op_open(p: u64) -> Value { json!({"op": "open", "p": p}) }
fn op_update(p: u64, v: u64, n: u64, olen: u64, commit: bool) -> Value { json!({"op": "update", "p": p, "v": v, "n": n, "olen": olen, "commit": commit}) }
fn op_reject(p: u64) -> Value { json!({"op": "reject", "p": p}) }
fn op_ta(i: u64, v: u64) -> Value { json!({"op": "ta", "i": i, "v": v}) }
fn op_done() -> Value { json!({"op": "done"}) }

/// Number of kill points an uninterrupted execution of `init; run` reaches in `run`, with their labels.
fn probe_unit(init: &Value, run: &Value) -> Vec<u64> {
    let tmp = tempfile::Builder::new().prefix("c23p-").tempdir().unwrap();
    std::fs::create_dir_all(tmp.path().join("cache")).unwrap();
    let i = spawn_child(&["unit".into(), tmp.path().display().to_string(), init.to_string()], None, None);
    assert!(!i.killed);
    let r = spawn_child(&["unit".into(), tmp.path().display().to_string(), run.to_string()], None, None);
    assert!(!r.killed);
    r.kill_log.iter().map(|l| label_code(l.split('|').next().unwrap())).collect()
}

fn gen_unit(rng: &mut Rng, tier: &str) -> Vec<(String, Value)> {
    let thorough = tier == "thorough";
    let mut cases = Vec::new();
    // class, init, run, the cuts tried at every write kill point in the quick tier
    let mut scenarios: Vec<(&str, Value, Value, Vec<u64>)> = Vec::new();
    let few = vec![5u64, 1000000];
    // the operations one by one, from every kind of prior state of the point
    scenarios.push(("create", json!([]), json!([op_open(0)]), vec![0, 1, 2, 5, 6, 24, 25, 26, 28, 29, 30, 37, 38, 39]));
    scenarios.push(("create.rrdp", json!([]), json!([op_open(1)]), vec![0, 54, 55]));
    scenarios.push(("rewrite", json!([op_open(0)]), json!([op_open(0)]), vec![0, 29, 37, 38]));
    scenarios.push(("first_update", json!([]), json!([op_open(1), op_update(1, 1, 2, 0, true)]), few.clone()));
    scenarios.push(("update", json!([op_open(0), op_update(0, 1, 2, 0, true)]), json!([op_open(0), op_update(0, 2, 3, 0, true)]), few.clone()));
    scenarios.push(("update.no_objects", json!([op_open(0), op_update(0, 1, 1, 0, true)]), json!([op_open(0), op_update(0, 2, 0, 0, true)]), vec![3]));
    scenarios.push(("update.abort", json!([op_open(0), op_update(0, 1, 2, 0, true)]), json!([op_open(0), op_update(0, 2, 2, 0, false)]), vec![7]));
    scenarios.push(("update.big_object", json!([op_open(0), op_update(0, 1, 1, 0, true)]), json!([op_open(0), op_update(0, 2, 3, 9000, true)]), vec![8500]));
    scenarios.push(("reject", json!([op_open(0), op_update(0, 1, 2, 0, true)]), json!([op_open(0), op_reject(0)]), vec![0, 20, 38]));
    scenarios.push(("reject_then_update", json!([op_open(1), op_update(1, 1, 1, 0, true)]), json!([op_open(1), op_reject(1), op_update(1, 2, 2, 0, true)]), vec![9]));
    scenarios.push(("status.first", json!([]), json!([op_done()]), vec![0, 1, 5, 8, 9, 10]));
    scenarios.push(("status.again", json!([op_done()]), json!([op_done()]), vec![0, 4, 9]));
    scenarios.push(("ta.first", json!([]), json!([op_ta(0, 0)]), vec![0, 1, 6, 7, 8]));
    scenarios.push(("ta.again", json!([op_ta(0, 0), op_ta(1, 0)]), json!([op_ta(0, 1), op_ta(1, 0)]), vec![0, 3, 7]));
    // a whole "run": trust anchors, three points in different states, status
    scenarios.push(("whole_run",
        json!([op_ta(0, 0), op_open(0), op_update(0, 1, 2, 0, true), op_open(1), op_open(2), op_update(2, 1, 1, 0, true), op_done()]),
        json!([op_ta(0, 1), op_open(0), op_update(0, 2, 2, 0, true), op_open(1), op_update(1, 1, 1, 0, true),
               op_open(2), op_reject(2), op_ta(1, 0), op_done()]), vec![2]));
    for (class, init, run, quick_cuts) in &scenarios {
        let labels = probe_unit(init, run);
        for k in 1..=(labels.len() as u64 + 1) {
            cases.push((format!("unit.{}", class), json!({"stream": "unit", "init": init, "run": run, "k": k, "cut": null})));
            if k as usize <= labels.len() && is_write_label(labels[k as usize - 1]) {
                let cuts: Vec<u64> = if thorough { (0..=60).chain([8191, 8192, 8193, 1000000]).collect() } else { quick_cuts.clone() };
                for c in cuts {
                    cases.push((format!("unit.{}.cut", class), json!({"stream": "unit", "init": init, "run": run, "k": k, "cut": c})));
                }
            }
        }
    }
    // random op sequences over three points, two trust anchors and the status file
    let n = if thorough { 60 } else { 6 };
    for _ in 0..n {
        let mut r = rng.fork();
        let mk = |r: &mut Rng, len: u64| -> Value {
            let mut ops = Vec::new();
            for _ in 0..len {
                match r.below(6) {
                    0 => ops.push(op_ta(r.below(2), r.below(3))),
                    1 => ops.push(op_done()),
                    _ => {
                        let p = r.below(3);
                        ops.push(op_open(p));
                        match r.below(5) {
                            0 => {}
                            1 => ops.push(op_reject(p)),
                            2 => ops.push(op_update(p, 1 + r.below(3), r.below(4), 0, false)),
                            _ => ops.push(op_update(p, 1 + r.below(3), r.below(4), if r.chance(1, 6) { 9000 } else { r.below(4) }, true)),
                        }
                    }
                }
            }
            Value::Array(ops)
        };
        let li = r.below(5);
        let init = mk(&mut r, li);
        let lr = 1 + r.below(4);
        let run = mk(&mut r, lr);
        let labels = probe_unit(&init, &run);
        if labels.is_empty() { continue }
        let picks = if thorough { labels.len() } else { 3.min(labels.len()) };
        for _ in 0..picks {
            let k = 1 + r.below(labels.len() as u64);
            let cut = if is_write_label(labels[k as usize - 1]) && r.chance(2, 3) { Some(r.below(60)) } else { None };
            cases.push(("unit.random".into(), json!({"stream": "unit", "init": init, "run": run, "k": k, "cut": cut})));
        }
    }
    cases
}

//============ e2e stream ========================================================================================

const HOST: &str = "rpki.alpha.example";
const CAS: [&str; 6] = ["A", "A1", "A2", "A3", "B", "B1"];

fn e2e_spec() -> RepoSpec {
    let mut s = Scen::new();
    s.add_ta("alpha", "A", 0, HOST, "repo", res(&["10.0.0.0/8"], &["2001:db8::/32"], &[(64496, 64503)]));
    s.add_roa("A", "a.roa", 64496, &[("10.0.0.0/16", Some(24))]);
    s.add_child("A", "A1", 1, HOST, "repo", res(&["10.1.0.0/16"], &[], &[(64496, 64499)]));
    s.add_roa("A1", "a1.roa", 64497, &[("10.1.0.0/16", Some(24))]);
    s.add_aspa("A1", "a1.asa", 64498, &[64496, 64497]);
    s.add_child("A1", "A2", 2, HOST, "repo", res(&["10.1.2.0/24"], &[], &[(64497, 64497)]));
    s.add_roa("A2", "a2.roa", 64497, &[("10.1.2.0/24", None)]);
    s.add_child("A2", "A3", 3, HOST, "repo", res(&["10.1.2.0/25"], &[], &[]));
    s.add_roa("A3", "a3.roa", 64497, &[("10.1.2.0/25", None)]);
    s.add_ta("beta", "B", 4, HOST, "repo", res(&["192.0.2.0/24"], &[], &[(64500, 64501)]));
    s.add_roa("B", "b.roa", 64500, &[("192.0.2.0/24", None)]);
    s.add_child("B", "B1", 5, HOST, "repo", res(&["192.0.2.0/25"], &[], &[]));
    s.add_roa("B1", "b1.roa", 64500, &[("192.0.2.0/25", None)]);
    // second versions
    s.push_version("A");
    s.add_roa("A", "a-new.roa", 64499, &[("10.9.0.0/16", None)]);
    s.spec.ca_mut("A").unwrap().versions[0].objects.retain(|o| o.name != "a-new.roa");
    s.push_version("A1");
    s.add_router("A1", "a1-new.cer", &[(64498, 64498)], 0);
    s.spec.ca_mut("A1").unwrap().versions[0].objects.retain(|o| o.name != "a1-new.cer");
    // A2: the manifest is missing in the first version (the point is known but has never been retrieved)
    s.push_version("A2");
    s.version_mut("A2", 0).mft.faults.push(Fault::Missing);
    // B: the second version drops the certificate of B1 (whose manifest was missing all along)
    s.push_version("B");
    s.spec.ca_mut("B").unwrap().versions[1].objects.retain(|o| o.name != "B1.cer");
    s.version_mut("B1", 0).mft.faults.push(Fault::Missing);
    // the alpha trust anchor certificate is re-issued at step 1
    let mut ta2 = s.spec.tals[0].uris[0].certs[0].clone().unwrap();
    ta2.cert.serial = s.serial();
    s.spec.tals[0].uris[0].certs.push(Some(ta2));
    s.spec
}

struct Template {
    _tmp: tempfile::TempDir,
    dir: PathBuf,
    built: Built,
    /// payload of the uninterrupted second run
    reference: Value,
    /// labels of the uninterrupted second run
    labels: Vec<String>,
    run_acts: String,
    init_acts: String,
}

fn e2e_universe(dir: &Path, built: &Built) -> Universe {
    let config = Config::default_with_paths(Default::default(), dir.join("cache"));
    let store = Store::new(&config).expect("store");
    let points = CAS.iter().enumerate().map(|(i, id)| {
        let ca = built.truth.cas.iter().find(|c| &c.id == id).unwrap();
        let uri = uri::Rsync::from_str(&ca.mft_uri).unwrap();
        (i as u64, store.verif_point_path(None, &uri), uri, None)
    }).collect();
    let tas = built.truth.tals.iter().enumerate().map(|(i, t)| {
        let uri = TalUri::Rsync(uri::Rsync::from_str(&t.uris[0].uri).unwrap());
        (i as u64, store.verif_ta_path(&uri), uri)
    }).collect();
    Universe { stored: dir.join("cache/stored"), points, tas }
}

fn n_objects(built: &Built, ca: &str, v: usize) -> usize {
    let c = built.truth.cas.iter().find(|c| c.id == ca).unwrap();
    c.versions[v].entries.iter().filter(|e| e.listed).count() + c.versions[v].crl.listed as usize
}

static TEMPLATE: OnceLock<Template> = OnceLock::new();

fn template() -> &'static Template {
    TEMPLATE.get_or_init(|| {
        let tmp = tempfile::Builder::new().prefix("c23e-").tempdir().unwrap();
        let dir = tmp.path().join("template");
        let built = build(&e2e_spec()).expect("build");
        let world = World::new_in(build_at(&built.spec, built.now).unwrap(), &dir).expect("world");
        world.serve_step(0).unwrap();
        // the first run skips the cleanup ("dirty"): a point that has never been retrieved is otherwise removed
        // again when the whole run takes less than a second (its LastAttempt time, whole seconds, is then
        // earlier than the run's start time)
        let r1 = spawn_child(&["run".into(), dir.display().to_string(), "d".into()], None, None);
        assert_eq!(child_json(&r1)["result"], "ok", "first run: {}\n{}", r1.stdout, r1.stderr);
        // a temporary file left behind by some earlier crash
        std::fs::create_dir_all(dir.join("cache/stored/tmp")).unwrap();
        std::fs::write(dir.join("cache/stored/tmp/left7"), b"").unwrap();
        world.serve_step(1).unwrap();
        let refdir = tmp.path().join("reference");
        copy_dir(&dir, &refdir);
        let r2 = spawn_child(&["run".into(), refdir.display().to_string(), "-".into()], None, None);
        let j2 = child_json(&r2);
        assert_eq!(j2["result"], "ok", "reference run: {}\n{}", r2.stdout, r2.stderr);
        let expected = serde_json::to_value(expected_fresh(&built.truth, &ServePlan::step(1), &RunCfg::default())).unwrap();
        assert_eq!(j2["payload"], expected, "reference payload differs from the ground truth");
        let n = |ca: &str, v: usize| n_objects(&built, ca, v);
        // what the two runs do to the store, in the model's vocabulary (points: A=0 A1=1 A2=2 A3=3 B=4 B1=5)
        let init_acts = format!(
            "[UTa 0 0; UOpen 0; UUpdate 0 0 {} 0 true; UOpen 1; UUpdate 1 0 {} 0 true; UOpen 2; \
              UTa 1 0; UOpen 4; UUpdate 4 0 {} 0 true; UOpen 5; UDone; UTouch (PTmp 7)]",
            n("A", 0), n("A1", 0), n("B", 0));
        let run_acts = format!(
            "[UTa 0 1; UOpen 0; UUpdate 0 1 {} 0 true; UOpen 1; UUpdate 1 1 {} 0 true; UOpen 2; UUpdate 2 1 {} 0 true; \
              UOpen 3; UUpdate 3 0 {} 0 true; UTa 1 0; UOpen 4; UUpdate 4 1 {} 0 true; URemove (PPoint 5); URemove (PTmp 7); UDone]",
            n("A", 1), n("A1", 1), n("A2", 1), n("A3", 0), n("B", 1));
        Template { _tmp: tmp, dir, built, reference: j2["payload"].clone(), labels: r2.kill_log.clone(), run_acts, init_acts }
    })
}

fn run_e2e(input: &Value) -> CaseOut {
    let t = template();
    let k = input["k"].as_u64().unwrap();
    let cut = input["cut"].as_u64();
    let tmp = tempfile::Builder::new().prefix("c23c-").tempdir().unwrap();
    let dir = tmp.path().join("d");
    copy_dir(&t.dir, &dir);
    // run 2, killed
    let out = spawn_child(&["run".into(), dir.display().to_string(), "-".into()], Some(k), cut);
    let u = e2e_universe(&dir, &t.built);
    // ---- the crash state, read back
    let mut views = Vec::new();
    let mut jviews = serde_json::Map::new();
    let (sj, sc) = status_view(&dir.join("cache"));
    jviews.insert("status".into(), sj);
    views.push(format!("(PStatus, OStatus {})", sc));
    let mut plan = ServePlan::step(0);
    for (i, p, uri, _) in &u.points {
        let ca = t.built.truth.cas.iter().find(|c| c.id == CAS[*i as usize]).unwrap();
        let ident = |m: &[u8]| -> u64 {
            let sha = hex(DigestAlgorithm::default().digest(m).as_ref());
            ca.versions.iter().position(|v| v.mft.sha256 == sha).map(|v| v as u64).unwrap_or(99)
        };
        let obj = |v: u64, o: &str| -> u64 {
            // objects are numbered by their position among the listed entries of that version, the CRL comes last
            ca.versions.get(v as usize).and_then(|v| {
                let listed: Vec<&str> = v.entries.iter().filter(|e| e.listed).map(|e| e.uri.as_str()).collect();
                if o == ca.crl_uri && v.crl.listed { Some(listed.len()) } else { listed.iter().position(|e| *e == o) }
            }).map(|p| p as u64).unwrap_or(99)
        };
        let (j, c) = open_view(p, uri, None, tmp.path(), &ident, &obj, true);
        plan.ca_version.insert(ca.id.clone(), j.get("version").and_then(|v| v.as_u64()).map(|v| v as usize));
        jviews.insert(format!("point.{}", ca.id), j);
        views.push(format!("(PPoint {}, OPoint {})", i, c));
    }
    for (i, _, uri) in &u.tas {
        let files = &t.built.ta_files[*i as usize][0];
        let ident = |b: &[u8]| files.iter().position(|f| f.as_ref().map(|f| f.bytes.as_ref() == b).unwrap_or(false)).map(|v| v as u64);
        let (j, c) = ta_view(&dir.join("cache"), uri, &ident);
        if *i == 0 { plan.step = j.get("version").and_then(|v| v.as_u64()).unwrap_or(0) as usize; }
        jviews.insert(format!("ta{}", i), j);
        views.push(format!("(PTa {}, OTa {})", i, c));
    }
    // ---- the next commands, each in a fresh process on (a copy of) the crash state
    // (1) `routinator vrps --update-after 600`
    let d_ua = tmp.path().join("ua");
    copy_dir(&dir, &d_ua);
    let ua = spawn_child(&["vrps".into(), d_ua.display().to_string()], None, None);
    let ua_exit = ua.stdout.lines().find_map(|l| l.strip_prefix("RESULT exit=")).map(|s| s.to_string())
        .unwrap_or_else(|| format!("died: {}", ua.status));
    // (2) a run without updates: exactly what the store holds (every point in its old or its new version)
    let d_nu = tmp.path().join("nu");
    copy_dir(&dir, &d_nu);
    let nu = child_json(&spawn_child(&["run".into(), d_nu.display().to_string(), "n".into()], None, None));
    let nu_expected = serde_json::to_value(expected_fresh(&t.built.truth, &plan, &RunCfg::default())).unwrap();
    // (3) the next full run
    let next = child_json(&spawn_child(&["run".into(), dir.display().to_string(), "-".into()], None, None));
    let ua_ok = ua_exit == "0";
    let nu_ok = nu["result"] == "ok" && nu["payload"] == nu_expected;
    let next_ok = next["result"] == "ok" && next["payload"] == t.reference;
    let labels: Vec<u64> = out.kill_log.iter().map(|l| label_code(l.split('|').next().unwrap())).collect();
    let coq = format!(
        "{{| c_init := {}; c_run := {}; c_k := {}; c_cut := {}; o_killed := {}; o_labels := {}; o_fs := None; o_views := {}; o_next_ok := {} |}}",
        t.init_acts, t.run_acts, k, coq_opt(cut.map(|c| c.to_string())), coq_bool(out.killed), coq_nlist(labels.iter()),
        format!("[{}]", views.join("; ")), coq_bool(ua_ok && nu_ok && next_ok));
    let obs = json!({"killed": out.killed, "kill_point": out.kill_log.last(), "views": jviews,
                     "update_after_exit": ua_exit, "noupdate_result": nu["result"], "noupdate_payload_as_store": nu_ok,
                     "next_result": next["result"], "next_payload_as_uninterrupted": next_ok});
    CaseOut { obs, coq, nontrivial: out.killed }
}

fn gen_e2e(_rng: &mut Rng, tier: &str) -> Vec<(String, Value)> {
    let t = template();
    let mut cases = Vec::new();
    for (idx, l) in t.labels.iter().enumerate() {
        let k = idx as u64 + 1;
        let id = l.split('|').next().unwrap();
        cases.push((format!("e2e.{}", id), json!({"stream": "e2e", "k": k, "cut": null})));
        let code = label_code(id);
        if is_write_label(code) {
            // writes to the temporary file of a point update are invisible to every reader: quick tier = one
            // torn write per kind
            let tmp_write = matches!(code, 6 | 7 | 8);
            let first = !t.labels[..idx].iter().any(|x| x.split('|').next().unwrap() == id);
            let cuts: &[u64] = if tier == "thorough" { &[0, 1, 2, 3] } else if !tmp_write { &[1, 3] } else if first { &[1] } else { &[] };
            for c in cuts { cases.push((format!("e2e.{}.cut", id), json!({"stream": "e2e", "k": k, "cut": c}))); }
        }
    }
    cases.push(("e2e.uninterrupted".into(), json!({"stream": "e2e", "k": t.labels.len() as u64 + 1, "cut": null})));
    cases
}

//============ main ==================================================================================

fn gen(rng: &mut Rng, tier: &str) -> Vec<(String, Value)> {
    match std::env::var("C23_STREAM").as_deref() { Ok("e2e") => gen_e2e(rng, tier), _ => gen_unit(rng, tier) }
}

fn run(input: &Value) -> CaseOut {
    match input["stream"].as_str() { Some("e2e") => run_e2e(input), _ => run_unit(input) }
}

fn main() {
    act_as_rsync_if_child();
    let a: Vec<String> = std::env::args().collect();
    if a.get(1).map(|s| s.as_str()) == Some("child") {
        let dir = PathBuf::from(&a[3]);
        match a[2].as_str() {
            "run" => child_run(&dir, &a[4]),
            "vrps" => child_vrps(&dir),
            "unit" => child_unit(&dir, &serde_json::from_str(&a[4]).unwrap()),
            x => panic!("unknown child mode {}", x),
        }
    }
    drive_par(gen, run, 8);
    // the template lives in a static and is never dropped: remove its directory by hand
    if let Some(t) = TEMPLATE.get() { let _ = std::fs::remove_dir_all(t._tmp.path()); }
}
