//! C21: `routinator::output::{Output, OutputFormat, Selection}` on generated
//! payload snapshots vs the Coq model (coq/C21).
//!
//! One case = one (data set, selection, exclusion flags, format).  The data set
//! is built with `PayloadSnapshot::new` from items whose `PayloadInfo` chains
//! carry generated TAL names (`PublishInfo` + `TalInfo::from_name`), exception
//! comments and paths; it is read back through the snapshot's own iterators so
//! that the model sees exactly what the formatter iterates.  The output bytes
//! go to Coq; independently every output is read back by a per-format reader
//! (serde_json, `LocalExceptions::from_json` / `SlurmFile`, line parsers) and
//! the items found are given to Coq as the "listed" observation.
use std::net::IpAddr;
use std::path::Path;
use std::str::FromStr;
use std::sync::Arc;
use bytes::Bytes;
use chrono::{DateTime, Utc};
use routinator::metrics::Metrics;
use routinator::output::{Output, OutputFormat, Selection};
use routinator::payload::{PayloadInfo, PayloadSnapshot, PublishInfo};
use routinator::slurm::{ExceptionInfo, LocalExceptions};
use routinator::utils::date::format_iso_date;
use rpki::crypto::KeyIdentifier;
use rpki::repository::tal::TalInfo;
use rpki::repository::x509::{Time, Validity};
use rpki::resources::addr::{MaxLenPrefix, Prefix};
use rpki::resources::asn::Asn;
use rpki::rtr::payload::{Aspa, RouteOrigin, RouterKey};
use rpki::rtr::pdu::{ProviderAsns, RouterKeyInfo};
use rpki::uri;
use rv_harness::util::{coq_bool, coq_list, coq_nlist, coq_opt, drive, CaseOut, Rng};
use serde_json::{json, Value};

const FORMATS: &[&str] = &["csv", "csvcompat", "csvext", "json", "jsonext", "slurm", "slurm2", "openbgpd", "bird1", "bird2",
                           "rpsl", "summary", "none"];
/// formats whose lines show the TAL name unquoted: TAL names with line breaks are kept away from them
const TAL_LINE_FORMATS: &[&str] = &["csv", "csvcompat", "rpsl", "summary"];

fn coq_format(f: &str) -> &'static str {
    match f {
        "csv" => "Csv", "csvcompat" => "CompatCsv", "csvext" => "ExtendedCsv", "json" => "Json", "jsonext" => "ExtendedJson",
        "slurm" => "Slurm", "slurm2" => "Slurm2", "openbgpd" => "Openbgpd", "bird1" => "Bird1", "bird2" => "Bird2",
        "rpsl" => "Rpsl", "summary" => "Summary", "none" => "NoOutput", x => panic!("format {}", x),
    }
}

/// Coq list of bytes by name (Base/ByteNames.v: B00 .. Bff).
fn coq_bytes(b: &[u8]) -> String {
    let mut s = String::with_capacity(b.len() * 4 + 2);
    s.push('[');
    for (i, x) in b.iter().enumerate() {
        if i > 0 { s.push(';') }
        s.push_str(&format!("B{:02x}", x));
    }
    s.push(']');
    s
}
fn coq_str(s: &str) -> String { coq_bytes(s.as_bytes()) }
fn coq_ostr(s: Option<String>) -> String { coq_opt(s.map(|x| coq_str(&x))) }

//------------ building the data set -------------------------------------------

fn time_of(ts: i64) -> Time { Time::new(DateTime::<Utc>::from_timestamp(ts, 0).expect("timestamp")) }

fn payload_info(chain: &Value) -> PayloadInfo {
    let chain = chain.as_array().expect("info chain");
    let mk = |v: &Value| -> Result<Arc<PublishInfo>, Arc<ExceptionInfo>> {
        if let Some(p) = v.get("pub") {
            let t: Vec<i64> = p["t"].as_array().unwrap().iter().map(|x| x.as_i64().unwrap()).collect();
            Ok(Arc::new(PublishInfo {
                tal: TalInfo::from_name(p["tal"].as_str().unwrap().to_string()).into_arc(),
                uri: p["uri"].as_str().map(|u| uri::Rsync::from_str(u).expect("rsync uri")),
                roa_validity: Validity::new(time_of(t[0]), time_of(t[1])),
                chain_validity: Validity::new(time_of(t[2]), time_of(t[3])),
                point_stale: time_of(t[4]),
            }))
        } else {
            let e = &v["exc"];
            Err(Arc::new(ExceptionInfo {
                path: e["path"].as_str().map(|p| Arc::from(Path::new(p))),
                comment: e["comment"].as_str().map(|c| c.to_string()),
            }))
        }
    };
    let mut info = match mk(&chain[0]) { Ok(p) => PayloadInfo::from(p), Err(e) => PayloadInfo::from(e) };
    // add_published / add_local insert right behind the head
    for v in chain[1..].iter().rev() {
        match mk(v) { Ok(p) => info.add_published(p), Err(e) => info.add_local(e) }
    }
    info
}

fn snapshot_of(input: &Value) -> PayloadSnapshot {
    let infos = input["infos"].as_array().expect("infos");
    let info = |i: &Value| payload_info(&infos[i.as_u64().unwrap() as usize]);
    let e = vec![];
    let s = &input["snapshot"];
    PayloadSnapshot::new(
        s["origins"].as_array().unwrap_or(&e).iter().map(|v| {
            let p = Prefix::from_str(v[0].as_str().unwrap()).expect("prefix");
            let ml = v[1].as_u64().map(|x| x as u8);
            (RouteOrigin::new(MaxLenPrefix::new(p, ml).expect("maxlen"), Asn::from_u32(v[2].as_u64().unwrap() as u32)), info(&v[3]))
        }),
        s["keys"].as_array().unwrap_or(&e).iter().map(|v| {
            let ski = [v[0].as_u64().unwrap() as u8; 20];
            let ki: Vec<u8> = v[2].as_array().unwrap().iter().map(|x| x.as_u64().unwrap() as u8).collect();
            (RouterKey::new(KeyIdentifier::from(ski), Asn::from_u32(v[1].as_u64().unwrap() as u32),
                            RouterKeyInfo::new(Bytes::from(ki)).expect("keyinfo")), info(&v[3]))
        }),
        s["aspas"].as_array().unwrap_or(&e).iter().map(|v| {
            let provs = v[1].as_array().unwrap().iter().map(|x| Asn::from_u32(x.as_u64().unwrap() as u32));
            (Aspa::new(Asn::from_u32(v[0].as_u64().unwrap() as u32), ProviderAsns::try_from_iter(provs).expect("providers")), info(&v[2]))
        }),
        None,
    )
}

fn prefix_parts(p: Prefix) -> (bool, u128, u8) {
    match p.addr() {
        IpAddr::V4(a) => (true, (u32::from(a) as u128) << 96, p.len()),
        IpAddr::V6(a) => (false, u128::from(a), p.len()),
    }
}

fn coq_src(info: &PayloadInfo) -> String {
    coq_list(info.iter(), |node| {
        if let Some(p) = node.publish_info() {
            let d = |t: Time| coq_str(&format_iso_date(t.into()).to_string());
            format!("SrcPub {} {} {} {} {} {} {}", coq_str(p.tal.name()), coq_ostr(p.uri.as_ref().map(|u| u.to_string())),
                d(p.roa_validity.not_before()), d(p.roa_validity.not_after()),
                d(p.chain_validity.not_before()), d(p.chain_validity.not_after()), d(p.point_stale))
        } else {
            let e = node.exception_info().unwrap();
            format!("SrcExc {} {}", coq_ostr(e.path.as_ref().map(|p| p.display().to_string())), coq_ostr(e.comment.clone()))
        }
    })
}

fn coq_snapshot(s: &PayloadSnapshot) -> String {
    let origins = coq_list(s.origins(), |(o, info)| {
        let (v4, bits, len) = prefix_parts(o.prefix.prefix());
        format!("{{| o_asn := {}; o_v4 := {}; o_bits := {}; o_len := {}; o_maxlen := {}; o_addr := {}; o_src := {} |}}",
            o.asn.into_u32(), coq_bool(v4), bits, len, coq_opt(o.prefix.max_len().map(|m| m.to_string())),
            coq_str(&o.prefix.addr().to_string()), coq_src(info))
    });
    let keys = coq_list(s.router_keys(), |(k, info)| {
        format!("{{| k_asn := {}; k_ski_hex := {}; k_info_b64 := {}; k_ski_b64 := {}; k_src := {} |}}",
            k.asn.into_u32(), coq_str(&k.key_identifier.to_string()), coq_str(&k.key_info.to_string()),
            coq_str(&rpki::util::base64::Slurm.display(k.key_identifier.as_slice()).to_string()), coq_src(info))
    });
    let aspas = coq_list(s.aspas(), |(a, info)| {
        format!("{{| a_cust := {}; a_provs := {}; a_src := {} |}}",
            a.customer.into_u32(), coq_nlist(a.providers.iter().map(|p| p.into_u32())), coq_src(info))
    });
    format!("{{| origins := {}; rkeys := {}; aspas := {} |}}", origins, keys, aspas)
}

//------------ the selection ---------------------------------------------------

/// Builds the `Output` either through the API or through the HTTP query syntax; returns it with the Coq `output` term.
fn output_of(input: &Value) -> (Output, String) {
    let flags: Vec<bool> = input["flags"].as_array().unwrap().iter().map(|b| b.as_bool().unwrap()).collect();
    let sel = &input["select"];
    let via_query = input["via_query"].as_bool().unwrap_or(false);
    let res: Vec<&Value> = sel.get("res").and_then(|r| r.as_array()).map(|a| a.iter().collect()).unwrap_or_default();
    let more = sel.get("more").and_then(|m| m.as_bool()).unwrap_or(false);
    let coq_res = coq_list(res.iter(), |r| {
        if r[0] == "asn" { format!("SelAsn {}", r[1].as_u64().unwrap()) } else {
            let (v4, bits, len) = prefix_parts(Prefix::from_str(r[1].as_str().unwrap()).expect("select prefix"));
            format!("SelPrefix {} {} {}", coq_bool(v4), bits, len)
        }
    });
    let out;
    let has_sel;
    if via_query {
        let mut q: Vec<String> = Vec::new();
        for (i, r) in res.iter().enumerate() {
            let legacy = i % 3 == 2;      // the filter-* spellings are accepted too
            if r[0] == "asn" { q.push(format!("{}={}", if legacy { "filter-asn" } else { "select-asn" }, r[1].as_u64().unwrap())) }
            else { q.push(format!("{}={}", if legacy { "filter-prefix" } else { "select-prefix" }, r[1].as_str().unwrap().replace(':', "%3A").replace('/', "%2F"))) }
        }
        if more { q.push("include=more-specifics".into()) }
        let ex: Vec<&str> = [(flags[0], "routeOrigins"), (flags[1], "routerKeys"), (flags[2], "aspas")].iter().filter(|x| !x.0).map(|x| x.1).collect();
        if !ex.is_empty() { q.push(format!("exclude={}", ex.join(","))) }
        let q = q.join("&");
        out = Output::from_query(if sel.is_null() && q.is_empty() { None } else { Some(&q) }).expect("query");
        has_sel = !res.is_empty();          // update_from_query installs a selection only if it has resources
    } else {
        let mut o = Output::new();
        if !sel.is_null() {
            let mut s = Selection::new();
            for r in &res {
                if r[0] == "asn" { s.push_asn(Asn::from_u32(r[1].as_u64().unwrap() as u32)) }
                else { s.push_prefix(Prefix::from_str(r[1].as_str().unwrap()).unwrap()) }
            }
            s.set_more_specifics(more);
            o.set_selection(s);
        }
        if !flags[0] { o.no_route_origins() }
        if !flags[1] { o.no_router_keys() }
        if !flags[2] { o.no_aspas() }
        out = o;
        has_sel = !sel.is_null();
    }
    let coq_sel = if has_sel { format!("(Some {{| s_res := {}; s_more := {} |}})", coq_res, coq_bool(more)) } else { "None".to_string() };
    (out, format!("{{| out_sel := {}; out_origins := {}; out_keys := {}; out_aspas := {} |}}",
        coq_sel, coq_bool(flags[0]), coq_bool(flags[1]), coq_bool(flags[2])))
}

//------------ reading outputs back --------------------------------------------

#[derive(Debug)]
enum Listed { O(u32, bool, u128, u8, u8), K(u32, String, String), A(u32, Vec<u32>) }

fn lo(asn: u32, prefix: &str, ml: Option<u8>) -> Result<Listed, String> {
    let p = Prefix::from_str(prefix).map_err(|_| format!("bad prefix {:?}", prefix))?;
    let (v4, bits, len) = prefix_parts(p);
    Ok(Listed::O(asn, v4, bits, len, ml.unwrap_or(len)))
}
fn asn_of(s: &str) -> Result<u32, String> {
    s.strip_prefix("AS").and_then(|x| x.parse::<u32>().ok()).ok_or_else(|| format!("bad ASN {:?}", s))
}
fn num<T: FromStr>(s: &str) -> Result<T, String> { s.parse::<T>().map_err(|_| format!("bad number {:?}", s)) }

fn read_back(fmt: &str, bytes: &[u8]) -> Result<Vec<Listed>, String> {
    let text = std::str::from_utf8(bytes).map_err(|_| "output is not UTF-8".to_string())?;
    let mut out = Vec::new();
    match fmt {
        "csv" | "csvcompat" | "csvext" => {
            let mut lines = text.split_terminator('\n');
            let header = lines.next().ok_or("no header line")?;
            let want = match fmt { "csv" => "ASN,IP Prefix,Max Length,Trust Anchor", "csvcompat" => "\"ASN\",\"IP Prefix\",\"Max Length\",\"Trust Anchor\"",
                                   _ => "URI,ASN,IP Prefix,Max Length,Not Before,Not After" };
            if header != want { return Err(format!("header line {:?}", header)) }
            for l in lines {
                let f: Vec<&str> = match fmt {
                    "csv" => l.splitn(4, ',').collect(),
                    "csvcompat" => {
                        let l = l.strip_prefix('"').ok_or_else(|| format!("line {:?}", l))?;
                        l.splitn(4, "\",\"").collect()
                    }
                    _ => { let f: Vec<&str> = l.split(',').collect(); if f.len() != 6 { return Err(format!("line {:?}", l)) } f[1..4].to_vec() }
                };
                if f.len() < 3 { return Err(format!("line {:?}", l)) }
                out.push(lo(asn_of(f[0])?, f[1], Some(num(f[2])?))?);
            }
        }
        "json" | "jsonext" => {
            let v: Value = serde_json::from_str(text).map_err(|e| format!("serde_json: {}", e))?;
            for r in v.get("roas").and_then(|x| x.as_array()).unwrap_or(&vec![]) {
                out.push(lo(asn_of(r["asn"].as_str().ok_or("asn")?)?, r["prefix"].as_str().ok_or("prefix")?,
                            Some(r["maxLength"].as_u64().ok_or("maxLength")? as u8))?);
            }
            for k in v.get("routerKeys").and_then(|x| x.as_array()).unwrap_or(&vec![]) {
                out.push(Listed::K(asn_of(k["asn"].as_str().ok_or("asn")?)?, k["SKI"].as_str().ok_or("SKI")?.to_string(),
                                   k["routerPublicKey"].as_str().ok_or("routerPublicKey")?.to_string()));
            }
            for a in v.get("aspas").and_then(|x| x.as_array()).unwrap_or(&vec![]) {
                let mut ps = Vec::new();
                for p in a["providers"].as_array().ok_or("providers")? { ps.push(asn_of(p.as_str().ok_or("provider")?)?) }
                out.push(Listed::A(asn_of(a["customer"].as_str().ok_or("customer")?)?, ps));
            }
        }
        "slurm" | "slurm2" => {
            // the reader routinator itself uses for exception files
            let ex = LocalExceptions::from_json(text, true).map_err(|e| format!("LocalExceptions::from_json: {}", e))?;
            for (o, _) in ex.origin_assertions() {
                let (v4, bits, len) = prefix_parts(o.prefix.prefix());
                out.push(Listed::O(o.asn.into_u32(), v4, bits, len, o.prefix.resolved_max_len()));
            }
            for (k, _) in ex.router_key_assertions() {
                out.push(Listed::K(k.asn.into_u32(), k.key_identifier.to_string(), k.key_info.to_string()));
            }
            let sf = rpki::slurm::SlurmFile::from_str(text).map_err(|e| format!("SlurmFile: {}", e))?;
            if let Some(aspas) = sf.assertions.aspa.as_ref() {
                for a in aspas {
                    out.push(Listed::A(a.customer_asn.into_u32(), a.provider_asns.iter().map(|p| p.into_u32()).collect()));
                }
            }
            if !sf.filters.prefix.is_empty() || !sf.filters.bgpsec.is_empty() { return Err("filters not empty".into()) }
        }
        "openbgpd" => {
            let mut lines = text.split_terminator('\n');
            if lines.next() != Some("roa-set {") { return Err("first line".into()) }
            let mut closed = false;
            for l in lines {
                if closed { return Err("text after closing brace".into()) }
                if l == "}" { closed = true; continue }
                let w: Vec<&str> = l.split_whitespace().collect();
                match w.as_slice() {
                    [p, "source-as", a] => out.push(lo(num(a)?, p, None)?),
                    [p, "maxlen", m, "source-as", a] => out.push(lo(num(a)?, p, Some(num(m)?))?),
                    _ => return Err(format!("line {:?}", l)),
                }
            }
            if !closed { return Err("no closing brace".into()) }
        }
        "bird1" | "bird2" => {
            let kw = if fmt == "bird1" { "roa" } else { "route" };
            for l in text.split_terminator('\n') {
                let l = l.strip_suffix(';').ok_or_else(|| format!("line {:?}", l))?;
                let w: Vec<&str> = l.split_whitespace().collect();
                match w.as_slice() {
                    [k, p, "max", m, "as", a] if *k == kw => out.push(lo(num(a)?, p, Some(num(m)?))?),
                    _ => return Err(format!("line {:?}", l)),
                }
            }
        }
        "rpsl" => {
            // blocks: empty line, route(6), origin, descr, mnt-by, created, last-modified, source, empty line
            let lines: Vec<&str> = text.split_terminator('\n').collect();
            if lines.len() % 9 != 0 { return Err(format!("{} lines", lines.len())) }
            for b in lines.chunks(9) {
                if !b[0].is_empty() || !b[8].is_empty() || b[3] != "descr: RPKI attestation" || b[4] != "mnt-by: NA"
                    || !b[5].starts_with("created: ") || !b[6].starts_with("last-modified: ") || !b[7].starts_with("source: ROA-") {
                    return Err(format!("block {:?}", b))
                }
                let p = b[1].strip_prefix("route: ").or_else(|| b[1].strip_prefix("route6: ")).ok_or_else(|| format!("line {:?}", b[1]))?;
                let o = lo(asn_of(b[2].strip_prefix("origin: ").ok_or("origin")?)?, p, Some(0))?;
                if let Listed::O(_, v4, ..) = &o { if *v4 != b[1].starts_with("route: ") { return Err("route/route6 mismatch".into()) } }
                out.push(match o { Listed::O(a, v, b, l, _) => Listed::O(a, v, b, l, 0), x => x });
            }
        }
        "summary" => { if !text.starts_with("Summary at ") { return Err("summary header".into()) } }
        "none" => { if !text.is_empty() { return Err("none wrote something".into()) } }
        x => panic!("format {}", x),
    }
    Ok(out)
}

fn coq_listed(l: &[Listed]) -> String {
    coq_list(l.iter(), |x| match x {
        Listed::O(a, v4, bits, len, ml) => format!("LO {} {} {} {} {}", a, coq_bool(*v4), bits, len, ml),
        Listed::K(a, ski, info) => format!("LK {} {} {}", a, coq_str(ski), coq_str(info)),
        Listed::A(c, ps) => format!("LA {} {}", c, coq_nlist(ps.iter())),
    })
}

//------------ one case ----------------------------------------------------------

fn run(input: &Value) -> CaseOut {
    let fmt = input["format"].as_str().expect("format");
    let snapshot = Arc::new(snapshot_of(input));
    let (output, coq_out) = output_of(input);
    let ts = input["ts"].as_i64().unwrap_or(0);
    let mut metrics = Metrics::new();
    metrics.time = DateTime::<Utc>::from_timestamp(ts, 0).unwrap();
    let time_txt = format_iso_date(metrics.time).to_string();
    let metrics = Arc::new(metrics);
    let format = OutputFormat::from_str(fmt).expect("format name");
    let res = std::panic::catch_unwind(std::panic::AssertUnwindSafe(|| {
        let mut buf = Vec::new();
        output.write(snapshot.clone(), metrics.clone(), format, &mut buf).map(|_| buf)
    }));
    let bytes = match res { Ok(Ok(b)) => b, Ok(Err(_)) => b"<io error>".to_vec(), Err(_) => b"<panic>".to_vec() };
    let listed = read_back(fmt, &bytes);
    let (listed, err) = match listed { Ok(l) => (l, None), Err(e) => (Vec::new(), Some(e)) };
    // bytes of the formats whose bytes are not modelled stay out of the Coq case
    let modelled = !matches!(fmt, "csvext" | "rpsl" | "summary");
    let obs = json!({
        "output": String::from_utf8_lossy(&bytes), "listed": format!("{:?}", listed), "reader_error": err,
    });
    let coq = format!(
        "{{| c_fmt := {}; c_meta := {{| m_ts := {}; m_time := {} |}}; c_out := {}; c_snap := {}; c_impl := {{| o_bytes := {}; o_listed := {} |}}; c_side := {} |}}",
        coq_format(fmt), ts, coq_str(&time_txt), coq_out, coq_snapshot(&snapshot),
        if modelled { coq_bytes(&bytes) } else { "[]".to_string() }, coq_listed(&listed), coq_bool(err.is_none()));
    CaseOut { obs, coq, nontrivial: !listed.is_empty() }
}

//------------ generators ----------------------------------------------------------

const SPECIAL: &[char] = &['"', '\\', '\n', '\r', '\t', '\0', '\u{1}', '\u{1f}', '\u{7f}', '\u{2028}', 'é', '😀', ',', ' ', '}', '/',
    // C1 controls (char::is_control is true for them, they are multi-byte in UTF-8), NBSP, the ends of the planes
    '\u{80}', '\u{85}', '\u{9f}', '\u{a0}', '\u{ffff}', '\u{10ffff}'];

fn nasty(rng: &mut Rng, max: u64, linebreaks: bool) -> String {
    let n = rng.below(max + 1);
    let mut s = String::new();
    for _ in 0..n {
        let c = match rng.below(6) {
            0 | 1 => *rng.pick(SPECIAL),
            2 => char::from_u32(rng.below(0x20) as u32).unwrap(),
            _ => (b'a' + rng.below(26) as u8) as char,
        };
        if !linebreaks && (c == '\n' || c == '\r') { s.push('_') } else { s.push(c) }
    }
    s
}

struct Pool { origins: Vec<Value>, keys: Vec<Value>, aspas: Vec<Value>, infos: Vec<Value> }

fn gen_info(rng: &mut Rng, linebreaks: bool, tal_pool: &[String]) -> Value {
    let n = 1 + rng.below(5) / 2;
    let mut chain = Vec::new();
    for _ in 0..n {
        if rng.chance(2, 3) {
            let t0 = 1_500_000_000 + rng.below(300_000_000) as i64;
            chain.push(json!({"pub": {"tal": rng.pick(tal_pool), "uri": if rng.chance(1, 4) { Value::Null } else { json!(format!("rsync://repo{}.example.net/mod/{}.roa", rng.below(4), rng.below(1000))) },
                                       "t": [t0, t0 + 86400, t0 - 1000, t0 + 50000, t0 + 7200]}}));
        } else {
            chain.push(json!({"exc": {"path": if rng.chance(1, 2) { Value::Null } else { json!(format!("/etc/routinator/{}.json", nasty(rng, 6, true))) },
                                       "comment": if rng.chance(1, 3) { Value::Null } else { json!(nasty(rng, 10, linebreaks)) }}}));
        }
    }
    json!(chain)
}

/// A pool of payload around a few base prefixes so that covering / covered / unrelated prefixes all occur.
fn gen_pool(rng: &mut Rng, linebreaks: bool) -> Pool {
    let mut tal_pool: Vec<String> = vec!["ripe".into(), "arin".into()];
    for _ in 0..3 { tal_pool.push(nasty(rng, 8, linebreaks)) }
    tal_pool.push("x\"y".into());
    tal_pool.push("back\\slash".into());
    let mut infos = Vec::new();
    for _ in 0..8 { infos.push(gen_info(rng, linebreaks, &tal_pool)) }
    let asns = [64496u32, 64497, 64498, 0, 4294967295];
    let mut origins = Vec::new();
    let bases4: [(u32, u8); 3] = [(0x0A000000, 8), (0xC0000200, 24), (0xC6336400, 24)];
    for (b, l) in bases4 {
        for &len in &[l.saturating_sub(4), l, l + 4, 32] {
            let len = len.min(32);
            let sub = if len > l { (rng.below(1 << (len - l).min(16)) as u32) << (32 - len) } else { 0 };
            let addr = (b | sub) & (if len == 0 { 0 } else { !0u32 << (32 - len) });
            let ml = if rng.chance(1, 2) { Value::Null } else { json!(rng.range(len as u64, 32)) };
            origins.push(json!([format!("{}/{}", std::net::Ipv4Addr::from(addr), len), ml, *rng.pick(&asns), rng.below(8)]));
        }
    }
    let bases6: [(u128, u8); 2] = [(0x2001_0db8u128 << 96, 32), (0x2001_0db8_00ff_u128 << 80, 48)];
    for (b, l) in bases6 {
        for &len in &[l - 8, l, l + 16, 128] {
            let sub = if len > l { (rng.next() as u128 & ((1u128 << (len - l).min(60)) - 1)) << (128 - len) } else { 0 };
            let addr = (b | sub) & (!0u128 << (128 - len));
            let ml = if rng.chance(1, 2) { Value::Null } else { json!(rng.range(len as u64, 128)) };
            origins.push(json!([format!("{}/{}", std::net::Ipv6Addr::from(addr), len), ml, *rng.pick(&asns), rng.below(8)]));
        }
    }
    origins.push(json!(["0.0.0.0/0", null, 64496, 0]));
    origins.push(json!(["::/0", 0, 64497, 1]));
    let mut keys = Vec::new();
    for i in 0..4u64 {
        let kl = rng.range(1, 8) as usize;
        let ki: Vec<u8> = (0..kl).map(|_| rng.below(256) as u8).collect();
        keys.push(json!([i * 37 % 256, *rng.pick(&asns), ki, rng.below(8)]));
    }
    let mut aspas = Vec::new();
    for (i, c) in [64496u32, 64497, 65000, 65010].iter().enumerate() {
        let mut provs: Vec<u32> = (0..rng.below(4)).map(|k| 100 + (k as u32) * 7 + i as u32).collect();
        provs.sort(); provs.dedup();
        aspas.push(json!([c, provs, rng.below(8)]));
    }
    Pool { origins, keys, aspas, infos }
}

fn pick_snapshot(rng: &mut Rng, pool: &Pool, num: u64, den: u64) -> Value {
    let mut o: Vec<Value> = pool.origins.iter().filter(|_| rng.chance(num, den)).cloned().collect();
    let mut k: Vec<Value> = pool.keys.iter().filter(|_| rng.chance(num, den)).cloned().collect();
    let mut a: Vec<Value> = pool.aspas.iter().filter(|_| rng.chance(num, den)).cloned().collect();
    rng.shuffle(&mut o); rng.shuffle(&mut k); rng.shuffle(&mut a);
    json!({"origins": o, "keys": k, "aspas": a})
}

fn gen_select(rng: &mut Rng, pool: &Pool) -> Value {
    let n = rng.below(4);
    let mut res = Vec::new();
    for _ in 0..n {
        if rng.chance(1, 2) { res.push(json!(["asn", *rng.pick(&[64496u32, 64497, 64498, 65000, 1, 0, 4294967295])])) }
        else {
            // the prefix of a pool origin, a covering one, a more specific one, or an unrelated one
            let p = Prefix::from_str(rng.pick(&pool.origins)[0].as_str().unwrap()).unwrap();
            let (v4, bits, len) = prefix_parts(p);
            let full = if v4 { 32 } else { 128 };
            let nl = match rng.below(4) { 0 => len, 1 => len.saturating_sub(rng.range(1, 8) as u8), 2 => (len + rng.range(1, 8) as u8).min(full), _ => rng.below(full as u64 + 1) as u8 };
            let mut nb = if nl == 0 { 0 } else { bits & (!0u128 << (128 - nl as u32)) };
            if rng.chance(1, 5) && nl > 0 { nb ^= 1u128 << (128 - nl as u32) }      // sibling
            let txt = if v4 { format!("{}/{}", std::net::Ipv4Addr::from((nb >> 96) as u32), nl) } else { format!("{}/{}", std::net::Ipv6Addr::from(nb), nl) };
            res.push(json!(["prefix", txt]));
        }
    }
    json!({"res": res, "more": rng.chance(1, 2)})
}

fn gen(rng: &mut Rng, tier: &str) -> Vec<(String, Value)> {
    let mut cases = Vec::new();
    let mut scenario = |cases: &mut Vec<(String, Value)>, class: &str, snap: Value, infos: &Vec<Value>, select: Value, via_query: bool,
                        flags: [bool; 3], ts: i64, linebreaks: bool, formats: &[&str]| {
        for f in formats {
            if linebreaks && TAL_LINE_FORMATS.contains(f) { continue }
            cases.push((format!("{}.{}", class, f), json!({"snapshot": snap, "infos": infos, "select": select, "via_query": via_query,
                "flags": flags, "ts": ts, "format": f})));
        }
    };
    // (a) small scope, exhaustive over the control flow: every format x every exclusion combination x {no selection, one
    //     ASN, one prefix with and without more-specifics, empty selection}, on a fixed small data set with nasty names
    let mut r = rng.fork();
    let pool = gen_pool(&mut r, false);
    let small = json!({"origins": [pool.origins[1], pool.origins[2], pool.origins[5], pool.origins[13]], "keys": [pool.keys[0], pool.keys[1]],
                       "aspas": [pool.aspas[0], pool.aspas[2]]});
    let p1 = small["origins"][1][0].clone();
    let selects = [Value::Null, json!({"res": [["asn", 64496]], "more": false}), json!({"res": [["prefix", p1]], "more": false}),
                   json!({"res": [["prefix", p1]], "more": true}), json!({"res": [], "more": true})];
    for m in 0..8u32 {
        let flags = [m & 1 != 0, m & 2 != 0, m & 4 != 0];
        // every exclusion combination with no selection; the selections with everything enabled and with one type only
        for (si, s) in selects.iter().enumerate() {
            for q in [false, true] {
                let keep = (si == 0 && !q) || m == 7 || (si == 1 && q && (m == 1 || m == 2 || m == 4));
                if !keep { continue }
                scenario(&mut cases, &format!("grid.sel{}{}", si, if q { ".query" } else { "" }), small.clone(), &pool.infos, s.clone(), q, flags, 0, false, FORMATS);
            }
        }
    }
    // (b) boundary classes: empty data set, /0 and host prefixes, duplicate items, line breaks in names (JSON formats)
    let empty = json!({"origins": [], "keys": [], "aspas": []});
    scenario(&mut cases, "boundary.empty_set", empty.clone(), &pool.infos, Value::Null, false, [true, true, true], 1, false, FORMATS);
    scenario(&mut cases, "boundary.empty_set_excluded", empty, &pool.infos, Value::Null, true, [false, false, false], 1, false, FORMATS);
    let hosts = json!({"origins": [["0.0.0.0/0", null, 1, 0], ["192.0.2.1/32", null, 2, 1], ["192.0.2.1/32", 32, 3, 2], ["::/0", null, 4, 3],
                                   ["2001:db8::1/128", null, 5, 4], ["192.0.2.0/24", 32, 2, 5]], "keys": [], "aspas": [[65000, [], 0]]});
    for (i, s) in [json!({"res": [["prefix", "192.0.2.1/32"]], "more": false}), json!({"res": [["prefix", "192.0.2.1/32"]], "more": true}),
                   json!({"res": [["prefix", "0.0.0.0/0"]], "more": true}), json!({"res": [["prefix", "::/0"]], "more": false}),
                   json!({"res": [["prefix", "2001:db8::1/128"]], "more": true}), json!({"res": [["prefix", "2001:db8::/32"], ["asn", 1]], "more": true})].iter().enumerate() {
        scenario(&mut cases, &format!("boundary.host_and_default{}", i), hosts.clone(), &pool.infos, s.clone(), i % 2 == 0, [true, true, true], 2, false, FORMATS);
    }
    let dup = json!({"origins": [pool.origins[0], pool.origins[0], pool.origins[3]], "keys": [pool.keys[0], pool.keys[0]], "aspas": [pool.aspas[1], pool.aspas[1]]});
    scenario(&mut cases, "boundary.duplicates", dup, &pool.infos, Value::Null, false, [true, true, true], 3, false, FORMATS);
    let mut r2 = rng.fork();
    let lb_pool = gen_pool(&mut r2, true);
    let lb_infos = vec![json!([{"pub": {"tal": "line\nbreak\r\n", "uri": null, "t": [0, 1, 2, 3, 4]}}]), json!([{"exc": {"path": "/tmp/a\"b\\c\n.json", "comment": "tab\there\u{0}\u{1f}"}}]),
                        json!([{"pub": {"tal": "\"", "uri": "rsync://example.net/m/x.roa", "t": [1, 2, 3, 4, 5]}}, {"exc": {"path": null, "comment": "\\"}}, {"pub": {"tal": "\\\\", "uri": null, "t": [5, 4, 3, 2, 1]}}]),
                        json!([{"exc": {"path": null, "comment": null}}])];
    let lb_snap = json!({"origins": [["10.0.0.0/8", 24, 64496, 0], ["192.0.2.0/24", null, 64497, 1], ["2001:db8::/32", 48, 64498, 2], ["198.51.100.0/24", null, 1, 3]],
                         "keys": [[1, 64496, [1, 2, 3], 0], [2, 64497, [255], 2]], "aspas": [[64496, [1, 2], 0], [64497, [], 1], [64498, [4294967295u32], 2]]});
    scenario(&mut cases, "boundary.control_chars_in_names", lb_snap, &lb_infos, Value::Null, false, [true, true, true], 4, true, FORMATS);
    // (b2) a large data set (more than any batch size an output stream may use) with a selection that admits only the
    //      last few items in snapshot order, with no selection, and with a selection that admits the first and the last
    {
        let mut o: Vec<Value> = Vec::new();
        for a in 0..6u32 { for b in 0..=255u32 { if o.len() < 1400 { o.push(json!([format!("10.{}.{}.0/24", a, b), null, 65001, (a + b) % 8])); } } }
        o.push(json!(["203.0.113.0/24", 28, 64999, 1]));
        o.push(json!(["223.255.255.0/24", null, 64999, 2]));
        o.push(json!(["2001:db8:ffff::/48", null, 64999, 3]));
        let big = json!({"origins": o, "keys": [pool.keys[0]], "aspas": [pool.aspas[0]]});
        let last_only = json!({"res": [["asn", 64999]], "more": false});
        let first_and_last = json!({"res": [["prefix", "10.0.0.0/24"], ["prefix", "223.255.255.0/24"]], "more": false});
        for q in [false, true] {
            scenario(&mut cases, "large.select_last", big.clone(), &pool.infos, last_only.clone(), q, [true, true, true], 5, false, &["json", "jsonext", "slurm", "slurm2", "csv"]);
        }
        scenario(&mut cases, "large.select_first_and_last", big.clone(), &pool.infos, first_and_last, true, [true, false, false], 5, false, &["json", "slurm"]);
        scenario(&mut cases, "large.all", big, &pool.infos, Value::Null, false, [true, true, true], 5, false, &["json", "csv"]);
    }
    // (c) structured random
    let n = if tier == "thorough" { 400 } else { 24 };
    for i in 0..n {
        let mut r = rng.fork();
        let linebreaks = i % 3 == 0;
        let pool = if linebreaks { &lb_pool } else { &pool };
        let snap = pick_snapshot(&mut r, pool, 1, 2);
        let select = if r.chance(1, 5) { Value::Null } else { gen_select(&mut r, pool) };
        let flags = [r.chance(4, 5), r.chance(4, 5), r.chance(4, 5)];
        // each random scenario through the four JSON formats and three others
        let mut fs: Vec<&str> = vec!["json", "jsonext", "slurm", "slurm2"];
        let others: Vec<&str> = FORMATS.iter().filter(|f| !fs.contains(f)).cloned().collect();
        for _ in 0..2 { fs.push(*r.pick(&others)) }
        fs.dedup();
        scenario(&mut cases, "random", snap, &pool.infos, select, r.chance(1, 2), flags, r.below(2_000_000_000) as i64, linebreaks, &fs);
    }
    cases
}

fn main() {
    std::panic::set_hook(Box::new(|_| {}));
    drive(gen, run)
}
