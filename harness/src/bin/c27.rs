//! C27: corrupt local data never crashes Routinator / never allocates far beyond the input size.
//!
//! Every case is a kind of persisted record and an arbitrary byte string.  The real decoder of /repo
//! is run on it in a *worker child process* (this binary in `worker` mode) under a counting global
//! allocator; the parent observes a result, a caught panic, or the death of the child (abort,
//! allocation failure, stack overflow) and then starts a new worker.  The Coq side (coq/C27/Spec.v)
//! runs the model decoder on the same bytes, compares result and allocation bound, and evaluates the
//! property oracle on what the implementation did.
//!
//! Stream `files` (env C27_STREAM=files): whole-file corruptions through the real
//! `Store::status` and `StoredPoint::open` + iteration (hook `StoredPoint::verif_open`).
//!
//! Stream `archives` (env C27_STREAM=archives): corrupted RRDP archive FILES (the memory-mapped format of
//! src/utils/archive.rs as used by src/collector/rrdp/archive.rs) through every reader entry point of
//! `RrdpArchive`.  Oracle only (no panic, no process death, no endless iteration, bounded allocation): there
//! is no byte-level model of the archive reader.  See `mod archives`.
#[path = "../binrec.rs"]
mod binrec;

use binrec::*;
use rv_harness::util::*;
use serde_json::{json, Value};
use std::alloc::{GlobalAlloc, Layout, System};
use std::io::{BufRead, BufReader, Read, Write};
use std::panic::{catch_unwind, AssertUnwindSafe};
use std::process::{Child, ChildStdin, ChildStdout, Command, Stdio};
use std::sync::atomic::{AtomicBool, AtomicUsize, Ordering::SeqCst};
use std::sync::Mutex;

//------------ counting allocator ------------------------------------------------

struct Counting;
static ON: AtomicBool = AtomicBool::new(false);
static CUR: AtomicUsize = AtomicUsize::new(0);
static BASE: AtomicUsize = AtomicUsize::new(0);
static PEAK: AtomicUsize = AtomicUsize::new(0);      // peak of live bytes above BASE while ON
static LARGEST: AtomicUsize = AtomicUsize::new(0);   // largest single request while ON
/// Requests above CAP made while ON are refused (null => `handle_alloc_error` => abort), after having been
/// recorded.  Only the archives worker sets it: a cyclic chain makes `verify` grow a Vec without end, and the
/// machine is shared.
static CAP: AtomicUsize = AtomicUsize::new(usize::MAX);

// Only the thread that switched the measurement on is measured: the runtime's other threads (stdio, the
// watchdog) allocate buffers of their own, which showed up as a 196608-byte "largest allocation" of a
// 7-byte input in 3 of 60374 cases of a thorough run on a loaded machine.
thread_local! { static MINE: std::cell::Cell<bool> = const { std::cell::Cell::new(false) }; }
fn mine() -> bool { MINE.try_with(|m| m.get()).unwrap_or(false) }

fn refused(size: usize) -> bool { ON.load(SeqCst) && mine() && size > CAP.load(SeqCst) }

fn note(size: usize) {
    let cur = CUR.fetch_add(size, SeqCst) + size;
    if ON.load(SeqCst) && mine() {
        LARGEST.fetch_max(size, SeqCst);
        PEAK.fetch_max(cur.saturating_sub(BASE.load(SeqCst)), SeqCst);
    }
}
unsafe impl GlobalAlloc for Counting {
    unsafe fn alloc(&self, l: Layout) -> *mut u8 {
        if refused(l.size()) { LARGEST.fetch_max(l.size(), SeqCst); return std::ptr::null_mut() }
        note(l.size()); System.alloc(l)
    }
    unsafe fn alloc_zeroed(&self, l: Layout) -> *mut u8 {
        if refused(l.size()) { LARGEST.fetch_max(l.size(), SeqCst); return std::ptr::null_mut() }
        note(l.size()); System.alloc_zeroed(l)
    }
    unsafe fn dealloc(&self, p: *mut u8, l: Layout) { CUR.fetch_sub(l.size(), SeqCst); System.dealloc(p, l) }
    unsafe fn realloc(&self, p: *mut u8, l: Layout, new: usize) -> *mut u8 {
        if refused(new) { LARGEST.fetch_max(new, SeqCst); return std::ptr::null_mut() }
        CUR.fetch_sub(l.size(), SeqCst);
        note(new);
        System.realloc(p, l, new)
    }
}
#[global_allocator]
static ALLOC: Counting = Counting;

fn m_start() { BASE.store(CUR.load(SeqCst), SeqCst); MINE.with(|m| m.set(true)); ON.store(true, SeqCst); }
fn m_stop() { ON.store(false, SeqCst); MINE.with(|m| m.set(false)); }
fn m_reset() { ON.store(false, SeqCst); PEAK.store(0, SeqCst); LARGEST.store(0, SeqCst); }

//------------ worker (child process) ----------------------------------------------

fn panic_text(p: Box<dyn std::any::Any + Send>) -> String {
    p.downcast_ref::<String>().cloned().or_else(|| p.downcast_ref::<&str>().map(|s| s.to_string())).unwrap_or_default()
}

fn worker() {
    std::panic::set_hook(Box::new(|_| {}));
    HOOKS.set((m_start as fn(), m_stop as fn())).ok();
    let stdin = std::io::stdin();
    let mut out = std::io::stdout();
    let mut line = String::new();
    loop {
        line.clear();
        if stdin.lock().read_line(&mut line).unwrap_or(0) == 0 { return }
        let req: Value = serde_json::from_str(&line).expect("worker request");
        let kind = req["kind"].as_str().unwrap().to_string();
        let data = unhex(req["hex"].as_str().unwrap());
        m_reset();
        let res = if let Some(f) = kind.strip_prefix("file_") {
            files::run_file(f, &data)
        } else {
            let dec = match catch_unwind(AssertUnwindSafe(|| decode_impl(&kind, &data))) {
                Ok(d) => d,
                Err(p) => Dec::Panic(panic_text(p)),
            };
            m_stop();
            json!({"coq": dec.coq(), "json": dec.json()})
        };
        m_stop();
        let mut res = res;
        res["largest"] = json!(LARGEST.load(SeqCst));
        res["peak"] = json!(PEAK.load(SeqCst));
        writeln!(out, "{}", res).unwrap();
        out.flush().unwrap();
    }
}

//------------ parent side: talking to the worker ------------------------------------

struct Worker { child: Child, stdin: ChildStdin, stdout: BufReader<ChildStdout> }
static WORKER: Mutex<Option<Worker>> = Mutex::new(None);

fn spawn() -> Worker {
    let mut child = Command::new(std::env::current_exe().unwrap()).arg("worker")
        .stdin(Stdio::piped()).stdout(Stdio::piped()).stderr(Stdio::piped()).spawn().expect("spawn worker");
    let stdin = child.stdin.take().unwrap();
    let stdout = BufReader::new(child.stdout.take().unwrap());
    Worker { child, stdin, stdout }
}

/// Runs one request in the worker. Returns the worker's answer, or how the worker died.
fn exec(kind: &str, data: &[u8]) -> Result<Value, String> {
    let mut guard = WORKER.lock().unwrap();
    if guard.is_none() { *guard = Some(spawn()); }
    let w = guard.as_mut().unwrap();
    let req = json!({"kind": kind, "hex": hex(data)}).to_string();
    let sent = writeln!(w.stdin, "{}", req).and_then(|_| w.stdin.flush());
    let mut line = String::new();
    let got = if sent.is_ok() { w.stdout.read_line(&mut line).unwrap_or(0) } else { 0 };
    if got == 0 {
        let mut w = guard.take().unwrap();
        drop(w.stdin);
        let status = w.child.wait().map(|s| s.to_string()).unwrap_or_else(|e| e.to_string());
        let mut err = String::new();
        if let Some(mut e) = w.child.stderr.take() { let _ = e.read_to_string(&mut err); }
        let err = err.trim().lines().last().unwrap_or("").to_string();
        return Err(format!("{}; {}", status, err));
    }
    Ok(serde_json::from_str(&line).expect("worker answer"))
}

//------------ generator --------------------------------------------------------------

fn case(class: &str, kind: &str, data: &[u8]) -> (String, Value) {
    (format!("{}.{}", class, kind), json!({"kind": kind, "bytes": hex(data)}))
}

fn valid_encoding(rng: &mut Rng, kind: &str) -> Vec<u8> {
    let v = gen_value(rng, kind, false);
    encode_impl(kind, &v).0.expect("valid values encode")
}

const PREFIX64: &[u64] = &[0, 1, 2, 1 << 16, (1 << 16) + 1, (1 << 32) - 1, 1 << 32, 1 << 40, (1 << 63) - 1, 1 << 63, u64::MAX - 1, u64::MAX];
const PREFIX32: &[u32] = &[0, 1, 2, 1 << 16, (1 << 16) + 1, 1 << 24, (1 << 31) - 1, 1 << 31, u32::MAX - 1, u32::MAX];

/// The bytes in front of the interesting length prefix of a record, the width of that prefix (4/8) and the
/// kind, for every place where a length is read.
fn prefix_sites(rng: &mut Rng) -> Vec<(&'static str, &'static str, Vec<u8>, usize)> {
    let e = |rng: &mut Rng, k: &str| valid_encoding(rng, k);
    let mut v: Vec<(&'static str, &'static str, Vec<u8>, usize)> = Vec::new();
    v.push(("rsync", "len", vec![], 4));
    v.push(("https", "len", vec![], 4));
    v.push(("opt_https", "len", vec![], 4));
    v.push(("bytes", "len", vec![], 8));
    v.push(("opt_bytes", "len", vec![], 8));
    v.push(("map", "len", vec![], 8));
    v.push(("header", "manifest_uri", vec![2], 4));
    { let mut p = vec![2]; p.extend(e(rng, "rsync")); v.push(("header", "rpki_notify", p, 4)); }
    { let mut p = e(rng, "time"); p.extend(e(rng, "serial")); p.extend(e(rng, "time")); v.push(("manifest", "ca_repository", p.clone(), 4));
      p.extend(e(rng, "rsync")); v.push(("manifest", "manifest", p.clone(), 8));
      p.extend(e(rng, "bytes")); v.push(("manifest", "crl_uri", p.clone(), 4));
      p.extend(e(rng, "rsync")); v.push(("manifest", "crl", p, 8)); }
    v.push(("object", "uri", vec![], 4));
    { let mut p = e(rng, "rsync"); p.push(0); v.push(("object", "content", p, 8)); }
    { let mut p = e(rng, "rsync"); p.push(1); p.extend(gen_bytes(rng, 32)); v.push(("object", "content_after_hash", p, 8)); }
    v.push(("state", "rpki_notify", vec![1], 4));
    { let mut p = vec![1]; p.extend(e(rng, "https")); p.extend(e(rng, "uuid")); p.extend(e(rng, "u64")); p.extend(e(rng, "i64"));
      p.extend(e(rng, "i64")); p.extend(e(rng, "opt_i64")); v.push(("state", "etag", p.clone(), 8));
      p.extend(e(rng, "opt_bytes")); v.push(("state", "delta_state", p, 8)); }
    v
}

const URI_PROBES: &[&str] = &[
    "rsync://a/b/", "rsync://a/b", "rsync://a/b/c", "rsync://a/b/c/", "rsync://a/b/c/d.roa", "rsync://a//c", "rsync:///b/c",
    "rsync://a/b//", "rsync://a/b/c//d", "rsync://a/b/c//", "rsync://a/b/../c", "rsync://a/b/./c", "rsync://a/b/c/.", "rsync://a/b/c/..",
    "rsync://a/b/...", "rsync://a/b/.c", "rsync://a/./c", "rsync://./b/c", "rsync://../b/c", "rsync://a/../c", "rsync://a", "rsync://", "rsync:/a/b/c",
    "rsync:a/b/c/", "RSYNC://A/B/C", "rSyNc://a/b/", "rsynd://a/b/c", "rsync//a/b/c/", "https://a/b/c", "http://a/b/c", "https://", "https:/", "https",
    "HTTPS://x", "hTTps://x/", "https://a b", "https://a/\u{7f}", "https://a/%20", "https://[::1]/x", "https://a/?q", "https://a/#f",
    "https://a/@", "https://a/\"", "https://a/<", "https://a/>", "https://a/\\", "https://a/^", "https://a/`", "https://a/{", "https://a/|",
    "https://a/}", "https://a/~", "https://a/!", "https://a/$", "https://a/;", "https://a/=", "https://a/_", "https://a/-", "rsync://a/b/c d",
    "", "r", "rsync://a/b/\u{e9}", "ftp://a/b/c",
];

fn uri_enc(u: &[u8]) -> Vec<u8> { let mut v = (u.len() as u32).to_be_bytes().to_vec(); v.extend_from_slice(u); v }

fn gen(rng: &mut Rng, tier: &str) -> Vec<(String, Value)> {
    if std::env::var("C27_STREAM").as_deref() == Ok("files") { return files::gen(rng, tier) }
    if std::env::var("C27_STREAM").as_deref() == Ok("archives") { return archives::gen(rng, tier) }
    let thorough = tier == "thorough";
    let mut cases = Vec::new();
    let mut big = Vec::new();     // expensive to evaluate inside Coq; spread over the list at the end
    // (a) exhaustive small scope: the empty input and every one-byte input for every kind with a tag or version
    //     octet; every byte value inside a URI (pins the character class of the URI check)
    for kind in KINDS { cases.push(case("exhaustive.empty", kind, &[])); }
    let first_kinds: &[&str] = if thorough { &["u8", "opt_i64", "header", "status", "stored_status", "state", "object"] }
                               else { &["opt_i64", "header", "status", "stored_status", "state"] };
    for kind in first_kinds {
        let kind = *kind;
        for b in 0..=255u8 {
            let mut d = vec![b];
            if kind != "u8" && kind != "object" { d.extend_from_slice(&1700000000i64.to_be_bytes()); }
            cases.push(case("exhaustive.first_octet", kind, &d));
        }
    }
    for b in 0..=255u8 {
        let mut u = b"https://h/".to_vec(); u.push(b);
        cases.push(case("exhaustive.uri_octet", "https", &uri_enc(&u)));
        let mut u = b"rsync://h/m/".to_vec(); u.push(b); u.push(b'x');
        cases.push(case("exhaustive.uri_octet", "rsync", &uri_enc(&u)));
    }
    for b in 0..=255u8 {   // hash type octet of a stored object
        let mut d = uri_enc(b"rsync://h/m/o"); d.push(b); d.extend_from_slice(&[7; 32]); d.extend_from_slice(&3u64.to_be_bytes()); d.extend_from_slice(&[1, 2, 3]);
        cases.push(case("exhaustive.hash_type", "object", &d));
    }
    // (b) boundary classes of the proofs: length prefixes (extremes, with nothing / a little / enough data behind
    //     them), time range, serial sign bit, option markers, duplicate keys, URI syntax
    for (kind, site, pre, width) in prefix_sites(&mut rng.fork()) {
        let prefixes: Vec<Vec<u8>> = if width == 4 { PREFIX32.iter().map(|x| x.to_be_bytes().to_vec()).collect() }
                                     else { PREFIX64.iter().map(|x| x.to_be_bytes().to_vec()).collect() };
        for p in prefixes {
            for tail in (if thorough { vec![0usize, 1, 40, 200] } else { vec![0usize, 40] }) {
                let mut d = pre.clone(); d.extend_from_slice(&p);
                d.extend(b"https://h/rsync://h/m/x".iter().cycle().take(tail));
                cases.push(case(&format!("boundary.prefix.{}", site), kind, &d));
            }
        }
    }
    for t in [TIME_MIN - 1, TIME_MIN, TIME_MAX, TIME_MAX + 1, i64::MIN, i64::MIN + 1, i64::MAX, 0, -1] {
        let e = t.to_be_bytes();
        cases.push(case("boundary.time", "time", &e));
        cases.push(case("boundary.time", "opt_time", &e));
        for tag in [0u8, 1] { let mut d = vec![tag]; d.extend_from_slice(&e); cases.push(case("boundary.time", "status", &d)); }
        { let mut d = vec![0u8]; d.extend_from_slice(&e); cases.push(case("boundary.time", "stored_status", &d)); }
    }
    for first in [0u8, 0x7F, 0x80, 0xFF] { let mut s = vec![3u8; 20]; s[0] = first; s.push(9); cases.push(case("boundary.serial", "serial", &s)); }
    for n in [0u64, 1, 2, 3] {   // maps with n entries, then with a duplicated key, then one entry short
        let mut d = n.to_be_bytes().to_vec();
        for i in 0..n { d.extend_from_slice(&(100 + i).to_be_bytes()); d.extend_from_slice(&[i as u8; 32]); }
        cases.push(case("boundary.map", "map", &d));
        if n >= 2 {
            let mut dup = d.clone(); let l = dup.len(); dup[l - 33] = 100; // last key := first key
            cases.push(case("boundary.map.duplicate", "map", &dup));
            cases.push(case("boundary.map.short", "map", &d[..d.len() - 1]));
            let mut more = d.clone(); more[7] += 1;
            cases.push(case("boundary.map.count_too_big", "map", &more));
        }
    }
    for u in URI_PROBES {
        cases.push(case("boundary.uri", "rsync", &uri_enc(u.as_bytes())));
        cases.push(case("boundary.uri", "https", &uri_enc(u.as_bytes())));
        cases.push(case("boundary.uri", "opt_https", &uri_enc(u.as_bytes())));
        let mut d = uri_enc(u.as_bytes()); d.push(0); d.extend_from_slice(&0u64.to_be_bytes());
        cases.push(case("boundary.uri", "object", &d));
    }
    // declared length larger than one chunk with less / exactly / more data behind it
    for (len, have) in [(65537u64, 65536usize), (65537, 65537), (65536, 65536), (131073, 70000), (70000, 70001), (1 << 20, 65536 + 5)] {
        let mut d = len.to_be_bytes().to_vec(); d.extend(std::iter::repeat(0x61u8).take(have));
        big.push(case("boundary.chunk", "bytes", &d));
        if len < (1 << 20) {
            let mut d = (len as u32).to_be_bytes().to_vec(); d.extend(b"https://".iter().copied()); d.extend(std::iter::repeat(0x61u8).take(have - 8));
            if thorough || have == 65536 { big.push(case("boundary.chunk", "https", &d)); }
        }
    }
    // a bogus declared length with MORE than one chunk of real data behind it (a reader that trusts the declared
    // length once the first chunk has arrived asks for the bogus size): every extreme, two amounts of data
    for len in [1u64 << 28, 1 << 32, 1 << 40, (1 << 63) - 1, 1 << 63, u64::MAX - 1, u64::MAX] {
        for have in [65536usize + 1, 65536 * 2 + 7] {
            let mut d = len.to_be_bytes().to_vec(); d.extend(std::iter::repeat(0x61u8).take(have));
            big.push(case("boundary.chunk_bogus", "bytes", &d));
        }
    }
    // (c) structured: all truncations and single-byte corruptions of valid encodings
    let per_kind = if thorough { 6 } else { 2 };
    for kind in KINDS {
        for round in 0..per_kind {
            let mut r = rng.fork();
            let enc = valid_encoding(&mut r, kind);
            cases.push(case("valid", kind, &enc));
            { let mut d = enc.clone(); d.extend(gen_bytes(&mut r, 5)); cases.push(case("valid.trailing", kind, &d)); }
            let full = enc.len() <= 160 && (round == 0 || thorough);
            for cut in 0..enc.len() {
                if full || cut < 48 || r.chance(1, 12) { cases.push(case("truncation", kind, &enc[..cut])); }
            }
            for pos in 0..enc.len() {
                if !(full || pos < 48 || r.chance(1, 12)) { continue }
                let orig = enc[pos];
                let mut alts = vec![orig ^ 1, 0xFF, orig ^ 0x80, 0x00, r.next() as u8];
                if !full || !thorough { alts.truncate(2); }
                alts.sort(); alts.dedup();
                for a in alts {
                    if a == orig { continue }
                    let mut d = enc.clone(); d[pos] = a;
                    cases.push(case("corruption.byte", kind, &d));
                }
            }
            for _ in 0..(if thorough { 40 } else { 8 }) {
                if enc.is_empty() { break }
                let mut d = enc.clone();
                let pos = r.below(d.len() as u64) as usize;
                d[pos] ^= 1 << r.below(8);
                cases.push(case("corruption.bit", kind, &d));
            }
        }
    }
    // (d) malformed stream: random bytes, and a valid beginning followed by random bytes
    let n = if thorough { 200 } else { 20 };
    for kind in KINDS {
        for i in 0..n {
            let mut r = rng.fork();
            let d = if i % 3 == 0 {
                let enc = valid_encoding(&mut r, kind);
                let keep = r.below(enc.len() as u64 + 1) as usize;
                let mut d = enc[..keep].to_vec();
                let extra = r.below(24) as usize; d.extend(gen_bytes(&mut r, extra)); d
            } else {
                let len = match r.below(4) { 0 => r.below(9), 1 => r.below(40), _ => r.below(160) } as usize;
                let mut d = gen_bytes(&mut r, len);
                // small leading octets make tags, versions and length prefixes plausible more often
                if r.chance(1, 2) { for x in d.iter_mut().take(8) { if r.chance(2, 3) { *x = (r.below(4)) as u8; } } }
                d
            };
            cases.push(case("random", kind, &d));
        }
    }
    // the check evaluates consecutive slices of the list in parallel: one expensive case per slice
    let step = cases.len() / (big.len() + 1);
    for (i, b) in big.into_iter().enumerate().rev() { cases.insert((i + 1) * step, b); }
    cases
}

//------------ execution of one case ------------------------------------------------------

fn run(input: &Value) -> CaseOut {
    let kind = input["kind"].as_str().unwrap();
    if kind == "archive" { return archives::run_case(input) }
    let data = unhex(input["bytes"].as_str().unwrap());
    if kind.starts_with("file_") { return files::run_case(kind, &data) }
    let (res_coq, res_json, largest, peak) = match exec(kind, &data) {
        Ok(a) => (a["coq"].as_str().unwrap().to_string(), a["json"].clone(), a["largest"].as_u64().unwrap(), a["peak"].as_u64().unwrap()),
        Err(how) => ("DAbort".to_string(), json!({"process died": how}), 0, 0),
    };
    let obs = json!({"input_len": data.len(), "result": res_json, "largest_allocation": largest, "peak_allocated": peak});
    let coq = format!("{{| k_kind := {}; k_bytes := {}; k_res := {}; k_alloc := {} |}}", coq_kind(kind), cb(&data), res_coq, largest);
    let nontrivial = res_coq != "DEof";
    CaseOut { obs, coq, nontrivial }
}

//------------ whole files through Store::status and StoredPoint ----------------------------

mod files {
    use super::*;
    use routinator::config::Config;
    use routinator::store::{Store, StoredPoint};
    use rpki::uri;
    use std::str::FromStr;

    pub fn gen(rng: &mut Rng, tier: &str) -> Vec<(String, Value)> {
        let thorough = tier == "thorough";
        let mut cases = Vec::new();
        // status.bin
        cases.push(case("file.empty", "file_status", &[]));
        let enc = encode_impl("stored_status", &json!({"time": 1700000000})).0.unwrap();
        cases.push(case("file.valid", "file_status", &enc));
        for cut in 0..enc.len() { cases.push(case("file.truncation", "file_status", &enc[..cut])); }
        for pos in 0..enc.len() { for a in [enc[pos] ^ 1, enc[pos] ^ 0x80, 0xFF] { let mut d = enc.clone(); d[pos] = a; cases.push(case("file.corruption", "file_status", &d)); } }
        for _ in 0..20 { let n = rng.below(20) as usize; cases.push(case("file.random", "file_status", &gen_bytes(rng, n))); }
        // stored publication points: header, manifest, objects
        let rounds = if thorough { 8 } else { 2 };
        for round in 0..rounds {
            let mut r = rng.fork();
            let mut file = encode_impl("header", &json!({
                "manifest_uri": "rsync://example.com/test/test.mft",
                "rpki_notify": if round % 2 == 0 { json!("https://example.com/n.xml") } else { Value::Null },
                "success": round != 2, "time": 1700000000 + round})).0.unwrap();
            let hdr_len = file.len();
            file.extend(encode_impl("manifest", &gen_value(&mut r, "manifest", false)).0.unwrap());
            let mft_end = file.len();
            for _ in 0..r.range(0, 3) { file.extend(encode_impl("object", &gen_value(&mut r, "object", false)).0.unwrap()); }
            cases.push(case("file.valid", "file_point", &file));
            for cut in 0..file.len() {
                if cut <= hdr_len + 8 || (cut >= mft_end.saturating_sub(4) && cut <= mft_end + 16) || r.chance(1, 6) || cut + 12 > file.len() {
                    cases.push(case("file.truncation", "file_point", &file[..cut]));
                }
            }
            for pos in 0..file.len() {
                if !(pos < hdr_len + 40 || (pos + 8 >= mft_end && pos < mft_end + 24) || r.chance(1, 6)) { continue }
                for a in (if thorough { vec![file[pos] ^ 1, 0xFF, 0x00] } else { vec![file[pos] ^ 1, 0xFF] }) {
                    if a == file[pos] { continue }
                    let mut d = file.clone(); d[pos] = a;
                    cases.push(case("file.corruption", "file_point", &d));
                }
            }
        }
        // length prefixes of the records inside a file set to extremes
        let head = encode_impl("header", &json!({"manifest_uri": "rsync://example.com/test/test.mft", "rpki_notify": Value::Null,
                                                 "success": true, "time": 1700000000})).0.unwrap();
        for p in PREFIX64 {
            let mut d = head.clone();
            d.extend(encode_impl("time", &json!(1700000000)).0.unwrap()); d.extend([0u8; 20]); d.extend(encode_impl("time", &json!(1700000000)).0.unwrap());
            d.extend(uri_enc(b"rsync://example.com/test/")); d.extend(p.to_be_bytes()); d.extend(b"abc");
            cases.push(case("file.prefix.manifest", "file_point", &d));
        }
        for p in PREFIX32 {
            let mut d = vec![2u8]; d.extend(p.to_be_bytes()); d.extend(b"rsync://example.com/test/test.mft");
            cases.push(case("file.prefix.header", "file_point", &d));
        }
        for _ in 0..(if thorough { 200 } else { 40 }) { let n = rng.below(80) as usize; cases.push(case("file.random", "file_point", &gen_bytes(rng, n))); }
        cases
    }

    /// Worker side: put the bytes where Routinator expects the file and run the real reader.
    pub fn run_file(which: &str, data: &[u8]) -> Value {
        let dir = tempfile::tempdir().expect("tempdir");
        let r = catch_unwind(AssertUnwindSafe(|| match which {
            "status" => {
                let config = Config::default_with_paths(Default::default(), dir.path().to_path_buf());
                let store = Store::new(&config).expect("store");
                std::fs::write(dir.path().join("stored").join("status.bin"), data).unwrap();
                m_start();
                let r = store.status();
                m_stop();
                match r {
                    Ok(Some(s)) => format!("(FStatus (Some ({})%Z))", s.last_update.timestamp()),
                    Ok(None) => "(FStatus None)".to_string(),
                    Err(_) => "FFailed".to_string(),
                }
            }
            "point" => {
                let path = dir.path().join("point.bin");
                std::fs::write(&path, data).unwrap();
                let uri = uri::Rsync::from_str("rsync://example.com/test/test.mft").unwrap();
                m_start();
                let r = StoredPoint::verif_open(path, &uri, None);
                let res = match r {
                    Err(_) => "FFailed".to_string(),
                    Ok(mut point) => {
                        let has_manifest = point.manifest().is_some();
                        let mut n = 0u64;
                        let mut end = "PEnd";
                        loop {
                            match point.next() {
                                None => break,
                                Some(Ok(_)) => n += 1,
                                Some(Err(e)) => { end = if e.is_fatal() { "PFatal" } else { "PError" }; break }
                            }
                            if n > 1_000_000 { end = "PEndless"; break }
                        }
                        format!("(FPoint {} {} {})", coq_bool(has_manifest), n, end)
                    }
                };
                m_stop();
                res
            }
            k => panic!("unknown file kind {}", k),
        }));
        m_stop();
        match r {
            Ok(s) => json!({"coq": s}),
            Err(p) => json!({"coq": "FPanic", "panic": panic_text(p)}),
        }
    }

    pub fn run_case(kind: &str, data: &[u8]) -> CaseOut {
        let (res, detail, largest, peak) = match exec(kind, data) {
            Ok(a) => (a["coq"].as_str().unwrap().to_string(), a.get("panic").cloned().unwrap_or(Value::Null),
                      a["largest"].as_u64().unwrap(), a["peak"].as_u64().unwrap()),
            Err(how) => ("FAbort".to_string(), json!({"process died": how}), 0, 0),
        };
        let obs = json!({"input_len": data.len(), "result": res, "detail": detail, "largest_allocation": largest, "peak_allocated": peak});
        let coq = format!("{{| f_status := {}; f_bytes := {}; f_res := {}; f_alloc := {} |}}",
                          coq_bool(kind == "file_status"), cb(data), res, largest);
        let nontrivial = res != "FFailed";
        CaseOut { obs, coq, nontrivial }
    }
}


//------------ RRDP archive files through every reader of RrdpArchive ------------------------
//
// Oracle-only stream: a case is a byte string put where an archive file is expected; the worker opens it with
// the real `RrdpArchive` and calls every reader entry point, each under `catch_unwind`, under the counting
// allocator.  Nothing is compared with a model (the byte-level reader of utils/archive.rs is not modelled).

mod archives {
    use super::*;
    use routinator::collector::RrdpArchive;
    use routinator::utils::archive::Archive;
    use rpki::{rrdp, uri};
    use std::path::PathBuf;
    use std::str::FromStr;
    use std::sync::mpsc::{channel, Receiver, RecvTimeoutError};
    use std::sync::Arc;
    use std::time::{Duration, Instant};

    const KEY: [u8; 16] = [0, 1, 2, 3, 4, 5, 6, 7, 8, 9, 10, 11, 12, 13, 14, 15];
    const HDR: usize = 33;            // ObjectHeader::SIZE: size, next, is_empty, name_len, data_len
    const META: usize = 32;           // RrdpObjectMeta::SIZE
    const FILE_HDR: usize = 30;       // magic (6) + hash key (16) + bucket count (8)
    /// The worker refuses single allocations above this (recorded first); far above the oracle's bound.
    const ALLOC_CAP: usize = 12 << 20;
    /// `objects()` of a file of a few KiB that yields this many items does not end.
    const ITER_CAP: u64 = 200_000;
    const ABSENT: &str = "rsync://example.net/repo/ca/never-published.roa";

    //--- compact input encoding: a list of hex strings and [count, byte] runs

    pub fn rle(data: &[u8]) -> Value {
        let mut out: Vec<Value> = Vec::new();
        let mut lit: Vec<u8> = Vec::new();
        let mut i = 0;
        while i < data.len() {
            let b = data[i];
            let mut j = i;
            while j < data.len() && data[j] == b { j += 1 }
            if j - i >= 12 {
                if !lit.is_empty() { out.push(json!(hex(&lit))); lit.clear(); }
                out.push(json!([j - i, b]));
            } else { lit.extend_from_slice(&data[i..j]); }
            i = j;
        }
        if !lit.is_empty() { out.push(json!(hex(&lit))); }
        Value::Array(out)
    }
    pub fn unrle(v: &Value) -> Vec<u8> {
        if let Some(s) = v.as_str() { return unhex(s) }
        let mut out = Vec::new();
        for item in v.as_array().expect("bytes: hex string or list") {
            match item {
                Value::String(s) => out.extend(unhex(s)),
                Value::Array(a) => out.extend(std::iter::repeat(a[1].as_u64().unwrap() as u8).take(a[0].as_u64().unwrap() as usize)),
                _ => panic!("bad run"),
            }
        }
        out
    }

    //--- valid archives made by the real code

    pub struct Base { tag: String, bytes: Vec<u8>, names: Vec<String>, nb: usize, headers: Vec<(usize, usize, bool)> }

    fn rsync(s: &str) -> uri::Rsync { uri::Rsync::from_str(s).expect("rsync uri") }
    fn ok<T, E>(r: Result<T, E>, what: &str) -> T { match r { Ok(x) => x, Err(_) => panic!("base archive: {} failed", what) } }
    fn rd64(b: &[u8], at: usize) -> u64 { u64::from_ne_bytes(b[at..at + 8].try_into().unwrap()) }

    /// Walks the file from the end of the index by header sizes: (start, size, is_empty) of every block.
    fn walk(b: &[u8], nb: usize) -> Vec<(usize, usize, bool)> {
        let mut pos = FILE_HDR + 8 * (nb + 1);
        let mut v = Vec::new();
        while pos < b.len() {
            let size = rd64(b, pos) as usize;
            assert!(size >= HDR && pos + size <= b.len(), "base archive does not tile");
            v.push((pos, size, b[pos + 16] == 1));
            pos += size;
        }
        assert_eq!(pos, b.len(), "base archive does not tile");
        v
    }

    /// Creates an archive with `nb` buckets and a fixed hash key (hook `verif_create_with_file`; the production
    /// constructor picks a random key and 1024 buckets), then fills it through the real `RrdpArchive` writer:
    /// objects of several sizes (empty, tiny, multi-page, a larger one), a repository state, then updates that
    /// move objects, an in-place update, deletions and a publish that reuses freed space.
    pub fn make_base(tag: &str, nb: usize, variant: u64, big: usize) -> Base {
        let dir = tempfile::tempdir().expect("tempdir");
        let path = dir.path().join("base.bin");
        {
            let file = std::fs::OpenOptions::new().read(true).write(true).create_new(true).open(&path).unwrap();
            drop(ok(Archive::<()>::verif_create_with_file(file, KEY, nb), "create"));
        }
        let names: Vec<String> = (0..8).map(|i| match i {
            0 => format!("rsync://example.net/repo/ca/v{}/empty.crl", variant),
            1 => format!("rsync://example.net/repo/ca/v{}/a.roa", variant),
            2 => format!("rsync://example.net/repo/ca/v{}/grows-and-moves-to-the-end-of-the-file.mft", variant),
            3 => format!("rsync://example.net/repo/ca/v{}/larger.cer", variant),
            4 => format!("rsync://example.net/repo/ca/v{}/deleted-early.roa", variant),
            5 => format!("rsync://example.net/repo/ca/v{}/deleted-late.asa", variant),
            6 => format!("rsync://example.net/repo/ca/v{}/reuses-freed-space.roa", variant),
            _ => format!("rsync://example.net/repo/ca/v{}/x/y/z/{}.gbr", variant, "n".repeat(60)),
        }).collect();
        let content = |i: usize, round: u8| -> Vec<u8> {
            let len = match (i, round) { (0, _) => 0, (1, _) => 5, (2, 0) => 300, (2, _) => 900, (3, _) => big, (4, _) => 100,
                                         (5, _) => 600, (6, _) => 50, _ => 230 };
            if i == 1 { return (0..len).map(|k| (k as u8).wrapping_mul(37) ^ round).collect() }
            vec![0x41 + i as u8 + 8 * round; len]
        };
        // one delta only: the map is written in HashMap iteration order, which differs from run to run
        let state = |serial: u64, etag_len: usize| RrdpArchive::verif_state_new(
            rpki::uri::Https::from_str("https://example.net/rrdp/notification.xml").unwrap(),
            uuid::Uuid::from_u128(0xa1a2a3a4b1b2c1c2d1d2d3d4d5d6d7d8u128), serial, 1_700_000_000, 1_700_100_000,
            Some(1_699_999_000), Some(bytes::Bytes::from(format!("\"{}\"", "e".repeat(etag_len)).into_bytes())),
            std::iter::once((serial, rrdp::Hash::from_data(&[serial as u8]))).collect());
        {
            let mut a = ok(RrdpArchive::try_open(Arc::new(path.clone())), "try_open").expect("base archive exists");
            for i in [0usize, 1, 2, 3, 4, 5, 7] { ok(a.publish_object(&rsync(&names[i]), &content(i, 0)), "publish"); }
            ok(a.publish_state(&state(40, 6)), "publish_state");
            ok(a.update_object(&rsync(&names[2]), rrdp::Hash::from_data(&content(2, 0)), &content(2, 1)), "update (move)");
            ok(a.delete_object(&rsync(&names[4]), rrdp::Hash::from_data(&content(4, 0))), "delete");
            ok(a.update_object(&rsync(&names[1]), rrdp::Hash::from_data(&content(1, 0)), &content(1, 1)), "update (in place)");
            ok(a.update_state(&state(47, 330)), "update_state");
            ok(a.publish_object(&rsync(&names[6]), &content(6, 0)), "publish (reuse)");
            ok(a.delete_object(&rsync(&names[5]), rrdp::Hash::from_data(&content(5, 0))), "delete");
        }
        let bytes = std::fs::read(&path).unwrap();
        // the file must be a valid archive for the real reader, with chains and free blocks
        let stats = ok(RrdpArchive::verify(&path), "verify");
        assert!(stats.object_count == 7 && stats.empty_count >= 2, "base archive: {} objects, {} free blocks", stats.object_count, stats.empty_count);
        {
            let a = ok(RrdpArchive::open(Arc::new(path.clone())), "open");
            assert!(ok(a.load_state(), "load_state").serial == 47);
            for i in [0usize, 1, 2, 3, 6, 7] {
                let round = if i == 1 || i == 2 { 1 } else { 0 };
                assert!(ok(a.load_object(&rsync(&names[i])), "load").as_deref() == Some(&content(i, round)[..]));
            }
            for i in [4usize, 5] { assert!(ok(a.load_object(&rsync(&names[i])), "load").is_none()); }
            assert_eq!(ok(a.objects(), "objects").filter(|x| x.is_ok()).count(), 6);
        }
        let headers = walk(&bytes, nb);
        Base { tag: tag.to_string(), bytes, names, nb, headers }
    }

    //--- generator

    fn acase(class: &str, base: &Base, data: &[u8]) -> (String, Value) {
        let mut names = base.names.clone();
        names.push(ABSENT.to_string());
        (format!("{}.{}", class, base.tag), json!({"kind": "archive", "names": names, "bytes": rle(data)}))
    }

    fn put64(d: &mut [u8], at: usize, v: u64) { d[at..at + 8].copy_from_slice(&v.to_ne_bytes()); }

    /// The 8-byte fields of the file: (site, offset, offset at which the bytes the field measures begin).
    fn fields(base: &Base, all_index: bool, all_headers: bool) -> Vec<(String, usize, usize)> {
        let b = &base.bytes;
        let mut v = vec![("bucket_count".to_string(), 22, FILE_HDR)];
        let (mut zero, mut nonzero) = (0, 0);
        for i in 0..=base.nb {
            let at = FILE_HDR + 8 * i;
            let used = rd64(b, at) != 0;
            if !used { zero += 1; } else { nonzero += 1; }
            if all_index || (used && nonzero <= 4) || i == base.nb || (!used && zero <= 3) {
                v.push((if i == base.nb { "index.empty".to_string() } else { "index".to_string() }, at, at + 8));
            }
        }
        for (k, &(s, _, _)) in base.headers.iter().enumerate() {
            // in the sampled file: the first blocks, one free block and the last block
            if !all_headers && !(k < 3 || k + 1 == base.headers.len() || base.headers[..k].iter().all(|h| !h.2) && base.headers[k].2) { continue }
            let name_len = rd64(b, s + 17) as usize;
            v.push(("size".into(), s, s));
            v.push(("next".into(), s + 8, s));
            v.push(("name_len".into(), s + 17, s + HDR));
            v.push(("data_len".into(), s + 25, (s + HDR + name_len + META).min(b.len())));
        }
        v
    }

    fn mutations(cases: &mut Vec<(String, Value)>, rng: &mut Rng, base: &Base, full: bool, thorough: bool) {
        let b = &base.bytes;
        let len = b.len();
        let idx_end = FILE_HDR + 8 * (base.nb + 1);
        let mut used_index: Vec<usize> = (0..=base.nb).map(|i| FILE_HDR + 8 * i).filter(|&at| rd64(b, at) != 0).collect();
        // in the sampled file: the first entries in use and the free-list entry
        if !full && !thorough && used_index.len() > 5 { let last = used_index.pop().unwrap(); used_index.truncate(4); used_index.push(last); }
        cases.push(acase("valid", base, b));
        { let mut d = b.clone(); d.extend(gen_bytes(rng, 7)); cases.push(acase("valid.trailing", base, &d)); }

        // truncations: the whole header/index region (sampled in a 1024-bucket index except around entries in use),
        // around every object header, the last bytes, a sample elsewhere
        let mut cuts = std::collections::BTreeSet::new();
        for c in 0..=(idx_end + 2).min(len) {
            let near_used = used_index.iter().any(|&at| c + 1 >= at && c <= at + 9);
            if full || c <= FILE_HDR + 10 || near_used || c + 10 >= idx_end || rng.chance(1, if thorough { 16 } else { 128 }) { cuts.insert(c); }
        }
        for (k, &(s, _, _)) in base.headers.iter().enumerate() {
            if full || thorough || k < 2 { for c in s.saturating_sub(2)..=(s + HDR + 2).min(len) { cuts.insert(c); } }
            else { for c in [s - 1, s, s + 1, s + 8, s + 16, s + 17, s + 25, s + 32, s + HDR] { cuts.insert(c); } }
            let name_len = rd64(b, s + 17) as usize;
            for c in [s + HDR + name_len, s + HDR + name_len + 1, s + HDR + name_len + META, s + HDR + name_len + META + 1] { if c < len { cuts.insert(c); } }
        }
        for c in len.saturating_sub(4)..len { cuts.insert(c); }
        for _ in 0..(if thorough { 200 } else { 40 }) { cuts.insert(rng.below(len as u64) as usize); }
        for c in cuts { if c < len { cases.push(acase("truncation", base, &b[..c])); } }

        // single-byte corruptions: header/index region, every byte of every object header, a sample of name, meta
        // and data positions
        let mut positions = std::collections::BTreeSet::new();
        for p in 0..idx_end {
            let in_used = used_index.iter().any(|&at| p >= at && p < at + 8);
            if full || p < FILE_HDR || in_used || (thorough && rng.chance(1, 40)) { positions.insert(p); }
        }
        for (k, &(s, _, _)) in base.headers.iter().enumerate() {
            for p in s..s + HDR { if full || thorough || k < 2 { positions.insert(p); } }
            if full { for p in [s + HDR, s + HDR + 1] { if p < len { positions.insert(p); } } }
        }
        if full { for _ in 0..(if thorough { 200 } else { 25 }) { positions.insert(rng.below(len as u64) as usize); } }
        for p in positions {
            let orig = b[p];
            let mut alts = vec![orig ^ 1, orig ^ 0x80, 0xFF, 0x00];
            if !full && !thorough { alts.truncate(3); }
            alts.sort(); alts.dedup();
            for a in alts {
                if a == orig { continue }
                let mut d = b.clone(); d[p] = a;
                let class = if p < FILE_HDR { "corruption.byte.file_header" } else if p < idx_end { "corruption.byte.index" }
                            else if base.headers.iter().any(|&(s, _, _)| p >= s && p < s + HDR) { "corruption.byte.object_header" }
                            else { "corruption.byte.payload" };
                cases.push(acase(class, base, &d));
            }
        }

        // 8-byte fields overwritten: extremes, values around the file length, around what is left behind the
        // field's payload start, and lengths that make start + len wrap around to a small end
        let mut cycles = 0;
        for (site, at, payload) in fields(base, full, full || thorough) {
            let left = (len - payload) as u64;
            let mut vals: Vec<u64> = vec![0, 1, 1 << 31, 1 << 32, (1 << 63) - 1, 1 << 63, u64::MAX - 1, u64::MAX,
                len as u64 - 1, len as u64, len as u64 + 1,
                left.wrapping_sub(1), left, left + 1,
                0u64.wrapping_sub(payload as u64), 0u64.wrapping_sub(payload as u64) + 16, 0u64.wrapping_sub(payload as u64).wrapping_sub(1)];
            if !full && !thorough { vals.retain(|v| *v < 2 || *v >= (1 << 31)); }
            vals.sort(); vals.dedup();
            let orig = rd64(b, at);
            for v in vals {
                if v == orig { continue }
                let mut d = b.clone(); put64(&mut d, at, v);
                cases.push(acase(&format!("field.{}", site), base, &d));
            }
            // pointers: to the block itself (a cycle; every such case costs the watchdog's patience, so only a
            // few in the quick tier), to the first block, into the middle of a block, to the last block
            if full && (site == "next" || site.starts_with("index")) {
                let first = base.headers[0].0 as u64;
                let mut targets = vec![first + 40];
                if site == "next" {
                    cycles += 1;
                    if thorough || cycles <= 5 { targets.push((at - 8) as u64); }
                    if thorough || cycles % 4 == 0 { targets.push(first); targets.push(base.headers.last().unwrap().0 as u64); }
                } else {
                    targets.push(first); targets.push(base.headers[base.headers.len() / 2].0 as u64);
                }
                for v in targets {
                    if v == orig { continue }
                    let mut d = b.clone(); put64(&mut d, at, v);
                    cases.push(acase(&format!("pointer.{}", site), base, &d));
                }
            }
        }

        // 0xFF- and zero-filled blocks of 8/16/64 bytes at every object header, and over its two length fields
        for &(s, _, _) in &base.headers {
            for fill in [0xFFu8, 0x00] {
                for n in [8usize, 16, 64] {
                    let mut d = b.clone();
                    let end = (s + n).min(len);
                    for x in &mut d[s..end] { *x = fill; }
                    cases.push(acase("fill.header", base, &d));
                }
                let mut d = b.clone();
                for x in &mut d[s + 17..s + HDR] { *x = fill; }
                cases.push(acase("fill.lengths", base, &d));
            }
        }
    }

    fn crafted(small: &Base) -> Vec<(&'static str, Vec<u8>)> {
        const P: u64 = 46;                       // 30 + 8 * (1 + 1)
        let file = |idx0: u64, free: u64, blocks: &[Vec<u8>]| {
            let mut d = small.bytes[..22].to_vec();
            for x in [1u64, idx0, free] { d.extend(x.to_ne_bytes()); }
            for b in blocks { d.extend_from_slice(b); }
            d
        };
        let block = |size: u64, next: u64, empty: bool, name: &[u8], name_len: u64, data: &[u8], data_len: u64| {
            let mut d = Vec::new();
            d.extend(size.to_ne_bytes()); d.extend(next.to_ne_bytes()); d.push(empty as u8);
            d.extend(name_len.to_ne_bytes()); d.extend(data_len.to_ne_bytes());
            if !empty { d.extend_from_slice(name); d.extend([0u8; META]); d.extend_from_slice(data); }
            d
        };
        let uri = small.names[1].as_bytes();
        let n = uri.len() as u64;
        let obj = |size: u64, next: u64| block(size, next, false, uri, n, b"abc", 3);
        let l = obj(0, 0).len() as u64;
        let m = u64::MAX;
        vec![
            ("crafted.valid", file(P, P + l, &[obj(l, 0), block(33, 0, true, b"", 0, b"", 0)])),
            ("crafted.cycle.chain", file(P, 0, &[obj(l, P)])),
            ("crafted.cycle.chain_of_two", file(P, 0, &[obj(l, P + l), obj(l, P)])),
            ("crafted.cycle.state", file(P, 0, &[block(33 + 5 + 32 + 3, P, false, b"state", 5, b"abc", 3)])),
            ("crafted.cycle.free_list", file(0, P, &[block(33, P, true, b"", 0, b"", 0)])),
            ("crafted.sum.object_sizes", file(P, 0, &[obj(m, P + l), obj(m, 0)])),
            ("crafted.sum.free_sizes", file(0, P, &[block(m, P + 33, true, b"", 0, b"", 0), block(m, 0, true, b"", 0, b"", 0)])),
            ("crafted.sum.block_end", file(P, P + l, &[obj(m - 10, 0), block(5, 0, true, b"", 0, b"", 0)])),
            ("crafted.sum.data_len", file(P, 0, &[block(l, 0, false, uri, n, b"abc", m)])),
            ("crafted.sum.name_len", file(P, 0, &[block(l, 0, false, uri, m, b"abc", 3)])),
            ("crafted.sum.both_lengths", file(P, 0, &[block(l, 0, false, uri, m - 40, b"abc", m - 40)])),
        ]
    }

    pub fn gen(rng: &mut Rng, tier: &str) -> Vec<(String, Value)> {
        let thorough = tier == "thorough";
        let mut cases = Vec::new();
        // a small index (3 buckets: chains in every bucket) explored in full; the production bucket count (1024)
        // with the header in full and the index sampled
        let small = make_base("nb3", 3, 0, 2000);
        mutations(&mut cases, &mut rng.fork(), &small, true, thorough);
        let prod = make_base("nb1024", 1024, 1, 5000);
        mutations(&mut cases, &mut rng.fork(), &prod, false, thorough);
        if thorough {
            for (i, nb) in [1usize, 2, 5, 8].into_iter().enumerate() {
                let b = make_base(&format!("nb{}", nb), nb, 2 + i as u64, 3000 + 700 * i);
                mutations(&mut cases, &mut rng.fork(), &b, true, false);
            }
        }
        // files that end with the header or with the index, for the extreme bucket counts
        for nb in [0u64, 1, 2, 3, 1 << 31, 1 << 32, (1 << 61) - 1, 1 << 61, 1 << 62, (1 << 63) - 1, 1 << 63, u64::MAX - 1, u64::MAX] {
            let mut d = small.bytes[..FILE_HDR].to_vec();
            put64(&mut d, 22, nb);
            cases.push(acase("tiny.header_only", &small, &d));
            d.extend_from_slice(&[0u8; 8]);
            cases.push(acase("tiny.header_one_bucket", &small, &d));
            let mut d = small.bytes[..FILE_HDR + 8 * (small.nb + 1)].to_vec();
            put64(&mut d, 22, nb);
            cases.push(acase("tiny.header_index", &small, &d));
            for x in &mut d[FILE_HDR..] { *x = 0 }
            cases.push(acase("tiny.header_empty_index", &small, &d));
        }
        // hand-made one-bucket archives (first block at 46): cycles in a chain and in the free list, sizes and lengths
        // whose sums leave the u64 range
        for (class, d) in crafted(&small) { cases.push(acase(class, &small, &d)); }
        // arbitrary byte strings: empty, random, random behind the valid magic, behind a valid header, behind a valid
        // header and index
        cases.push(acase("random.empty", &small, &[]));
        let n = if thorough { 400 } else { 80 };
        for i in 0..n {
            let mut r = rng.fork();
            let keep = match i % 4 { 0 => 0, 1 => 6, 2 => FILE_HDR, _ => FILE_HDR + 8 * (small.nb + 1) };
            let mut d = small.bytes[..keep].to_vec();
            let extra = match r.below(3) { 0 => r.below(12), 1 => r.below(80), _ => r.below(400) } as usize;
            let mut tail = gen_bytes(&mut r, extra);
            // small values make plausible pointers and lengths more often
            if r.chance(1, 2) { for x in tail.iter_mut() { if r.chance(3, 4) { *x = if r.chance(1, 3) { r.below(120) as u8 } else { 0 }; } } }
            d.extend(tail);
            cases.push(acase(["random.bytes", "random.after_magic", "random.after_header", "random.after_index"][i % 4], &small, &d));
        }
        cases
    }

    //--- worker (child process): one case per request line, one answer line per operation, then an end line

    fn ops_for(names: &[String]) -> Vec<String> {
        let mut v = vec!["open".to_string(), "load_state".to_string()];
        for i in 0..names.len() { v.push(format!("load_object:{}", i)); }
        v.push("objects".into());
        v.push("try_open".into());
        v.push("verify".into());
        v
    }

    fn failed(e: routinator::error::RunFailed) -> &'static str { if e.is_fatal() { "AFatal" } else { "ARetry" } }

    pub fn worker() {
        std::panic::set_hook(Box::new(|info| {
            // the location of the first panic of an operation is reported with its outcome
            let at = info.location().map(|l| format!("{}:{}:{}", l.file(), l.line(), l.column())).unwrap_or_default();
            let mut g = PANIC_AT.lock().unwrap_or_else(|e| e.into_inner());
            if g.is_none() { *g = Some(at); }
        }));
        CAP.store(ALLOC_CAP, SeqCst);
        let stdin = std::io::stdin();
        let mut line = String::new();
        loop {
            line.clear();
            if stdin.lock().read_line(&mut line).unwrap_or(0) == 0 { return }
            let req: Value = serde_json::from_str(&line).expect("worker request");
            let data = unrle(&req["bytes"]);
            let names: Vec<String> = req["names"].as_array().unwrap().iter().map(|s| s.as_str().unwrap().to_string()).collect();
            let uris: Vec<uri::Rsync> = names.iter().map(|s| rsync(s)).collect();
            // the place the RRDP collector keeps the archive of a repository: <cache>/rrdp/<authority>/<hash>.bin
            let dir = tempfile::tempdir().expect("tempdir");
            let rdir = dir.path().join("rrdp").join("example.net");
            std::fs::create_dir_all(&rdir).unwrap();
            let path: PathBuf = rdir.join("5f0c3a1e9b7d.bin");
            let arc = Arc::new(path.clone());
            m_reset();
            let mut handle: Option<RrdpArchive> = None;
            for op in ops_for(&names) {
                // reading never changes the file, but a corrupt-archive error removes it
                if std::fs::metadata(&path).map(|m| m.len() != data.len() as u64).unwrap_or(true) { std::fs::write(&path, &data).unwrap(); }
                *PANIC_AT.lock().unwrap_or_else(|e| e.into_inner()) = None;
                let before = LARGEST.load(SeqCst);
                let mut detail = Value::Null;
                let r = catch_unwind(AssertUnwindSafe(|| -> &'static str {
                    let name = op.split(':').next().unwrap();
                    if handle.is_none() && !matches!(name, "open" | "try_open" | "verify") { return "ASkipped" }
                    m_start();
                    let out = match name {
                        "open" => match RrdpArchive::open(arc.clone()) { Ok(a) => { handle = Some(a); "AOk" } Err(e) => failed(e) },
                        "try_open" => match RrdpArchive::try_open(arc.clone()) { Ok(a) => { drop(a); "AOk" } Err(e) => failed(e) },
                        "verify" => match RrdpArchive::verify(&path) {
                            Ok(s) => { detail = json!({"objects": s.object_count, "free": s.empty_count}); "AOk" }
                            Err(e) => { let t = format!("{:?}", e); m_stop(); detail = json!(t); "ARetry" }
                        },
                        "load_state" => match handle.as_ref().unwrap().load_state() { Ok(s) => { let n = s.serial; m_stop(); detail = json!({"serial": n}); "AOk" } Err(e) => failed(e) },
                        "load_object" => {
                            let i: usize = op.split(':').nth(1).unwrap().parse().unwrap();
                            match handle.as_ref().unwrap().load_object(&uris[i]) {
                                Ok(Some(d)) => { let n = d.len(); drop(d); m_stop(); detail = json!({"len": n}); "AOk" }
                                Ok(None) => { m_stop(); detail = json!("absent"); "AOk" }
                                Err(e) => failed(e),
                            }
                        }
                        "objects" => match handle.as_ref().unwrap().objects() {
                            Err(e) => failed(e),
                            Ok(iter) => {
                                // the collector stops at the first error (`item?`)
                                let mut n = 0u64;
                                let mut out = "AOk";
                                for item in iter {
                                    match item { Ok(x) => { drop(x); n += 1 } Err(e) => { out = failed(e); break } }
                                    if n > ITER_CAP { out = "AEndless"; break }
                                }
                                m_stop();
                                detail = json!({"items": n});
                                out
                            }
                        },
                        k => panic!("unknown operation {}", k),
                    };
                    m_stop();
                    out
                }));
                m_stop();
                let out = match r {
                    Ok(o) => o,
                    Err(p) => {
                        let at = PANIC_AT.lock().unwrap_or_else(|e| e.into_inner()).take().unwrap_or_default();
                        detail = json!({"panic": panic_text(p), "at": at});
                        "APanic"
                    }
                };
                let largest = LARGEST.load(SeqCst);
                say(json!({"op": op, "out": out, "detail": detail, "grew_largest": largest > before, "largest": largest}));
            }
            drop(handle);
            say(json!({"end": true, "largest": LARGEST.load(SeqCst), "peak": PEAK.load(SeqCst)}));
        }
    }

    static PANIC_AT: Mutex<Option<String>> = Mutex::new(None);

    fn say(v: Value) {
        let mut o = std::io::stdout().lock();
        writeln!(o, "{}", v).unwrap();
        o.flush().unwrap();
    }

    //--- parent side

    struct AWorker { child: Child, stdin: ChildStdin, rx: Receiver<String> }
    // one worker per driver thread (the stream runs its cases on several threads: most of a case's wall-clock time on
    // a loaded machine is waiting to be scheduled)
    thread_local! { static AWORKER: std::cell::RefCell<Option<AWorker>> = std::cell::RefCell::new(None); }

    fn spawn() -> AWorker {
        // no backtrace on abort: symbolising one costs seconds of CPU time, which the watchdog would take for a hang
        let mut child = Command::new(std::env::current_exe().unwrap()).arg("aworker").env("RUST_BACKTRACE", "0")
            .stdin(Stdio::piped()).stdout(Stdio::piped()).stderr(Stdio::piped()).spawn().expect("spawn worker");
        let stdin = child.stdin.take().unwrap();
        let out = child.stdout.take().unwrap();
        let (tx, rx) = channel::<String>();
        std::thread::spawn(move || {
            for line in BufReader::new(out).lines() {
                match line { Ok(l) => { if tx.send(l).is_err() { break } } Err(_) => break }
            }
        });
        AWorker { child, stdin, rx }
    }

    /// User CPU time the process has used so far, from /proc/<pid>/stat (system time is left out: under memory
    /// pressure the kernel charges its reclaim work to whoever faults a page in).
    fn cpu_seconds(pid: u32) -> Option<f64> {
        let s = std::fs::read_to_string(format!("/proc/{}/stat", pid)).ok()?;
        let rest = &s[s.rfind(')')? + 1..];
        let f: Vec<&str> = rest.split_whitespace().collect();
        Some(f.get(11)?.parse::<u64>().ok()? as f64 / 100.0)
    }

    /// Sends one case to the worker and collects its answers: (answers, end line, "" | "timeout" | "died", how it went away).
    fn attempt(names: &[String], bytes: &Value, cpu_limit: f64, secs: u64) -> (Vec<Value>, Option<Value>, &'static str, Value) {
        let deadline = Instant::now() + Duration::from_secs(secs);
        let mut w = AWORKER.with(|c| c.borrow_mut().take()).unwrap_or_else(spawn);
        let cpu0 = cpu_seconds(w.child.id());
        let sent = writeln!(w.stdin, "{}", json!({"names": names, "bytes": bytes})).and_then(|_| w.stdin.flush()).is_ok();
        let mut answers: Vec<Value> = Vec::new();
        let mut end: Option<Value> = None;
        let mut how = if sent { "" } else { "died" };
        while sent {
            let now = Instant::now();
            if now >= deadline { how = "timeout"; break }
            match w.rx.recv_timeout((deadline - now).min(Duration::from_millis(100))) {
                Ok(l) => {
                    let v: Value = serde_json::from_str(&l).expect("worker answer");
                    if v["end"] == true { end = Some(v); break }
                    answers.push(v);
                }
                Err(RecvTimeoutError::Timeout) => {
                    if let (Some(a), Some(b)) = (cpu0, cpu_seconds(w.child.id())) { if b - a > cpu_limit { how = "timeout"; break } }
                }
                Err(RecvTimeoutError::Disconnected) => { how = "died"; break }
            }
        }
        let mut death = Value::Null;
        if end.is_some() {
            AWORKER.with(|c| *c.borrow_mut() = Some(w));
        } else {
            if how == "timeout" { let _ = w.child.kill(); }
            drop(w.stdin);
            let status = w.child.wait().map(|s| s.to_string()).unwrap_or_else(|e| e.to_string());
            let mut err = String::new();
            if let Some(mut e) = w.child.stderr.take() { let _ = e.read_to_string(&mut err); }
            let err = err.trim().lines().find(|l| !l.trim().is_empty()).unwrap_or("").to_string();
            death = json!({"how": if how == "timeout" { format!("no answer after {} s of user CPU time (or {} s), killed; twice", cpu_limit, secs) } else { "process died".to_string() },
                           "status": status, "stderr": err});
        }
        (answers, end, how, death)
    }

    pub fn run_case(input: &Value) -> CaseOut {
        let names: Vec<String> = input["names"].as_array().unwrap().iter().map(|s| s.as_str().unwrap().to_string()).collect();
        let data = unrle(&input["bytes"]);
        let ops = ops_for(&names);
        // A case needs milliseconds of CPU time.  The worker is declared hanging when it has burnt C27_CASE_CPU
        // seconds of user CPU time on one case (independent of the load of the machine), or after C27_CASE_TIMEOUT
        // seconds of wall-clock time -- and does so again, with twice the budget, in a fresh worker.
        let cpu_limit: f64 = std::env::var("C27_CASE_CPU").ok().and_then(|s| s.parse().ok()).unwrap_or(1.0);
        let secs: u64 = std::env::var("C27_CASE_TIMEOUT").ok().and_then(|s| s.parse().ok()).unwrap_or(180);
        let (mut answers, mut end, mut how, mut death) = attempt(&names, &input["bytes"], cpu_limit, secs);
        if how == "timeout" {
            let again = attempt(&names, &input["bytes"], 2.0 * cpu_limit, 2 * secs);
            answers = again.0; end = again.1; how = again.2; death = again.3;
        }
        // outcome per operation: the operation in progress when the worker went away is ADied, later ones ASkipped
        let mut outs: Vec<String> = Vec::new();
        let mut obs_ops: Vec<Value> = Vec::new();
        for (i, op) in ops.iter().enumerate() {
            if let Some(a) = answers.get(i) {
                assert_eq!(a["op"].as_str(), Some(op.as_str()));
                outs.push(a["out"].as_str().unwrap().to_string());
                obs_ops.push(json!({"op": op, "out": a["out"], "detail": a["detail"], "largest_so_far": a["largest"]}));
            } else if i == answers.len() {
                outs.push(if how == "timeout" { "AHang".into() } else { "ADied".into() });
                obs_ops.push(json!({"op": op, "out": outs[i], "detail": death}));
            } else {
                outs.push("ASkipped".into());
            }
        }
        let largest = end.as_ref().map(|e| e["largest"].as_u64().unwrap())
            .or_else(|| answers.last().map(|a| a["largest"].as_u64().unwrap())).unwrap_or(0);
        let peak = end.as_ref().map(|e| e["peak"].as_u64().unwrap()).unwrap_or(0);
        let obs = json!({"file_len": data.len(), "operations": obs_ops, "largest_allocation": largest, "peak_allocated": peak});
        let coq = format!("{{| a_len := {}; a_ops := {}; a_alloc := {} |}}", data.len(), coq_list(outs.iter(), |s| s.clone()), largest);
        // non-trivial: the file was opened (something behind the 30-byte header was read)
        let nontrivial = outs.first().map(|s| s == "AOk").unwrap_or(false);
        CaseOut { obs, coq, nontrivial }
    }
}

fn main() {
    if std::env::args().nth(1).as_deref() == Some("worker") { return worker() }
    if std::env::args().nth(1).as_deref() == Some("aworker") { return archives::worker() }
    // the archives stream: independent worker processes, four at a time
    if std::env::var("C27_STREAM").as_deref() == Ok("archives") { return drive_par(gen, run, 4) }
    drive(gen, run)
}
