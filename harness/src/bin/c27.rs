//! C27: corrupt local data never crashes Routinator / never allocates far beyond the input size.
//!
//! Every case is a kind of persisted record and an arbitrary byte string.  The real decoder of /repo
//! is run on it in a *worker child process* (this binary in `worker` mode) under a counting global
//! allocator; the parent observes a result, a caught panic, or the death of the child (abort,
//! allocation failure, stack overflow) and then starts a new worker.  The Coq side (coq/C27/Spec.v)
//! runs the model decoder on the same bytes, compares result and allocation bound, and evaluates the
//! property oracle on what the implementation did.
//!
//! Stream `files` (env C27_STREAM=files): whole-file corruptions through the real
//! `Store::status` and `StoredPoint::open` + iteration (hook `StoredPoint::verif_open`).
#[path = "../binrec.rs"]
mod binrec;

use binrec::*;
use rv_harness::util::*;
use serde_json::{json, Value};
use std::alloc::{GlobalAlloc, Layout, System};
use std::io::{BufRead, BufReader, Read, Write};
use std::panic::{catch_unwind, AssertUnwindSafe};
use std::process::{Child, ChildStdin, ChildStdout, Command, Stdio};
use std::sync::atomic::{AtomicBool, AtomicUsize, Ordering::SeqCst};
use std::sync::Mutex;

//------------ counting allocator ------------------------------------------------

struct Counting;
static ON: AtomicBool = AtomicBool::new(false);
static CUR: AtomicUsize = AtomicUsize::new(0);
static BASE: AtomicUsize = AtomicUsize::new(0);
static PEAK: AtomicUsize = AtomicUsize::new(0);      // peak of live bytes above BASE while ON
static LARGEST: AtomicUsize = AtomicUsize::new(0);   // largest single request while ON

fn note(size: usize) {
    let cur = CUR.fetch_add(size, SeqCst) + size;
    if ON.load(SeqCst) {
        LARGEST.fetch_max(size, SeqCst);
        PEAK.fetch_max(cur.saturating_sub(BASE.load(SeqCst)), SeqCst);
    }
}
unsafe impl GlobalAlloc for Counting {
    unsafe fn alloc(&self, l: Layout) -> *mut u8 { note(l.size()); System.alloc(l) }
    unsafe fn alloc_zeroed(&self, l: Layout) -> *mut u8 { note(l.size()); System.alloc_zeroed(l) }
    unsafe fn dealloc(&self, p: *mut u8, l: Layout) { CUR.fetch_sub(l.size(), SeqCst); System.dealloc(p, l) }
    unsafe fn realloc(&self, p: *mut u8, l: Layout, new: usize) -> *mut u8 {
        CUR.fetch_sub(l.size(), SeqCst);
        note(new);
        System.realloc(p, l, new)
    }
}
#[global_allocator]
static ALLOC: Counting = Counting;

fn m_start() { BASE.store(CUR.load(SeqCst), SeqCst); ON.store(true, SeqCst); }
fn m_stop() { ON.store(false, SeqCst); }
fn m_reset() { ON.store(false, SeqCst); PEAK.store(0, SeqCst); LARGEST.store(0, SeqCst); }

//------------ worker (child process) ----------------------------------------------

fn panic_text(p: Box<dyn std::any::Any + Send>) -> String {
    p.downcast_ref::<String>().cloned().or_else(|| p.downcast_ref::<&str>().map(|s| s.to_string())).unwrap_or_default()
}

fn worker() {
    std::panic::set_hook(Box::new(|_| {}));
    HOOKS.set((m_start as fn(), m_stop as fn())).ok();
    let stdin = std::io::stdin();
    let mut out = std::io::stdout();
    let mut line = String::new();
    loop {
        line.clear();
        if stdin.lock().read_line(&mut line).unwrap_or(0) == 0 { return }
        let req: Value = serde_json::from_str(&line).expect("worker request");
        let kind = req["kind"].as_str().unwrap().to_string();
        let data = unhex(req["hex"].as_str().unwrap());
        m_reset();
        let res = if let Some(f) = kind.strip_prefix("file_") {
            files::run_file(f, &data)
        } else {
            let dec = match catch_unwind(AssertUnwindSafe(|| decode_impl(&kind, &data))) {
                Ok(d) => d,
                Err(p) => Dec::Panic(panic_text(p)),
            };
            m_stop();
            json!({"coq": dec.coq(), "json": dec.json()})
        };
        m_stop();
        let mut res = res;
        res["largest"] = json!(LARGEST.load(SeqCst));
        res["peak"] = json!(PEAK.load(SeqCst));
        writeln!(out, "{}", res).unwrap();
        out.flush().unwrap();
    }
}

//------------ parent side: talking to the worker ------------------------------------

struct Worker { child: Child, stdin: ChildStdin, stdout: BufReader<ChildStdout> }
static WORKER: Mutex<Option<Worker>> = Mutex::new(None);

fn spawn() -> Worker {
    let mut child = Command::new(std::env::current_exe().unwrap()).arg("worker")
        .stdin(Stdio::piped()).stdout(Stdio::piped()).stderr(Stdio::piped()).spawn().expect("spawn worker");
    let stdin = child.stdin.take().unwrap();
    let stdout = BufReader::new(child.stdout.take().unwrap());
    Worker { child, stdin, stdout }
}

/// Runs one request in the worker. Returns the worker's answer, or how the worker died.
fn exec(kind: &str, data: &[u8]) -> Result<Value, String> {
    let mut guard = WORKER.lock().unwrap();
    if guard.is_none() { *guard = Some(spawn()); }
    let w = guard.as_mut().unwrap();
    let req = json!({"kind": kind, "hex": hex(data)}).to_string();
    let sent = writeln!(w.stdin, "{}", req).and_then(|_| w.stdin.flush());
    let mut line = String::new();
    let got = if sent.is_ok() { w.stdout.read_line(&mut line).unwrap_or(0) } else { 0 };
    if got == 0 {
        let mut w = guard.take().unwrap();
        drop(w.stdin);
        let status = w.child.wait().map(|s| s.to_string()).unwrap_or_else(|e| e.to_string());
        let mut err = String::new();
        if let Some(mut e) = w.child.stderr.take() { let _ = e.read_to_string(&mut err); }
        let err = err.trim().lines().last().unwrap_or("").to_string();
        return Err(format!("{}; {}", status, err));
    }
    Ok(serde_json::from_str(&line).expect("worker answer"))
}

//------------ generator --------------------------------------------------------------

fn case(class: &str, kind: &str, data: &[u8]) -> (String, Value) {
    (format!("{}.{}", class, kind), json!({"kind": kind, "bytes": hex(data)}))
}

fn valid_encoding(rng: &mut Rng, kind: &str) -> Vec<u8> {
    let v = gen_value(rng, kind, false);
    encode_impl(kind, &v).0.expect("valid values encode")
}

const PREFIX64: &[u64] = &[0, 1, 2, 1 << 16, (1 << 16) + 1, (1 << 32) - 1, 1 << 32, 1 << 40, (1 << 63) - 1, 1 << 63, u64::MAX - 1, u64::MAX];
const PREFIX32: &[u32] = &[0, 1, 2, 1 << 16, (1 << 16) + 1, 1 << 24, (1 << 31) - 1, 1 << 31, u32::MAX - 1, u32::MAX];

/// The bytes in front of the interesting length prefix of a record, the width of that prefix (4/8) and the
/// kind, for every place where a length is read.
fn prefix_sites(rng: &mut Rng) -> Vec<(&'static str, &'static str, Vec<u8>, usize)> {
    let e = |rng: &mut Rng, k: &str| valid_encoding(rng, k);
    let mut v: Vec<(&'static str, &'static str, Vec<u8>, usize)> = Vec::new();
    v.push(("rsync", "len", vec![], 4));
    v.push(("https", "len", vec![], 4));
    v.push(("opt_https", "len", vec![], 4));
    v.push(("bytes", "len", vec![], 8));
    v.push(("opt_bytes", "len", vec![], 8));
    v.push(("map", "len", vec![], 8));
    v.push(("header", "manifest_uri", vec![2], 4));
    { let mut p = vec![2]; p.extend(e(rng, "rsync")); v.push(("header", "rpki_notify", p, 4)); }
    { let mut p = e(rng, "time"); p.extend(e(rng, "serial")); p.extend(e(rng, "time")); v.push(("manifest", "ca_repository", p.clone(), 4));
      p.extend(e(rng, "rsync")); v.push(("manifest", "manifest", p.clone(), 8));
      p.extend(e(rng, "bytes")); v.push(("manifest", "crl_uri", p.clone(), 4));
      p.extend(e(rng, "rsync")); v.push(("manifest", "crl", p, 8)); }
    v.push(("object", "uri", vec![], 4));
    { let mut p = e(rng, "rsync"); p.push(0); v.push(("object", "content", p, 8)); }
    { let mut p = e(rng, "rsync"); p.push(1); p.extend(gen_bytes(rng, 32)); v.push(("object", "content_after_hash", p, 8)); }
    v.push(("state", "rpki_notify", vec![1], 4));
    { let mut p = vec![1]; p.extend(e(rng, "https")); p.extend(e(rng, "uuid")); p.extend(e(rng, "u64")); p.extend(e(rng, "i64"));
      p.extend(e(rng, "i64")); p.extend(e(rng, "opt_i64")); v.push(("state", "etag", p.clone(), 8));
      p.extend(e(rng, "opt_bytes")); v.push(("state", "delta_state", p, 8)); }
    v
}

const URI_PROBES: &[&str] = &[
    "rsync://a/b/", "rsync://a/b", "rsync://a/b/c", "rsync://a/b/c/", "rsync://a/b/c/d.roa", "rsync://a//c", "rsync:///b/c",
    "rsync://a/b//", "rsync://a/b/c//d", "rsync://a/b/c//", "rsync://a/b/../c", "rsync://a/b/./c", "rsync://a/b/c/.", "rsync://a/b/c/..",
    "rsync://a/b/...", "rsync://a/b/.c", "rsync://a/./c", "rsync://./b/c", "rsync://../b/c", "rsync://a/../c", "rsync://a", "rsync://", "rsync:/a/b/c",
    "rsync:a/b/c/", "RSYNC://A/B/C", "rSyNc://a/b/", "rsynd://a/b/c", "rsync//a/b/c/", "https://a/b/c", "http://a/b/c", "https://", "https:/", "https",
    "HTTPS://x", "hTTps://x/", "https://a b", "https://a/\u{7f}", "https://a/%20", "https://[::1]/x", "https://a/?q", "https://a/#f",
    "https://a/@", "https://a/\"", "https://a/<", "https://a/>", "https://a/\\", "https://a/^", "https://a/`", "https://a/{", "https://a/|",
    "https://a/}", "https://a/~", "https://a/!", "https://a/$", "https://a/;", "https://a/=", "https://a/_", "https://a/-", "rsync://a/b/c d",
    "", "r", "rsync://a/b/\u{e9}", "ftp://a/b/c",
];

fn uri_enc(u: &[u8]) -> Vec<u8> { let mut v = (u.len() as u32).to_be_bytes().to_vec(); v.extend_from_slice(u); v }

fn gen(rng: &mut Rng, tier: &str) -> Vec<(String, Value)> {
    if std::env::var("C27_STREAM").as_deref() == Ok("files") { return files::gen(rng, tier) }
    let thorough = tier == "thorough";
    let mut cases = Vec::new();
    let mut big = Vec::new();     // expensive to evaluate inside Coq; spread over the list at the end
    // (a) exhaustive small scope: the empty input and every one-byte input for every kind with a tag or version
    //     octet; every byte value inside a URI (pins the character class of the URI check)
    for kind in KINDS { cases.push(case("exhaustive.empty", kind, &[])); }
    let first_kinds: &[&str] = if thorough { &["u8", "opt_i64", "header", "status", "stored_status", "state", "object"] }
                               else { &["opt_i64", "header", "status", "stored_status", "state"] };
    for kind in first_kinds {
        let kind = *kind;
        for b in 0..=255u8 {
            let mut d = vec![b];
            if kind != "u8" && kind != "object" { d.extend_from_slice(&1700000000i64.to_be_bytes()); }
            cases.push(case("exhaustive.first_octet", kind, &d));
        }
    }
    for b in 0..=255u8 {
        let mut u = b"https://h/".to_vec(); u.push(b);
        cases.push(case("exhaustive.uri_octet", "https", &uri_enc(&u)));
        let mut u = b"rsync://h/m/".to_vec(); u.push(b); u.push(b'x');
        cases.push(case("exhaustive.uri_octet", "rsync", &uri_enc(&u)));
    }
    for b in 0..=255u8 {   // hash type octet of a stored object
        let mut d = uri_enc(b"rsync://h/m/o"); d.push(b); d.extend_from_slice(&[7; 32]); d.extend_from_slice(&3u64.to_be_bytes()); d.extend_from_slice(&[1, 2, 3]);
        cases.push(case("exhaustive.hash_type", "object", &d));
    }
    // (b) boundary classes of the proofs: length prefixes (extremes, with nothing / a little / enough data behind
    //     them), time range, serial sign bit, option markers, duplicate keys, URI syntax
    for (kind, site, pre, width) in prefix_sites(&mut rng.fork()) {
        let prefixes: Vec<Vec<u8>> = if width == 4 { PREFIX32.iter().map(|x| x.to_be_bytes().to_vec()).collect() }
                                     else { PREFIX64.iter().map(|x| x.to_be_bytes().to_vec()).collect() };
        for p in prefixes {
            for tail in (if thorough { vec![0usize, 1, 40, 200] } else { vec![0usize, 40] }) {
                let mut d = pre.clone(); d.extend_from_slice(&p);
                d.extend(b"https://h/rsync://h/m/x".iter().cycle().take(tail));
                cases.push(case(&format!("boundary.prefix.{}", site), kind, &d));
            }
        }
    }
    for t in [TIME_MIN - 1, TIME_MIN, TIME_MAX, TIME_MAX + 1, i64::MIN, i64::MIN + 1, i64::MAX, 0, -1] {
        let e = t.to_be_bytes();
        cases.push(case("boundary.time", "time", &e));
        cases.push(case("boundary.time", "opt_time", &e));
        for tag in [0u8, 1] { let mut d = vec![tag]; d.extend_from_slice(&e); cases.push(case("boundary.time", "status", &d)); }
        { let mut d = vec![0u8]; d.extend_from_slice(&e); cases.push(case("boundary.time", "stored_status", &d)); }
    }
    for first in [0u8, 0x7F, 0x80, 0xFF] { let mut s = vec![3u8; 20]; s[0] = first; s.push(9); cases.push(case("boundary.serial", "serial", &s)); }
    for n in [0u64, 1, 2, 3] {   // maps with n entries, then with a duplicated key, then one entry short
        let mut d = n.to_be_bytes().to_vec();
        for i in 0..n { d.extend_from_slice(&(100 + i).to_be_bytes()); d.extend_from_slice(&[i as u8; 32]); }
        cases.push(case("boundary.map", "map", &d));
        if n >= 2 {
            let mut dup = d.clone(); let l = dup.len(); dup[l - 33] = 100; // last key := first key
            cases.push(case("boundary.map.duplicate", "map", &dup));
            cases.push(case("boundary.map.short", "map", &d[..d.len() - 1]));
            let mut more = d.clone(); more[7] += 1;
            cases.push(case("boundary.map.count_too_big", "map", &more));
        }
    }
    for u in URI_PROBES {
        cases.push(case("boundary.uri", "rsync", &uri_enc(u.as_bytes())));
        cases.push(case("boundary.uri", "https", &uri_enc(u.as_bytes())));
        cases.push(case("boundary.uri", "opt_https", &uri_enc(u.as_bytes())));
        let mut d = uri_enc(u.as_bytes()); d.push(0); d.extend_from_slice(&0u64.to_be_bytes());
        cases.push(case("boundary.uri", "object", &d));
    }
    // declared length larger than one chunk with less / exactly / more data behind it
    for (len, have) in [(65537u64, 65536usize), (65537, 65537), (65536, 65536), (131073, 70000), (70000, 70001), (1 << 20, 65536 + 5)] {
        let mut d = len.to_be_bytes().to_vec(); d.extend(std::iter::repeat(0x61u8).take(have));
        big.push(case("boundary.chunk", "bytes", &d));
        if len < (1 << 20) {
            let mut d = (len as u32).to_be_bytes().to_vec(); d.extend(b"https://".iter().copied()); d.extend(std::iter::repeat(0x61u8).take(have - 8));
            if thorough || have == 65536 { big.push(case("boundary.chunk", "https", &d)); }
        }
    }
    // (c) structured: all truncations and single-byte corruptions of valid encodings
    let per_kind = if thorough { 6 } else { 2 };
    for kind in KINDS {
        for round in 0..per_kind {
            let mut r = rng.fork();
            let enc = valid_encoding(&mut r, kind);
            cases.push(case("valid", kind, &enc));
            { let mut d = enc.clone(); d.extend(gen_bytes(&mut r, 5)); cases.push(case("valid.trailing", kind, &d)); }
            let full = enc.len() <= 160 && (round == 0 || thorough);
            for cut in 0..enc.len() {
                if full || cut < 48 || r.chance(1, 12) { cases.push(case("truncation", kind, &enc[..cut])); }
            }
            for pos in 0..enc.len() {
                if !(full || pos < 48 || r.chance(1, 12)) { continue }
                let orig = enc[pos];
                let mut alts = vec![orig ^ 1, 0xFF, orig ^ 0x80, 0x00, r.next() as u8];
                if !full || !thorough { alts.truncate(2); }
                alts.sort(); alts.dedup();
                for a in alts {
                    if a == orig { continue }
                    let mut d = enc.clone(); d[pos] = a;
                    cases.push(case("corruption.byte", kind, &d));
                }
            }
            for _ in 0..(if thorough { 40 } else { 8 }) {
                if enc.is_empty() { break }
                let mut d = enc.clone();
                let pos = r.below(d.len() as u64) as usize;
                d[pos] ^= 1 << r.below(8);
                cases.push(case("corruption.bit", kind, &d));
            }
        }
    }
    // (d) malformed stream: random bytes, and a valid beginning followed by random bytes
    let n = if thorough { 200 } else { 20 };
    for kind in KINDS {
        for i in 0..n {
            let mut r = rng.fork();
            let d = if i % 3 == 0 {
                let enc = valid_encoding(&mut r, kind);
                let keep = r.below(enc.len() as u64 + 1) as usize;
                let mut d = enc[..keep].to_vec();
                let extra = r.below(24) as usize; d.extend(gen_bytes(&mut r, extra)); d
            } else {
                let len = match r.below(4) { 0 => r.below(9), 1 => r.below(40), _ => r.below(160) } as usize;
                let mut d = gen_bytes(&mut r, len);
                // small leading octets make tags, versions and length prefixes plausible more often
                if r.chance(1, 2) { for x in d.iter_mut().take(8) { if r.chance(2, 3) { *x = (r.below(4)) as u8; } } }
                d
            };
            cases.push(case("random", kind, &d));
        }
    }
    // the check evaluates consecutive slices of the list in parallel: one expensive case per slice
    let step = cases.len() / (big.len() + 1);
    for (i, b) in big.into_iter().enumerate().rev() { cases.insert((i + 1) * step, b); }
    cases
}

//------------ execution of one case ------------------------------------------------------

fn run(input: &Value) -> CaseOut {
    let kind = input["kind"].as_str().unwrap();
    let data = unhex(input["bytes"].as_str().unwrap());
    if kind.starts_with("file_") { return files::run_case(kind, &data) }
    let (res_coq, res_json, largest, peak) = match exec(kind, &data) {
        Ok(a) => (a["coq"].as_str().unwrap().to_string(), a["json"].clone(), a["largest"].as_u64().unwrap(), a["peak"].as_u64().unwrap()),
        Err(how) => ("DAbort".to_string(), json!({"process died": how}), 0, 0),
    };
    let obs = json!({"input_len": data.len(), "result": res_json, "largest_allocation": largest, "peak_allocated": peak});
    let coq = format!("{{| k_kind := {}; k_bytes := {}; k_res := {}; k_alloc := {} |}}", coq_kind(kind), cb(&data), res_coq, largest);
    let nontrivial = res_coq != "DEof";
    CaseOut { obs, coq, nontrivial }
}

//------------ whole files through Store::status and StoredPoint ----------------------------

mod files {
    use super::*;
    use routinator::config::Config;
    use routinator::store::{Store, StoredPoint};
    use rpki::uri;
    use std::str::FromStr;

    pub fn gen(rng: &mut Rng, tier: &str) -> Vec<(String, Value)> {
        let thorough = tier == "thorough";
        let mut cases = Vec::new();
        // status.bin
        cases.push(case("file.empty", "file_status", &[]));
        let enc = encode_impl("stored_status", &json!({"time": 1700000000})).0.unwrap();
        cases.push(case("file.valid", "file_status", &enc));
        for cut in 0..enc.len() { cases.push(case("file.truncation", "file_status", &enc[..cut])); }
        for pos in 0..enc.len() { for a in [enc[pos] ^ 1, enc[pos] ^ 0x80, 0xFF] { let mut d = enc.clone(); d[pos] = a; cases.push(case("file.corruption", "file_status", &d)); } }
        for _ in 0..20 { let n = rng.below(20) as usize; cases.push(case("file.random", "file_status", &gen_bytes(rng, n))); }
        // stored publication points: header, manifest, objects
        let rounds = if thorough { 8 } else { 2 };
        for round in 0..rounds {
            let mut r = rng.fork();
            let mut file = encode_impl("header", &json!({
                "manifest_uri": "rsync://example.com/test/test.mft",
                "rpki_notify": if round % 2 == 0 { json!("https://example.com/n.xml") } else { Value::Null },
                "success": round != 2, "time": 1700000000 + round})).0.unwrap();
            let hdr_len = file.len();
            file.extend(encode_impl("manifest", &gen_value(&mut r, "manifest", false)).0.unwrap());
            let mft_end = file.len();
            for _ in 0..r.range(0, 3) { file.extend(encode_impl("object", &gen_value(&mut r, "object", false)).0.unwrap()); }
            cases.push(case("file.valid", "file_point", &file));
            for cut in 0..file.len() {
                if cut <= hdr_len + 8 || (cut >= mft_end.saturating_sub(4) && cut <= mft_end + 16) || r.chance(1, 6) || cut + 12 > file.len() {
                    cases.push(case("file.truncation", "file_point", &file[..cut]));
                }
            }
            for pos in 0..file.len() {
                if !(pos < hdr_len + 40 || (pos + 8 >= mft_end && pos < mft_end + 24) || r.chance(1, 6)) { continue }
                for a in (if thorough { vec![file[pos] ^ 1, 0xFF, 0x00] } else { vec![file[pos] ^ 1, 0xFF] }) {
                    if a == file[pos] { continue }
                    let mut d = file.clone(); d[pos] = a;
                    cases.push(case("file.corruption", "file_point", &d));
                }
            }
        }
        // length prefixes of the records inside a file set to extremes
        let head = encode_impl("header", &json!({"manifest_uri": "rsync://example.com/test/test.mft", "rpki_notify": Value::Null,
                                                 "success": true, "time": 1700000000})).0.unwrap();
        for p in PREFIX64 {
            let mut d = head.clone();
            d.extend(encode_impl("time", &json!(1700000000)).0.unwrap()); d.extend([0u8; 20]); d.extend(encode_impl("time", &json!(1700000000)).0.unwrap());
            d.extend(uri_enc(b"rsync://example.com/test/")); d.extend(p.to_be_bytes()); d.extend(b"abc");
            cases.push(case("file.prefix.manifest", "file_point", &d));
        }
        for p in PREFIX32 {
            let mut d = vec![2u8]; d.extend(p.to_be_bytes()); d.extend(b"rsync://example.com/test/test.mft");
            cases.push(case("file.prefix.header", "file_point", &d));
        }
        for _ in 0..(if thorough { 200 } else { 40 }) { let n = rng.below(80) as usize; cases.push(case("file.random", "file_point", &gen_bytes(rng, n))); }
        cases
    }

    /// Worker side: put the bytes where Routinator expects the file and run the real reader.
    pub fn run_file(which: &str, data: &[u8]) -> Value {
        let dir = tempfile::tempdir().expect("tempdir");
        let r = catch_unwind(AssertUnwindSafe(|| match which {
            "status" => {
                let config = Config::default_with_paths(Default::default(), dir.path().to_path_buf());
                let store = Store::new(&config).expect("store");
                std::fs::write(dir.path().join("stored").join("status.bin"), data).unwrap();
                m_start();
                let r = store.status();
                m_stop();
                match r {
                    Ok(Some(s)) => format!("(FStatus (Some ({})%Z))", s.last_update.timestamp()),
                    Ok(None) => "(FStatus None)".to_string(),
                    Err(_) => "FFailed".to_string(),
                }
            }
            "point" => {
                let path = dir.path().join("point.bin");
                std::fs::write(&path, data).unwrap();
                let uri = uri::Rsync::from_str("rsync://example.com/test/test.mft").unwrap();
                m_start();
                let r = StoredPoint::verif_open(path, &uri, None);
                let res = match r {
                    Err(_) => "FFailed".to_string(),
                    Ok(mut point) => {
                        let has_manifest = point.manifest().is_some();
                        let mut n = 0u64;
                        let mut end = "PEnd";
                        loop {
                            match point.next() {
                                None => break,
                                Some(Ok(_)) => n += 1,
                                Some(Err(e)) => { end = if e.is_fatal() { "PFatal" } else { "PError" }; break }
                            }
                            if n > 1_000_000 { end = "PEndless"; break }
                        }
                        format!("(FPoint {} {} {})", coq_bool(has_manifest), n, end)
                    }
                };
                m_stop();
                res
            }
            k => panic!("unknown file kind {}", k),
        }));
        m_stop();
        match r {
            Ok(s) => json!({"coq": s}),
            Err(p) => json!({"coq": "FPanic", "panic": panic_text(p)}),
        }
    }

    pub fn run_case(kind: &str, data: &[u8]) -> CaseOut {
        let (res, detail, largest, peak) = match exec(kind, data) {
            Ok(a) => (a["coq"].as_str().unwrap().to_string(), a.get("panic").cloned().unwrap_or(Value::Null),
                      a["largest"].as_u64().unwrap(), a["peak"].as_u64().unwrap()),
            Err(how) => ("FAbort".to_string(), json!({"process died": how}), 0, 0),
        };
        let obs = json!({"input_len": data.len(), "result": res, "detail": detail, "largest_allocation": largest, "peak_allocated": peak});
        let coq = format!("{{| f_status := {}; f_bytes := {}; f_res := {}; f_alloc := {} |}}",
                          coq_bool(kind == "file_status"), cb(data), res, largest);
        let nontrivial = res != "FFailed";
        CaseOut { obs, coq, nontrivial }
    }
}

fn main() {
    if std::env::args().nth(1).as_deref() == Some("worker") { return worker() }
    drive(gen, run)
}
