//! C31: dubious-host classification and the rsync / RRDP gates vs the Coq model (coq/C31).
//!
//! Two streams, selected by the environment variable C31_STREAM:
//!   classify (default): one URI per case; rpki's parser, `UriExt::has_dubious_authority` (public)
//!            and std's `IpAddr::from_str` on the authority.
//!   gates:   one collector run per case over a list of URIs.
//!            rsync: end to end through the public API (`collector::Collector::start().load_ta(TalUri::Rsync)`,
//!                   i.e. the real `rsync::Run::load_module`), `config.rsync_command` is a script that logs
//!                   its arguments;
//!            RRDP:  the real `rrdp::Run::load_repository` through the hook `Config::verif_rrdp_loader`,
//!                   `config.rrdp_proxies` points to a logging proxy in this process, so every request the
//!                   HTTP client starts shows up there as a CONNECT.
use routinator::collector::Collector;
use routinator::config::Config;
use routinator::metrics::Metrics;
use routinator::utils::uri::UriExt;
use rpki::repository::tal::TalUri;
use rpki::uri;
use rv_harness::util::*;
use serde_json::{json, Value};
use std::io::{Read, Write};
use std::net::IpAddr;
use std::str::FromStr;
use std::sync::atomic::{AtomicUsize, Ordering};
use std::sync::{Arc, Mutex};

fn to_bytes(s: &str) -> Vec<u8> { s.chars().map(|c| c as u32 as u8).collect() }
fn from_bytes(b: &[u8]) -> String { b.iter().map(|&c| c as char).collect() }

//------------ generators ----------------------------------------------------------------------

fn uri_for(scheme: &str, auth: &str, rng: &mut Rng) -> String {
    let sch = match (scheme, rng.below(8)) {
        ("rsync", 0) => "RSYNC", ("rsync", 1) => "Rsync", ("rsync", _) => "rsync",
        (_, 0) => "HTTPS", (_, 1) => "hTTps", _ => "https",
    };
    if scheme == "rsync" {
        let m = *rng.pick(&["repo", "module", "m", "RPKI-1", "a.b"]);
        let p = *rng.pick(&["", "ta.cer", "x/y/z.mft", "dir/", "A/b.roa"]);
        format!("{}://{}/{}/{}", sch, auth, m, p)
    } else {
        let p = *rng.pick(&["", "/", "/notification.xml", "/rrdp/notify.xml", "/a/../b", "//x"]);
        format!("{}://{}{}", sch, auth, p)
    }
}

fn case_variant(word: &str, mask: u64) -> String {
    word.chars().enumerate().map(|(i, c)| if mask & (1 << i) != 0 { c.to_ascii_uppercase() } else { c }).collect()
}

fn rand_label(rng: &mut Rng) -> String {
    let n = rng.range(1, 8);
    (0..n).map(|_| *rng.pick(&['a', 'b', 'e', 'x', 'L', 'O', 'Z', '0', '7', '-', '_'])).collect()
}

fn rand_hostname(rng: &mut Rng) -> String {
    let n = rng.range(1, 4);
    let mut v: Vec<String> = (0..n).map(|_| rand_label(rng)).collect();
    if rng.chance(1, 3) { v.push(rng.pick(&["net", "ORG", "example", "localhost", "LocalHost"]).to_string()); }
    v.join(".")
}

fn rand_octet(rng: &mut Rng) -> String {
    match rng.below(10) {
        0 => format!("0{}", rng.below(256)),
        1 => format!("{}", rng.range(256, 1300)),
        2 => String::new(),
        3 => format!("{:x}", rng.below(256)),
        4 => (*rng.pick(&["0", "00", "255", "256", "249", "250", "199", "200", "99", "100", "9", "10"])).to_string(),
        _ => format!("{}", rng.below(256)),
    }
}

fn rand_quad(rng: &mut Rng) -> String {
    let n = match rng.below(8) { 0 => 3, 1 => 5, _ => 4 };
    let plain = rng.chance(1, 2);
    let v: Vec<String> = (0..n).map(|_| if plain { format!("{}", rng.below(256)) } else { rand_octet(rng) }).collect();
    let mut s = v.join(".");
    if rng.chance(1, 12) { s.push('.') }
    s
}

fn rand_v6(rng: &mut Rng) -> String {
    let groups = |rng: &mut Rng, n: u64| -> Vec<String> {
        (0..n).map(|_| match rng.below(8) {
            0 => format!("{:X}", rng.below(65536)),
            1 => format!("{:05x}", rng.below(65536)),
            2 => "0".to_string(),
            _ => format!("{:x}", rng.below(65536)),
        }).collect()
    };
    let mut s = match rng.below(6) {
        0 => groups(rng, 8).join(":"),
        1 => { let n = rng.below(9); groups(rng, n).join(":") }
        2 => { let a = rng.below(5); let b = rng.below(5); format!("{}::{}", groups(rng, a).join(":"), groups(rng, b).join(":")) }
        3 => format!("{}:{}", groups(rng, 6).join(":"), rand_quad(rng)),
        4 => { let a = rng.below(4); format!("{}::{}", groups(rng, a).join(":"), rand_quad(rng)) }
        _ => { let a = rng.below(8); let b = rng.below(8); format!("{}::{}", groups(rng, a).join(":"), groups(rng, b).join(":")) }
    };
    if rng.chance(1, 10) { s = format!("[{}]", s) }
    s
}

fn rand_authority(rng: &mut Rng) -> String {
    match rng.below(12) {
        0 | 1 | 2 => rand_hostname(rng),
        3 | 4 => rand_quad(rng),
        5 => rand_v6(rng),
        6 => case_variant("localhost", rng.below(512)),
        7 => format!("{}:{}", rand_hostname(rng), rng.pick(&["", "0", "80", "443", "873", "65536", "8o", "x"])),
        8 => format!("{}:{}", rand_quad(rng), rng.below(70000)),
        9 => format!("{}{}", case_variant("localhost", rng.below(512)), rng.pick(&[".", ":873", "x", ".example", "."])),
        10 => format!("{}", rng.below(5_000_000_000)),
        _ => {
            // arbitrary legal URI characters
            let n = rng.range(1, 10);
            (0..n).map(|_| *rng.pick(&['!', '$', '&', '\'', '(', ')', '*', '+', ',', '-', '.', '0', '9', ':', ';', '=',
                                       'A', 'Z', '_', 'a', 'z', '~', '%', '1'])).collect()
        }
    }
}

const BOUNDARY_AUTH: &[&str] = &[
    // localhost
    "localhost", "LOCALHOST", "Localhost", "localHost", "LOCALHOSt", "localhost.", "LOCALHOST.", "xlocalhost",
    "localhos", "localhostt", "local-host", "localhost.localdomain", "a.localhost",
    // ports
    "example.net:", "example.net:0", "example.net:873", "example.net:65535", "example.net:65536", "example.net:http",
    ":80", ":", "a:b:c", "localhost:873", "LOCALHOST:873", "127.0.0.1:873", "1.2.3.4:", "example.net:8:9",
    // IPv4 literals and near misses (case splits of read_number / read_ipv4_addr)
    "0.0.0.0", "127.0.0.1", "255.255.255.255", "1.2.3.4", "10.0.0.1", "192.168.1.100", "199.200.249.250",
    "256.1.1.1", "1.256.1.1", "1.1.256.1", "1.1.1.256", "1.1.1.260", "1.1.1.300", "1.1.1.999", "1.1.1.1000", "1.1.1.0255",
    "01.1.1.1", "1.01.1.1", "1.1.1.01", "00.0.0.0", "0.0.0.00", "127.0.0.001", "1.2.3", "1.2.3.4.5", "1.2.3.", "1.2.3.4.",
    ".1.2.3.4", "1..2.3", "1.2..4", "...", "1.2.3.4x", "x1.2.3.4", "1.2.3.4 ", "1.2.3.a", "0x7f.0.0.1", "127.1", "2130706433",
    "017700000001", "0x7f000001", "1.2.3.-4", "1.2.3.+4", "1,2,3,4", "1.2.3.4.example.net", "4.3.2.1.in-addr.arpa",
    // IPv6 literals (always contain ':'), bracketed forms (no legal URI character)
    "::", "::1", "1::", "::ffff:1.2.3.4", "1:2:3:4:5:6:7:8", "1:2:3:4:5:6:1.2.3.4", "fe80::1", "FE80::ABCD", "1:2:3:4:5:6:7::",
    "::2:3:4:5:6:7:8", "1:2:3:4:5:6:7:8:9", ":::", "1::2::3", "12345::", "1.2.3.4::", "::1.2.3", "[::1]", "[::1]:8080",
    "[fe80::1%25eth0]", "[1.2.3.4]",
    // ordinary names
    "rpki.example.net", "RPKI.Example.NET", "a", "A", "a-b.c_d", "xn--bcher-kva.example", "rpki.ripe.net", "1a.2b.3c.4d",
    "1.2.3.com", "255.255.255.255.", "host.", ".", "..", "...", "-", "_", "~", "%31.2.3.4", "1%2e2.3.4", "!$&'()*+,;=",
];

fn gen_classify(rng: &mut Rng, tier: &str) -> Vec<(String, Value)> {
    let mut cases = Vec::new();
    let mut push = |class: &str, scheme: &str, uri: String| {
        cases.push((class.to_string(), json!({"scheme": scheme, "uri": uri})));
    };
    // (a) exhaustive small scope: every authority of length 1..=4 over {0,1,2,.,:,a}
    let alpha = ['0', '1', '2', '.', ':', 'a'];
    for len in 1..=4u32 {
        for mut n in 0..6u32.pow(len) {
            let mut a = String::new();
            for _ in 0..len { a.push(alpha[(n % 6) as usize]); n /= 6; }
            push("exhaustive.len<=4.rsync", "rsync", format!("rsync://{}/m/", a));
            push("exhaustive.len<=4.https", "https", format!("https://{}/n.xml", a));
        }
    }
    // every case variant of "localhost"
    for mask in 0..512u64 {
        let a = case_variant("localhost", mask);
        push("exhaustive.localhost_case", "rsync", format!("rsync://{}/repo/ta.cer", a));
        push("exhaustive.localhost_case", "https", format!("https://{}/notification.xml", a));
    }
    // (b) boundary classes
    for a in BOUNDARY_AUTH {
        for scheme in ["rsync", "https"] {
            let mut r = rng.fork();
            push("boundary.authority", scheme, uri_for(scheme, a, &mut r));
        }
    }
    // one octet at a time across the boundary set
    let octs = ["0", "1", "9", "00", "01", "09", "10", "99", "099", "100", "199", "200", "249", "250", "255", "256", "260", "299", "300",
                "999", "0255", "1000", "", "a", "1a"];
    for pos in 0..4 {
        for o in octs {
            let mut v = vec!["12", "34", "56", "78"];
            v[pos] = o;
            push("boundary.octet", "rsync", format!("rsync://{}/m/x", v.join(".")));
            push("boundary.octet", "https", format!("https://{}", v.join(".")));
        }
    }
    // (c) structured random
    let n = if tier == "thorough" { 30000 } else { 3000 };
    for i in 0..n {
        let mut r = rng.fork();
        let a = rand_authority(&mut r);
        let scheme = if i % 2 == 0 { "rsync" } else { "https" };
        push("random.authority", scheme, uri_for(scheme, &a, &mut r));
    }
    // (d) malformed URIs
    let bad = [
        "", "rsync://", "rsync:///m/", "rsync://h", "rsync://h/", "rsync://h/m", "rsync://h//p", "rsync://h/m//p", "rsync://h/m/p//",
        "rsync://./m/", "rsync://../m/", "rsync://h/./p", "rsync://h/m/../p", "rsync://h/m/..", "rsync://h/m/.", "rsync://h/m/p/./q",
        "rsync:/h/m/", "rsyncs://h/m/", "http://h/m/", "https://h/m/", "rsync://h /m/", "rsync://h/m/\u{e9}", "rsync://h\u{0}/m/",
        "rsync://[::1]/m/", "rsync://h/m/a?b", "rsync://h/m/a#b", "rsync://user@h/m/", "rsync://h/m/a\\b", "rsync://h/m/\"",
        "https://", "https:///x", "https://", "https:/h/x", "http://h/x", "rsync://h/x", "https://h/ x", "https://[::1]/x",
        "https://h/x?y", "https://h/x#y", "https://user@h/x", "https://h\u{ff}/x", "https://../x", "https://./x", "https://h/../../x",
        "HTTPS://H", "https://h//", "ftp://h/x", "https//h/x", " https://h/x",
    ];
    for u in bad {
        let scheme = if u.to_ascii_lowercase().starts_with("http") { "https" } else { "rsync" };
        push("malformed.uri", scheme, u.to_string());
        push("malformed.uri.other_parser", if scheme == "rsync" { "https" } else { "rsync" }, u.to_string());
    }
    let nm = if tier == "thorough" { 3000 } else { 300 };
    for i in 0..nm {
        let mut r = rng.fork();
        let scheme = if i % 2 == 0 { "rsync" } else { "https" };
        let a = rand_authority(&mut r);
        let mut u: Vec<char> = uri_for(scheme, &a, &mut r).chars().collect();
        // damage: insert a forbidden byte, an extra slash or a dot segment, or cut the URI
        match r.below(5) {
            0 => { let p = r.below(u.len() as u64 + 1) as usize; u.insert(p, *r.pick(&[' ', '"', '#', '<', '?', '[', '\\', ']', '^', '`', '{', '|', '\u{7f}', '\u{80}', '\u{ff}', '\u{0}', '@'])); }
            1 => { let p = r.below(u.len() as u64 + 1) as usize; u.insert(p, '/'); }
            2 => { let p = r.below(u.len() as u64 + 1) as usize; for (k, c) in "/../".chars().enumerate() { u.insert((p + k).min(u.len()), c); } }
            3 => { let p = r.below(u.len() as u64 + 1) as usize; u.truncate(p); }
            _ => { let p = r.below(u.len() as u64) as usize; u.remove(p); }
        }
        push("malformed.random", scheme, u.into_iter().collect());
    }
    cases
}

fn gen_gates(rng: &mut Rng, tier: &str) -> Vec<(String, Value)> {
    let mut cases = Vec::new();
    let dubious = ["localhost", "LOCALHOST", "LocalHost", "127.0.0.1", "10.1.2.3", "255.255.255.255", "::1", "fe80::1",
                   "rpki.example.net:873", "rpki.example.net:", "localhost:8873", "1:2:3:4:5:6:7:8", "0.0.0.0"];
    let ordinary = ["rpki.example.net", "RPKI.example.NET", "repo.example.org", "a", "1.2.3", "1.2.3.4.5", "01.2.3.4",
                    "256.1.1.1", "localhost.example", "localhost.", "xlocalhost", "2130706433", "1.2.3.4.", "host-1.test"];
    let runs = if tier == "thorough" { 160 } else { 36 };
    for scheme in ["rsync", "https"] {
        // boundary runs: every dubious form alone and after an ordinary host, both settings
        for allow in [false, true] {
            // distinct module / notification file per URI so that no call is answered from the run's memory
            let uris: Vec<String> = dubious.iter().chain(ordinary.iter()).enumerate().map(|(i, a)| {
                if scheme == "rsync" { format!("rsync://{}/repo{}/", a, i) } else { format!("https://{}/n{}/notification.xml", a, i) }
            }).collect();
            cases.push((format!("boundary.all_forms.{}", scheme), json!({"scheme": scheme, "allow": allow, "uris": uris})));
        }
        // the same module / repository asked for repeatedly, in different spellings
        for allow in [false, true] {
            let uris: Vec<String> = if scheme == "rsync" {
                ["rsync://Example.net/m/a.cer", "rsync://example.NET/m/b/c.cer", "RSYNC://example.net/m/", "rsync://example.net/M/",
                 "rsync://LOCALHOST/m/a.cer", "rsync://localhost/m/b.cer", "rsync://localhost/m2/", "rsync://example.net/m/x"]
                    .iter().map(|s| s.to_string()).collect()
            } else {
                ["https://Example.net/n.xml", "HTTPS://example.NET/n.xml", "https://example.net/N.xml", "https://example.net/n.xml",
                 "https://LOCALHOST/n.xml", "https://localhost/n.xml", "https://localhost/other.xml", "https://example.net"]
                    .iter().map(|s| s.to_string()).collect()
            };
            cases.push((format!("boundary.repeated.{}", scheme), json!({"scheme": scheme, "allow": allow, "uris": uris})));
        }
        for i in 0..runs {
            let mut r = rng.fork();
            let allow = i % 3 == 0;
            let n = r.range(1, 10);
            let mut uris = Vec::new();
            for _ in 0..n {
                let a = match r.below(10) {
                    0..=2 => r.pick(&dubious).to_string(),
                    3..=5 => r.pick(&ordinary).to_string(),
                    6 => case_variant("localhost", r.below(512)),
                    _ => rand_authority(&mut r),
                };
                let a = if r.chance(1, 4) { a.to_ascii_uppercase() } else { a };
                let u = if r.chance(1, 12) {
                    // an invalid URI in the middle of a run
                    format!("{}://{}", scheme, a)
                } else if scheme == "rsync" {
                    format!("rsync://{}/{}/{}", a, r.pick(&["m", "repo"]), r.pick(&["", "x.cer", "d/"]))
                } else {
                    format!("https://{}{}", a, r.pick(&["/n.xml", "/notification.xml", ""]))
                };
                uris.push(u);
            }
            cases.push((format!("random.run.{}", scheme), json!({"scheme": scheme, "allow": allow, "uris": uris})));
        }
    }
    cases
}

//------------ running the implementation ------------------------------------------------------

fn coq_obytes(o: &Option<Vec<u8>>) -> String { coq_opt(o.as_ref().map(|b| coq_bytes(b))) }
fn coq_scheme(s: &str) -> &'static str { if s == "rsync" { "Rsync" } else { "Https" } }

fn run_classify(input: &Value) -> CaseOut {
    let scheme = input["scheme"].as_str().unwrap();
    let bytes = to_bytes(input["uri"].as_str().unwrap());
    let res: Option<(Vec<u8>, bool, bool)> = std::panic::catch_unwind(|| {
        if scheme == "rsync" {
            uri::Rsync::from_slice(&bytes).ok().map(|u| {
                (u.authority().as_bytes().to_vec(), u.has_dubious_authority(), IpAddr::from_str(u.authority()).is_ok())
            })
        } else {
            uri::Https::from_slice(&bytes).ok().map(|u| {
                (u.authority().as_bytes().to_vec(), u.has_dubious_authority(), IpAddr::from_str(u.authority()).is_ok())
            })
        }
    }).expect("panic in URI classification");
    let (auth, dub, ip) = match &res { Some((a, d, i)) => (Some(a.clone()), *d, *i), None => (None, false, false) };
    let obs = json!({"authority": auth.as_ref().map(|a| from_bytes(a)), "dubious": dub, "ip_literal": ip});
    let coq = format!("{{| c_scheme := {}; c_uri := {}; c_impl := {{| o_auth := {}; o_dub := {}; o_ip := {} |}} |}}",
        coq_scheme(scheme), coq_bytes(&bytes), coq_obytes(&auth), coq_bool(dub), coq_bool(ip));
    CaseOut { obs, coq, nontrivial: auth.is_some() }
}

/// A proxy that answers every request with 403 and counts the connections it saw.
struct Proxy { port: u16, seen: Arc<AtomicUsize>, lines: Arc<Mutex<Vec<String>>> }

fn start_proxy() -> Proxy {
    let l = std::net::TcpListener::bind("127.0.0.1:0").unwrap();
    let port = l.local_addr().unwrap().port();
    let seen = Arc::new(AtomicUsize::new(0));
    let lines = Arc::new(Mutex::new(Vec::new()));
    let (s2, l2) = (seen.clone(), lines.clone());
    std::thread::spawn(move || {
        for c in l.incoming() {
            let Ok(mut c) = c else { continue };
            let _ = c.set_read_timeout(Some(std::time::Duration::from_secs(2)));
            let mut buf = Vec::new();
            let mut b = [0u8; 512];
            while !buf.windows(4).any(|w| w == b"\r\n\r\n") {
                match c.read(&mut b) { Ok(0) | Err(_) => break, Ok(n) => buf.extend_from_slice(&b[..n]) }
            }
            let first = String::from_utf8_lossy(&buf).lines().next().unwrap_or("").to_string();
            l2.lock().unwrap().push(first);
            s2.fetch_add(1, Ordering::SeqCst);
            let _ = c.write_all(b"HTTP/1.1 403 Forbidden\r\nContent-Length: 0\r\nConnection: close\r\n\r\n");
        }
    });
    Proxy { port, seen, lines }
}

#[derive(Clone)]
struct CallObs { auth: Option<Vec<u8>>, out: &'static str, wire: bool, note: String }

fn run_rsync(allow: bool, uris: &[Vec<u8>]) -> Vec<CallObs> {
    let dir = tempfile::tempdir().unwrap();
    let log = dir.path().join("rsync.log");
    let script = dir.path().join("fake-rsync.sh");
    std::fs::write(&script, format!(
        "#!/bin/sh\nif [ \"$1\" = \"-h\" ]; then echo 'fake rsync'; exit 0; fi\n\
         {{ for a in \"$@\"; do printf '%s\\n' \"$a\"; done; printf -- '----\\n'; }} >> '{}'\nexit 0\n", log.display())).unwrap();
    use std::os::unix::fs::PermissionsExt;
    std::fs::set_permissions(&script, std::fs::Permissions::from_mode(0o755)).unwrap();
    let mut config = Config::default_with_paths(Default::default(), dir.path().join("cache"));
    config.rsync_command = script.display().to_string();
    config.allow_dubious_hosts = allow;
    config.disable_rrdp = true;
    let collector = Collector::new(&config).expect("collector");
    let run = collector.start();
    let invocations = || -> Vec<Vec<String>> {
        let txt = std::fs::read_to_string(&log).unwrap_or_default();
        let mut res = Vec::new();
        let mut cur = Vec::new();
        for l in txt.lines() { if l == "----" { res.push(std::mem::take(&mut cur)); } else { cur.push(l.to_string()); } }
        res
    };
    let mut obs = Vec::new();
    let mut expected_modules = Vec::new();
    for b in uris {
        match uri::Rsync::from_slice(b) {
            Err(_) => obs.push(CallObs { auth: None, out: "Invalid", wire: false, note: String::new() }),
            Ok(u) => {
                let before = invocations().len();
                let _ = run.load_ta(&TalUri::Rsync(u.clone()));
                let after = invocations();
                let wire = after.len() > before;
                let mut note = String::new();
                let mut ok = after.len() <= before + 1;
                if wire {
                    let args = &after[after.len() - 1];
                    // ... source destination: the source must be the canonical module of this URI
                    let src = args.get(args.len().wrapping_sub(2)).cloned().unwrap_or_default();
                    note = src.clone();
                    ok = ok && src == u.canonical_module().as_ref();
                    expected_modules.push(src);
                }
                // a failed side check shows up as a disagreement with the model (Fetch without wire)
                obs.push(CallObs { auth: Some(u.authority().as_bytes().to_vec()),
                                   out: if wire { "Fetch" } else { "NoFetch" }, wire: wire && ok, note });
            }
        }
    }
    // the run's own metrics list exactly the modules for which the command was started
    let mut metrics = Metrics::default();
    run.done(&mut metrics);
    let listed: Vec<String> = metrics.rsync.iter().map(|m| m.module.to_string()).collect();
    if listed != expected_modules {
        for o in obs.iter_mut() { if o.out == "Fetch" { o.wire = false; o.note.push_str(" (metrics disagree)"); } }
    }
    obs
}

fn run_rrdp(allow: bool, uris: &[Vec<u8>], proxy: &Proxy) -> Vec<CallObs> {
    let dir = tempfile::tempdir().unwrap();
    let mut config = Config::default_with_paths(Default::default(), dir.path().join("cache"));
    config.allow_dubious_hosts = allow;
    config.disable_rsync = true;
    config.rrdp_proxies = vec![format!("http://127.0.0.1:{}", proxy.port)];
    config.rrdp_timeout = Some(std::time::Duration::from_secs(5));
    config.rrdp_connect_timeout = Some(std::time::Duration::from_secs(5));
    let mut load = config.verif_rrdp_loader().expect("rrdp collector");
    let mut obs = Vec::new();
    for b in uris {
        match uri::Https::from_slice(b) {
            Err(_) => obs.push(CallObs { auth: None, out: "Invalid", wire: false, note: String::new() }),
            Ok(u) => {
                let before = proxy.seen.load(Ordering::SeqCst);
                let code = load(&u);
                let after = proxy.seen.load(Ordering::SeqCst);
                let note = if after > before { proxy.lines.lock().unwrap().last().cloned().unwrap_or_default() } else { String::new() };
                let out = match code { 0 | 1 => "NoFetch", 2 => "Fetch", _ => "Invalid" };
                obs.push(CallObs { auth: Some(u.authority().as_bytes().to_vec()), out, wire: after > before,
                                   note: format!("{}{}", ["cached", "rejected", "attempted", "failed"][code.min(3) as usize],
                                                 if note.is_empty() { String::new() } else { format!(": {}", note) }) });
            }
        }
    }
    obs
}

fn run_gates(input: &Value, proxy: &Proxy) -> CaseOut {
    let scheme = input["scheme"].as_str().unwrap();
    let allow = input["allow"].as_bool().unwrap();
    let uris: Vec<Vec<u8>> = input["uris"].as_array().unwrap().iter().map(|u| to_bytes(u.as_str().unwrap())).collect();
    let obs = if scheme == "rsync" { run_rsync(allow, &uris) } else { run_rrdp(allow, &uris, proxy) };
    let j = json!(obs.iter().map(|o| json!({"authority": o.auth.as_ref().map(|a| from_bytes(a)), "outcome": o.out,
                                             "wire": o.wire, "note": o.note})).collect::<Vec<_>>());
    let coq = format!("{{| rc_scheme := {}; rc_allow := {}; rc_uris := {}; rc_impl := {} |}}",
        coq_scheme(scheme), coq_bool(allow), coq_list(uris.iter(), |u| coq_bytes(u)),
        coq_list(obs.iter(), |o| format!("{{| ro_auth := {}; ro_out := {}; ro_wire := {} |}}", coq_obytes(&o.auth), o.out, coq_bool(o.wire))));
    let nontrivial = obs.iter().any(|o| o.out == "Fetch") && (allow || obs.iter().any(|o| o.out == "NoFetch"));
    CaseOut { obs: j, coq, nontrivial }
}

fn main() {
    std::env::remove_var("RSYNC_RSH");
    if std::env::var("C31_STREAM").as_deref() == Ok("gates") {
        let proxy = start_proxy();
        drive(gen_gates, move |i| run_gates(i, &proxy))
    } else {
        drive(gen_classify, run_classify)
    }
}
