//! C40: what the cleanup after a validation run keeps - real engine vs the Coq model (coq/C40).
//!
//! Streams (env C40_STREAM):
//!   cleanup  (default) a history of real runs on a real repository (rpkigen), optional tampering with the
//!            cache (expire a stored manifest, age a LastAttempt marker, junk files, a point moved to the RRDP
//!            tree, ...), then the last run performed step by step exactly as ValidationReport::process does
//!            (engine.start, Run::process, Run::cleanup, Run::done) with the cache listed right before and right
//!            after `engine::Run::cleanup`                                     -> C40.Spec.check_case
//!   seq      the same kind of history, last run through the real `ValidationReport::process`, cache listed
//!            before and after the call (dirty / failed run: nothing may disappear) -> C40.Spec.check_seq
//!
//! The stored files are abstracted with the real readers (`StoredPoint::load_quietly`,
//! `StoredPointHeader::read` + the existing C27/C28 hook `verif_parts`).  Times in the Coq case are
//! milliseconds relative to the moment cleanup starts.
use std::collections::BTreeMap;
use std::path::{Path, PathBuf};
use std::str::FromStr;
use routinator::engine::Engine;
use routinator::payload::ValidationReport;
use routinator::store::{Store, StoredManifest, StoredPoint, StoredPointHeader};
use rpki::repository::cert::Cert;
use rpki::repository::x509::Time;
use rpki::uri;
use rv_harness::rpkigen::*;
use rv_harness::util::*;
use serde::{Deserialize, Serialize};
use serde_json::{json, Value};

//------------ input -----------------------------------------------------------------

#[derive(Serialize, Deserialize, Clone, Debug, PartialEq)]
#[serde(tag = "op")]
enum Tamper {
    /// stored manifest's cached EE notAfter := now - 1 h
    ExpirePoint { ca: String },
    /// LastAttempt time := now - 2 h (only meaningful for a point without a manifest)
    AgeAttempt { ca: String },
    DeletePoint { ca: String },
    /// replace the stored point by a bare marker: no manifest, LastAttempt = now + offset seconds
    Marker { ca: String, offset: i64 },
    /// keep the header, cut the file 3 bytes into the manifest
    TruncatePoint { ca: String },
    /// a junk file below <cache>/stored/rsync/
    JunkStore { rel: String },
    /// a junk file (or directory containing a file) below <cache>/rsync/
    JunkRsync { rel: String, dir: bool },
    /// a file in <cache>/stored/tmp/
    Tmp { name: String },
    /// a garbage file below <cache>/stored/ta/
    JunkTa { rel: String },
    /// move the stored point into the RRDP tree of the store, header.rpki_notify := notify
    ToRrdpTree { ca: String, notify: String },
    /// wait until `secs` seconds after the build instant + 1 h (real expiry of short-lived certificates)
    SleepUntil { secs: i64 },
    /// an RRDP archive of the repository `notify` in the collector's directory, made by the real writer; its
    /// best-before time lies one hour in the past (`expired`) or in the future
    PlantArchive { notify: String, expired: bool },
}

#[derive(Serialize, Deserialize, Clone, Debug)]
struct Last {
    plan: ServePlan,
    dirty: bool,
    /// Engine::new(config, false): no collector
    no_update: bool,
    /// engine.start(report, true): quick initial validation from the store only; fails on a new publication point
    initial: bool,
    /// the RRDP transport is enabled (no CA of the generated repositories announces RRDP, so nothing is fetched with
    /// it; the collector exists and takes part in the cleanup)
    #[serde(default)]
    rrdp: bool,
}

#[derive(Serialize, Deserialize, Clone, Debug)]
struct Input {
    spec: RepoSpec,
    /// build "now" = real now - back_secs (0 = now); with 3600 a validity of 3604 s ends 4 s after the build
    back_secs: i64,
    /// earlier runs (normal `World::run`, cleanup included)
    history: Vec<ServePlan>,
    tamper: Vec<Tamper>,
    last: Last,
}

//------------ listing the cache ---------------------------------------------------------

#[derive(Clone, Debug)]
struct PointInfo { success: bool, status_secs: i64, not_after: Option<i64>, notify: Option<String>, host: String, module: String }

#[derive(Clone, Debug, Default)]
struct Listing {
    store_rsync: Vec<(String, Option<PointInfo>)>,
    store_rrdp: Vec<(String, Option<PointInfo>)>,
    ta: Vec<(String, bool)>,
    tmp: Vec<String>,
    /// top-level entries of <cache>/rsync: (name, None = file | Some(entries))
    rsync: Vec<(String, Option<Vec<String>>)>,
    /// everything below <cache>/rrdp: top-level files; the entries of `tmp`; per authority directory its entries
    /// (file: Some(Some(notify)) = an archive the real reader opens, Some(None) = a file it does not; None = directory)
    rrdp: Vec<String>,
    rrdp_tmp: Option<Vec<String>>,
    rrdp_auth: Vec<(String, Vec<(String, Option<Option<String>>)>)>,
}

fn walk(dir: &Path, base: &Path, out: &mut Vec<(String, PathBuf)>) {
    let rd = match std::fs::read_dir(dir) { Ok(rd) => rd, Err(_) => return };
    let mut entries: Vec<_> = rd.flatten().map(|e| e.path()).collect();
    entries.sort();
    for p in entries {
        if p.is_dir() { walk(&p, base, out) } else { out.push((p.strip_prefix(base).unwrap().display().to_string(), p.clone())); }
    }
}

fn point_info(path: &Path) -> Option<PointInfo> {
    // loadable exactly when the real reader says so
    let point = StoredPoint::load_quietly(path.to_path_buf())?;
    let mut file = std::io::BufReader::new(std::fs::File::open(path).ok()?);
    let header = StoredPointHeader::read(&mut file).ok()?;
    let (uri, notify, success, time) = header.verif_parts();
    Some(PointInfo {
        success, status_secs: time.timestamp(),
        not_after: point.manifest().map(|m| m.not_after.timestamp()),
        notify: notify.map(|n| n.to_string()),
        host: uri.canonical_authority().to_string(), module: uri.module_name().to_string(),
    })
}

fn listing(cache: &Path) -> Listing {
    let mut l = Listing::default();
    let stored = cache.join("stored");
    let mut files = Vec::new();
    walk(&stored.join("rsync"), &stored, &mut files);
    for (rel, p) in files { l.store_rsync.push((rel, point_info(&p))); }
    let mut files = Vec::new();
    walk(&stored.join("rrdp"), &stored, &mut files);
    for (rel, p) in files { l.store_rrdp.push((rel, point_info(&p))); }
    let mut files = Vec::new();
    walk(&stored.join("ta"), &stored, &mut files);
    for (rel, p) in files {
        let keep = std::fs::read(&p).ok().and_then(|b| Cert::decode(bytes::Bytes::from(b)).ok())
            .map(|c| c.validity().not_after() > Time::now()).unwrap_or(false);
        l.ta.push((rel, keep));
    }
    let mut files = Vec::new();
    walk(&stored.join("tmp"), &stored, &mut files);
    l.tmp = files.into_iter().map(|f| f.0).collect();
    if let Ok(rd) = std::fs::read_dir(cache.join("rsync")) {
        let mut tops: Vec<PathBuf> = rd.flatten().map(|e| e.path()).collect();
        tops.sort();
        for p in tops {
            let name = p.file_name().unwrap().to_string_lossy().to_string();
            if p.is_dir() {
                let mut subs: Vec<String> = std::fs::read_dir(&p).map(|rd| rd.flatten().map(|e| e.file_name().to_string_lossy().to_string()).collect()).unwrap_or_default();
                subs.sort();
                l.rsync.push((name, Some(subs)));
            } else { l.rsync.push((name, None)); }
        }
    }
    if let Ok(rd) = std::fs::read_dir(cache.join("rrdp")) {
        let mut tops: Vec<PathBuf> = rd.flatten().map(|e| e.path()).collect();
        tops.sort();
        for p in tops {
            let name = p.file_name().unwrap().to_string_lossy().to_string();
            if !p.is_dir() { l.rrdp.push(format!("rrdp/{}", name)); continue }
            let mut subs: Vec<PathBuf> = std::fs::read_dir(&p).map(|rd| rd.flatten().map(|e| e.path()).collect()).unwrap_or_default();
            subs.sort();
            if name == "tmp" { l.rrdp_tmp = Some(subs.iter().map(|q| format!("rrdp/tmp/{}", q.file_name().unwrap().to_string_lossy())).collect()); continue }
            let mut es = Vec::new();
            for q in subs {
                let rel = format!("rrdp/{}/{}", name, q.file_name().unwrap().to_string_lossy());
                if q.is_dir() { es.push((rel, None)); continue }
                // what the real reader makes of the file (a copy is opened: opening a corrupt archive removes it)
                let copy = std::env::temp_dir().join(format!("c40-archive-{}-{}", std::process::id(), es.len()));
                let _ = std::fs::copy(&q, &copy);
                let notify = routinator::collector::RrdpArchive::open(std::sync::Arc::new(copy.clone())).ok()
                    .and_then(|a| a.load_state().ok()).map(|st| st.rpki_notify.to_string());
                let _ = std::fs::remove_file(&copy);
                es.push((rel, Some(notify)));
            }
            l.rrdp_auth.push((name, es));
        }
    }
    l
}

//------------ Coq printing --------------------------------------------------------------------

#[derive(Default)]
struct Intern { map: BTreeMap<String, u64> }
impl Intern {
    fn id(&mut self, s: &str) -> u64 { let n = self.map.len() as u64 + 1; *self.map.entry(s.to_string()).or_insert(n) }
}

fn z(v: i64) -> String { format!("({})%Z", v) }
fn n(v: u64) -> String { format!("{}%N", v) }

fn list_of(v: Vec<String>) -> String { format!("[{}]", v.join("; ")) }

/// `t0_ms`: unix milliseconds the times are made relative to
fn fs_coq(l: &Listing, names: &mut Intern, t0_ms: i64) -> String {
    fn files(v: &[(String, Option<PointInfo>)], names: &mut Intern, t0_ms: i64) -> String {
        let mut out = Vec::new();
        for (rel, p) in v {
            let id = names.id(&format!("file:{}", rel));
            let pt = match p {
                None => "None".to_string(),
                Some(p) => {
                    let notify = p.notify.as_ref().map(|s| n(names.id(&format!("notify:{}", s))));
                    let host = names.id(&format!("name:{}", p.host));
                    let module = names.id(&format!("name:{}", p.module));
                    format!(
                        "(Some {{| sp_status := {}; sp_manifest := {}; sp_notify := {}; sp_host := {}; sp_module := {}; sp_clock := 0%Z |}})",
                        if p.success { "Success".to_string() } else { format!("(LastAttempt {})", z(p.status_secs * 1000 - t0_ms)) },
                        coq_opt(p.not_after.map(|t| z(t * 1000 - t0_ms))), coq_opt(notify), n(host), n(module))
                }
            };
            out.push(format!("{{| sf_id := {}; sf_point := {} |}}", n(id), pt));
        }
        list_of(out)
    }
    let rrdp = files(&l.store_rrdp, names, t0_ms);
    let rsync = files(&l.store_rsync, names, t0_ms);
    let mut ta = Vec::new();
    for (rel, keep) in &l.ta { ta.push(format!("({}, {})", n(names.id(&format!("file:{}", rel))), coq_bool(*keep))); }
    let mut tmp = Vec::new();
    for rel in &l.tmp { tmp.push(n(names.id(&format!("file:{}", rel)))); }
    let mut co = Vec::new();
    for (name, subs) in &l.rsync {
        let id = names.id(&format!("name:{}", name));
        match subs {
            None => co.push(format!("RFile {}", n(id))),
            Some(subs) => {
                let mut ms = Vec::new();
                for s in subs { ms.push(n(names.id(&format!("name:{}", s)))); }
                co.push(format!("RHost {} {}", n(id), list_of(ms)));
            }
        }
    }
    // the RRDP collector's directory
    let mut corr = Vec::new();
    for rel in &l.rrdp { corr.push(format!("RRFile {}", n(names.id(&format!("file:{}", rel))))); }
    if let Some(t) = &l.rrdp_tmp { corr.push(format!("RRTmp {}", list_of(t.iter().map(|rel| n(names.id(&format!("file:{}", rel)))).collect()))); }
    for (auth, es) in &l.rrdp_auth {
        let mut v = Vec::new();
        for (rel, e) in es {
            let id = n(names.id(&format!("file:{}", rel)));
            match e {
                None => v.push(format!("StrayDir {}", id)),
                Some(notify) => v.push(format!("Archive {} {}", id, coq_opt(notify.as_ref().map(|s| n(names.id(&format!("notify:{}", s))))))),
            }
        }
        corr.push(format!("RRAuth {} {}", n(names.id(&format!("name:{}", auth))), list_of(v)));
    }
    format!("{{| st_ta := {}; st_rrdp := {}; st_rsync := {}; st_tmp := {}; co_rsync := {}; co_rrdp := {} |}}",
            list_of(ta), rrdp, rsync, list_of(tmp), list_of(co), list_of(corr))
}

fn listing_json(l: &Listing) -> Value {
    json!({
        "store_rsync": l.store_rsync.iter().map(|(r, p)| json!([r, p.as_ref().map(|p| json!({"manifest_not_after": p.not_after, "success": p.success, "status": p.status_secs, "notify": p.notify}))])).collect::<Vec<_>>(),
        "store_rrdp": l.store_rrdp.iter().map(|(r, p)| json!([r, p.is_some()])).collect::<Vec<_>>(),
        "ta": l.ta, "tmp": l.tmp, "rsync": l.rsync, "rrdp": l.rrdp, "rrdp_tmp": l.rrdp_tmp,
        "rrdp_auth": l.rrdp_auth.iter().map(|(a, es)| json!([a, es.iter().map(|(r, e)| json!([r, e])).collect::<Vec<_>>()])).collect::<Vec<_>>(),
    })
}

//------------ tampering ---------------------------------------------------------------------------

fn point_path(world: &World, ca: &str) -> PathBuf {
    let uri = &world.built.truth.ca(ca).expect("ca").mft_uri;
    world.cache_dir().join("stored/rsync/rsync").join(uri.strip_prefix("rsync://").unwrap())
}

/// (header, manifest if any, rest of the file)
fn read_point(path: &Path) -> Option<(StoredPointHeader, Option<StoredManifest>, Vec<u8>)> {
    use std::io::Read;
    let mut file = std::io::BufReader::new(std::fs::File::open(path).ok()?);
    let header = StoredPointHeader::read(&mut file).ok()?;
    let success = header.verif_parts().2;
    let manifest = if success { Some(StoredManifest::read(&mut file).ok()?) } else { None };
    let mut rest = Vec::new();
    file.read_to_end(&mut rest).ok()?;
    Some((header, manifest, rest))
}

fn write_point(path: &Path, header: &StoredPointHeader, manifest: &Option<StoredManifest>, rest: &[u8]) {
    use std::io::Write;
    if let Some(p) = path.parent() { std::fs::create_dir_all(p).unwrap(); }
    let mut file = std::fs::File::create(path).unwrap();
    header.write(&mut file).unwrap();
    if let Some(m) = manifest { m.write(&mut file).unwrap(); }
    file.write_all(rest).unwrap();
}

fn apply_tamper(world: &World, t: &Tamper) {
    let cache = world.cache_dir();
    let junk = |p: PathBuf| { if let Some(d) = p.parent() { std::fs::create_dir_all(d).unwrap(); } std::fs::write(p, b"junk, not a stored object").unwrap(); };
    match t {
        Tamper::ExpirePoint { ca } => {
            let path = point_path(world, ca);
            if let Some((h, Some(mut m), rest)) = read_point(&path) {
                m.not_after = Time::now() - chrono::Duration::hours(1);
                write_point(&path, &h, &Some(m), &rest);
            }
        }
        Tamper::AgeAttempt { ca } => {
            let path = point_path(world, ca);
            if let Some((h, None, rest)) = read_point(&path) {
                let (uri, notify, _, _) = h.verif_parts();
                let h2 = StoredPointHeader::verif_from_parts(uri.clone(), notify.cloned(), false, Time::now() - chrono::Duration::hours(2));
                write_point(&path, &h2, &None, &rest);
            }
        }
        Tamper::DeletePoint { ca } => { let _ = std::fs::remove_file(point_path(world, ca)); }
        Tamper::Marker { ca, offset } => {
            let path = point_path(world, ca);
            let uri = uri::Rsync::from_str(&world.built.truth.ca(ca).expect("ca").mft_uri).expect("uri");
            let h = StoredPointHeader::verif_from_parts(uri, None, false, Time::now() + chrono::Duration::seconds(*offset));
            write_point(&path, &h, &None, &[]);
        }
        Tamper::TruncatePoint { ca } => {
            let path = point_path(world, ca);
            if let Some((h, Some(_), _)) = read_point(&path) {
                let mut head = Vec::new();
                h.write(&mut head).unwrap();
                let all = std::fs::read(&path).unwrap();
                std::fs::write(&path, &all[..(head.len() + 3).min(all.len())]).unwrap();
            }
        }
        Tamper::JunkStore { rel } => junk(cache.join("stored/rsync").join(rel)),
        Tamper::JunkRsync { rel, dir } => {
            if *dir { junk(cache.join("rsync").join(rel).join("x.bin")) } else { junk(cache.join("rsync").join(rel)) }
        }
        Tamper::Tmp { name } => junk(cache.join("stored/tmp").join(name)),
        Tamper::JunkTa { rel } => junk(cache.join("stored/ta").join(rel)),
        Tamper::ToRrdpTree { ca, notify } => {
            let path = point_path(world, ca);
            if let Some((h, m, rest)) = read_point(&path) {
                let (uri, _, success, time) = h.verif_parts();
                let notify = uri::Https::from_str(notify).expect("https uri");
                let h2 = StoredPointHeader::verif_from_parts(uri.clone(), Some(notify.clone()), success, time);
                let store = Store::new(&world.config(&RunCfg::default())).expect("store");
                let target = store.verif_point_path(Some(&notify), uri);
                write_point(&target, &h2, &m, &rest);
                let _ = std::fs::remove_file(&path);
            }
        }
        Tamper::PlantArchive { notify, expired } => {
            let uri = uri::Https::from_str(notify).expect("https uri");
            let mut config = world.config(&RunCfg::default());
            config.disable_rrdp = false;
            let path = config.verif_rrdp_repository_path(&uri).expect("archive path");
            if let Some(d) = path.parent() { std::fs::create_dir_all(d).unwrap(); }
            let now = chrono::Utc::now().timestamp();
            let state = routinator::collector::RrdpArchive::verif_state_new(
                uri, uuid::Uuid::from_u128(0xa1a2a3a4b1b2c1c2d1d2d3d4d5d6d7d8u128), 7, now - 7200,
                if *expired { now - 3600 } else { now + 3600 }, None, None, Default::default());
            let mut a = routinator::collector::RrdpArchive::create(std::sync::Arc::new(path)).ok().expect("create archive");
            a.publish_state(&state).ok().expect("publish_state");
        }
        Tamper::SleepUntil { secs } => {
            let target = world.built.now + 3600 + secs;
            loop {
                let now = chrono::Utc::now().timestamp_millis();
                if now >= target * 1000 + 1500 { break }
                std::thread::sleep(std::time::Duration::from_millis(((target * 1000 + 1500 - now) as u64).min(500)));
            }
        }
    }
}

//------------ the last run ---------------------------------------------------------------------------

fn prepare(inp: &Input) -> World {
    let now = chrono::Utc::now().timestamp() - inp.back_secs;
    let built = build_at(&inp.spec, now).unwrap_or_else(|e| panic!("build: {}", e));
    let world = World::new(built).expect("world");
    for plan in &inp.history {
        world.serve(plan).unwrap();
        let _ = world.run(&RunCfg::default());
    }
    for t in &inp.tamper { apply_tamper(&world, t); }
    world.serve(&inp.last.plan).unwrap();
    world
}

fn engine_for(world: &World, last: &Last) -> (routinator::config::Config, Result<Engine, String>) {
    routinator::verif::set_forced("rpkigen.inprocess_rsync", vec![if rsync_mode() == RsyncMode::InProcess { 1 } else { 0 }]);
    let _ = std::fs::remove_file(world.dir.join("fetch.log"));
    let cfg = RunCfg { dirty: last.dirty, no_update: last.no_update, ..RunCfg::default() };
    let mut config = world.config(&cfg);
    if last.rrdp { config.disable_rrdp = false; }
    let engine = match Engine::new(&config, !last.no_update) {
        Err(_) => Err("Engine::new failed".to_string()),
        Ok(mut e) => if e.ignite().is_err() { Err("ignite failed".into()) } else { Ok(e) },
    };
    (config, engine)
}

fn fetched(world: &World) -> Vec<(String, String)> {
    std::fs::read_to_string(world.dir.join("fetch.log")).map(|t| t.lines().filter_map(|l| {
        let mut it = l.trim_end_matches('/').splitn(2, '/');
        Some((it.next()?.to_string(), it.next()?.to_string()))
    }).collect()).unwrap_or_default()
}

fn run_cleanup_case(input: &Value) -> CaseOut {
    let inp: Input = serde_json::from_value(input.clone()).expect("input");
    let world = prepare(&inp);
    let cache = world.cache_dir();
    let (config, engine) = engine_for(&world, &inp.last);
    let engine = match engine {
        Ok(e) => e,
        Err(e) => panic!("cannot create the engine: {}", e),
    };
    // exactly the body of ValidationReport::process, with the cache listed around run.cleanup()
    let report = ValidationReport::new(&config);
    // store::Run::started (taken inside engine.start) has sub-second precision while the LastAttempt times in the
    // files are whole seconds: start the run away from a second boundary so that the measured start time decides
    // `when >= started` the same way as the real one
    let (mut run, started_ms) = loop {
        loop {
            let f = chrono::Utc::now().timestamp_subsec_millis();
            if (20..700).contains(&f) { break }
            std::thread::sleep(std::time::Duration::from_millis(10));
        }
        let t_before = chrono::Utc::now().timestamp_millis();
        let run = engine.start(&report, inp.last.initial).expect("start");
        let t_after = chrono::Utc::now().timestamp_millis();
        if t_before / 1000 == t_after / 1000 { break (run, t_after) }
    };
    let ok = run.process().is_ok();
    let before = listing(&cache);
    let t0_ms = chrono::Utc::now().timestamp_millis();
    let mut cleanup_failed = false;
    if ok { cleanup_failed = run.cleanup().is_err(); }
    let after = listing(&cache);
    let upd = fetched(&world);
    let _ = run.done();
    drop(engine);

    let mut names = Intern::default();
    let before_coq = fs_coq(&before, &mut names, t0_ms);
    let after_coq = fs_coq(&after, &mut names, t0_ms);
    let ri = format!(
        "{{| ri_dirty := {}; ri_rsync := {}; ri_rrdp := {}; ri_started := {}; ri_upd_rsync := {}; ri_upd_rrdp := [] |}}",
        coq_bool(inp.last.dirty), coq_bool(!inp.last.no_update && !inp.last.initial),
        coq_bool(inp.last.rrdp && !inp.last.no_update && !inp.last.initial), z(started_ms - t0_ms),
        { let mut v = Vec::new(); for (h, m) in &upd { let a = names.id(&format!("name:{}", h)); let b = names.id(&format!("name:{}", m)); v.push(format!("({}, {})", n(a), n(b))); } list_of(v) });
    let coq = format!("{{| c_ok := {}; c_ri := {}; c_before := {}; c_after := {} |}}", coq_bool(ok && !cleanup_failed), ri, before_coq, after_coq);
    let removed = before.store_rsync.len() + before.store_rrdp.len() + before.tmp.len() + before.rsync.iter().map(|r| 1 + r.1.as_ref().map(|v| v.len()).unwrap_or(0)).sum::<usize>()
        - (after.store_rsync.len() + after.store_rrdp.len() + after.tmp.len() + after.rsync.iter().map(|r| 1 + r.1.as_ref().map(|v| v.len()).unwrap_or(0)).sum::<usize>());
    CaseOut {
        obs: json!({"ok": ok, "cleanup_failed": cleanup_failed, "updated": upd, "before": listing_json(&before), "after": listing_json(&after), "removed": removed}),
        coq, nontrivial: removed > 0 || inp.last.dirty || !ok,
    }
}

fn run_seq_case(input: &Value) -> CaseOut {
    let inp: Input = serde_json::from_value(input.clone()).expect("input");
    let world = prepare(&inp);
    let cache = world.cache_dir();
    let before = listing(&cache);
    let (config, engine) = engine_for(&world, &inp.last);
    let ok = match engine {
        Ok(engine) => ValidationReport::process(&engine, &config, inp.last.initial).is_ok(),
        Err(_) => false,
    };
    let after = listing(&cache);
    let t0_ms = chrono::Utc::now().timestamp_millis();
    let mut names = Intern::default();
    let before_coq = fs_coq(&before, &mut names, t0_ms);
    let after_coq = fs_coq(&after, &mut names, t0_ms);
    let coq = format!("{{| q_ok := {}; q_dirty := {}; q_before := {}; q_after := {} |}}", coq_bool(ok), coq_bool(inp.last.dirty), before_coq, after_coq);
    let gone = before.store_rsync.iter().filter(|f| !after.store_rsync.iter().any(|g| g.0 == f.0)).count()
        + before.tmp.iter().filter(|f| !after.tmp.contains(f)).count()
        + before.rsync.iter().filter(|f| !after.rsync.iter().any(|g| g.0 == f.0)).count();
    CaseOut {
        obs: json!({"ok": ok, "dirty": inp.last.dirty, "before": listing_json(&before), "after": listing_json(&after), "gone": gone}),
        coq, nontrivial: !ok || inp.last.dirty || gone > 0,
    }
}

//------------ generators ---------------------------------------------------------------------------

const R1: (&str, &str) = ("rpki.alpha.example", "repo");
const R2: (&str, &str) = ("rpki.beta.example", "repo");
const R3: (&str, &str) = ("rpki.gamma.example", "repo");
const R4: (&str, &str) = ("rpki.alpha.example", "members");
const R5: (&str, &str) = ("rpki.delta.example", "moved");

/// TAL alpha: A (R1) -> A1 (R4, alone in its module) -> A3 (R3); A -> A2 (R3); A -> X (R2, manifest never valid).
/// TAL beta: B (R2).  Version 1 of A no longer lists A1 (so A1 and A3 are not visited) and lists A1b (R5) instead:
/// the CA "moved" to another repository.  Everything else has one version.
fn world_spec(short_a1: Option<i64>) -> RepoSpec {
    let mut s = Scen::new();
    s.add_ta("alpha", "A", 0, R1.0, R1.1, res(&["10.0.0.0/8"], &[], &[(64496, 64511)]));
    s.add_child("A", "A1", 1, R4.0, R4.1, res(&["10.1.0.0/16"], &[], &[(64496, 64499)]));
    s.add_child("A", "A2", 2, R3.0, R3.1, res(&["10.2.0.0/16"], &[], &[(64500, 64503)]));
    s.add_child("A1", "A3", 3, R3.0, R3.1, res(&["10.1.3.0/24"], &[], &[(64496, 64497)]));
    s.add_child("A", "X", 5, R2.0, R2.1, res(&["10.9.0.0/16"], &[], &[]));
    s.add_roa("A", "a.roa", 64496, &[("10.0.0.0/16", None)]);
    s.add_roa("A1", "a1.roa", 64497, &[("10.1.0.0/16", Some(24))]);
    s.add_roa("A2", "a2.roa", 64500, &[("10.2.0.0/16", None)]);
    s.add_roa("A3", "a3.roa", 64497, &[("10.1.3.0/24", None)]);
    s.add_roa("X", "x.roa", 64496, &[("10.9.0.0/16", None)]);
    s.version_mut("X", 0).mft.faults.push(Fault::BadSignature);
    s.add_ta("beta", "B", 4, R2.0, R2.1, res(&["172.16.0.0/12"], &[], &[(65000, 65010)]));
    s.add_roa("B", "b.roa", 65000, &[("172.16.0.0/12", Some(16))]);
    // version 1 of A: A1 is gone, A1b (same resources, other repository) appears
    s.push_version("A");
    s.add_point("A1b", 6, R5.0, R5.1);
    s.add_roa("A1b", "a1b.roa", 64498, &[("10.1.128.0/17", None)]);
    let cert = s.ca_cert_times();
    let v1 = &mut s.spec.ca_mut("A").unwrap().versions[1];
    v1.objects.retain(|o| o.name != "A1.cer");
    v1.objects.push(ObjSpec { name: "A1b.cer".into(), kind: ObjKind::Ca { subject: "A1b".into(), key: None, resources: res(&["10.1.0.0/16"], &[], &[(64496, 64499)]), cert }, faults: vec![] });
    if let Some(secs) = short_a1 {
        // A1's manifest EE certificate ends `secs` seconds after (build now + 1 h)
        s.version_mut("A1", 0).mft.ee.not_after = HOUR + secs;
    }
    s.spec
}

fn case(class: &str, spec: &RepoSpec, back: i64, history: Vec<ServePlan>, tamper: Vec<Tamper>, last: Last) -> (String, Value) {
    (class.to_string(), serde_json::to_value(Input { spec: spec.clone(), back_secs: back, history, tamper, last }).unwrap())
}

fn last(step: usize, dirty: bool) -> Last { Last { plan: ServePlan::step(step), dirty, no_update: false, initial: false, rrdp: false } }

fn junk_set(rng: &mut Rng) -> Vec<Tamper> {
    let mut v = vec![
        Tamper::JunkStore { rel: "rsync/rpki.alpha.example/repo/A/leftover.bin".into() },
        Tamper::JunkStore { rel: "rsync/unknown.example/mod/x/y.mft".into() },
        Tamper::JunkRsync { rel: "stray-file".into(), dir: false },
        Tamper::JunkRsync { rel: "unused.example/mod".into(), dir: true },
        Tamper::JunkRsync { rel: "rpki.gamma.example/other".into(), dir: true },
        Tamper::JunkRsync { rel: "rpki.gamma.example/afile".into(), dir: false },
        Tamper::Tmp { name: "tmp123".into() },
        Tamper::JunkTa { rel: "rsync/old.example/abcdef.cer".into() },
    ];
    rng.shuffle(&mut v);
    let k = rng.range(3, v.len() as u64) as usize;
    v.truncate(k);
    v
}

fn gen(rng: &mut Rng, tier: &str) -> Vec<(String, Value)> {
    let thorough = tier == "thorough";
    let seq = seq_stream();
    let mut out = Vec::new();
    let w = world_spec(None);
    let s0 = || ServePlan::step(0);
    let all_junk = vec![
        Tamper::JunkStore { rel: "rsync/rpki.alpha.example/repo/A/leftover.bin".into() },
        Tamper::JunkStore { rel: "rsync/unknown.example/mod/x/y.mft".into() },
        Tamper::JunkRsync { rel: "stray-file".into(), dir: false },
        Tamper::JunkRsync { rel: "unused.example/mod".into(), dir: true },
        Tamper::JunkRsync { rel: "rpki.gamma.example/other".into(), dir: true },
        Tamper::Tmp { name: "tmp123".into() },
        Tamper::JunkTa { rel: "rsync/old.example/abcdef.cer".into() },
    ];
    if seq {
        // real ValidationReport::process: dirty, failed (initial run meeting a new point), and plain for contrast
        for dirty in [true, false] {
            out.push(case(if dirty { "seq-dirty-junk" } else { "seq-clean-junk" }, &w, 0, vec![s0()], all_junk.clone(), last(1, dirty)));
            let mut t = all_junk.clone(); t.push(Tamper::ExpirePoint { ca: "A1".into() }); t.push(Tamper::AgeAttempt { ca: "X".into() });
            out.push(case(if dirty { "seq-dirty-expired" } else { "seq-clean-expired" }, &w, 0, vec![s0()], t, last(1, dirty)));
        }
        let mut t = all_junk.clone(); t.push(Tamper::DeletePoint { ca: "A2".into() }); t.push(Tamper::ExpirePoint { ca: "A3".into() });
        out.push(case("seq-failed-initial", &w, 0, vec![s0()], t.clone(), Last { plan: s0(), dirty: false, no_update: false, initial: true, rrdp: false }));
        out.push(case("seq-failed-initial-dirty", &w, 0, vec![s0()], t, Last { plan: s0(), dirty: true, no_update: false, initial: true, rrdp: false }));
        out.push(case("seq-ok-initial", &w, 0, vec![s0()], all_junk.clone(), Last { plan: s0(), dirty: false, no_update: false, initial: true, rrdp: false }));
        let n = if thorough { 30 } else { 6 };
        for _ in 0..n {
            let mut t = junk_set(rng);
            if rng.chance(1, 2) { t.push(Tamper::ExpirePoint { ca: rng.pick(&["A1", "A2", "A3", "B"]).to_string() }); }
            let fail = rng.chance(1, 2);
            if fail { t.push(Tamper::DeletePoint { ca: rng.pick(&["A2", "A3", "B"]).to_string() }); }
            let dirty = !fail || rng.chance(1, 2);
            out.push(case(if fail { "seq-random-failed" } else { "seq-random-dirty" }, &w, 0, vec![s0()], t,
                          Last { plan: s0(), dirty, no_update: false, initial: fail, rrdp: false }));
        }
        return out
    }

    // ---- stream cleanup ----
    // nothing to remove
    out.push(case("plain", &w, 0, vec![s0()], vec![], last(0, false)));
    out.push(case("first-run", &w, 0, vec![], vec![], last(0, false)));
    // A1 no longer listed by its parent: A1 and A3 are not visited, their stored manifests are still valid
    out.push(case("dropped-kept", &w, 0, vec![s0()], vec![], last(1, false)));
    out.push(case("dropped-kept-dirty", &w, 0, vec![s0()], vec![], last(1, true)));
    // ... stored manifest expired: the point goes, and with it the module only it lived in
    for who in [vec!["A1"], vec!["A3"], vec!["A1", "A3"], vec!["A1", "A3", "A2", "B"]] {
        let t: Vec<Tamper> = who.iter().map(|c| Tamper::ExpirePoint { ca: c.to_string() }).collect();
        out.push(case("dropped-expired", &w, 0, vec![s0()], t.clone(), last(1, false)));
        out.push(case("dropped-expired-dirty", &w, 0, vec![s0()], t, last(1, true)));
    }
    // visited points whose stored manifest "expired" in the store's cached field (they are re-validated from the
    // collected copy, which is the same as the stored one, so the stored version is used and then removed)
    out.push(case("visited-expired", &w, 0, vec![s0()], vec![Tamper::ExpirePoint { ca: "A2".into() }], last(0, false)));
    // the never-valid point X: marker written in this run / an old marker of a point that is not visited any more
    out.push(case("marker-fresh", &w, 0, vec![s0()], vec![], last(0, false)));
    out.push(case("marker-aged-visited", &w, 0, vec![s0()], vec![Tamper::AgeAttempt { ca: "X".into() }], last(0, false)));
    {
        // X not listed any more in A's version 1? it still is; use a world where the parent drops X instead
        let mut w2 = w.clone();
        let v1 = &mut w2.ca_mut("A").unwrap().versions[1];
        v1.objects.retain(|o| o.name != "X.cer");
        out.push(case("marker-aged-unvisited", &w2, 0, vec![s0()], vec![Tamper::AgeAttempt { ca: "X".into() }], last(1, false)));
        out.push(case("marker-recent-unvisited", &w2, 0, vec![s0()], vec![], last(1, false)));
    }
    // bare markers of points that are not visited in the last run: an old one goes, one "from the future" (clock
    // skew) is retained and keeps its rsync module like a stored point would
    for (cls, off) in [("marker-old-unvisited", -7200), ("marker-future-unvisited", 3600)] {
        out.push(case(cls, &w, 0, vec![s0()], vec![Tamper::Marker { ca: "A1".into(), offset: off }, Tamper::ExpirePoint { ca: "A3".into() }], last(1, false)));
    }
    out.push(case("marker-old-visited", &w, 0, vec![s0()], vec![Tamper::Marker { ca: "X".into(), offset: -7200 }], last(0, false)));
    // junk everywhere
    out.push(case("junk", &w, 0, vec![s0()], all_junk.clone(), last(0, false)));
    out.push(case("junk-dirty", &w, 0, vec![s0()], all_junk.clone(), last(0, true)));
    out.push(case("truncated-point", &w, 0, vec![s0()], vec![Tamper::TruncatePoint { ca: "A3".into() }], last(1, false)));
    out.push(case("truncated-point-visited", &w, 0, vec![s0()], vec![Tamper::TruncatePoint { ca: "A2".into() }], last(0, false)));
    // a module that cannot be reached in this run is still "used by this run"
    for m in [R3, R4, R2] {
        let plan = ServePlan::step(1).unreachable(&format!("{}/{}", m.0, m.1));
        out.push(case("unreachable", &w, 0, vec![s0()], vec![Tamper::ExpirePoint { ca: "A1".into() }],
                      Last { plan, dirty: false, no_update: false, initial: false, rrdp: false }));
    }
    // no collector: the collector's directory is left alone whatever the store says
    out.push(case("no-update", &w, 0, vec![s0()], vec![Tamper::ExpirePoint { ca: "A1".into() }, Tamper::ExpirePoint { ca: "A3".into() }, Tamper::JunkRsync { rel: "stray-file".into(), dir: false }],
                  Last { plan: ServePlan::step(1), dirty: false, no_update: true, initial: false, rrdp: false }));
    // failed run (quick initial validation meets a point that is not in the store): no cleanup
    out.push(case("failed-initial", &w, 0, vec![s0()], { let mut t = all_junk.clone(); t.push(Tamper::DeletePoint { ca: "A2".into() }); t.push(Tamper::ExpirePoint { ca: "A3".into() }); t },
                  Last { plan: s0(), dirty: false, no_update: false, initial: true, rrdp: false }));
    out.push(case("ok-initial", &w, 0, vec![s0()], vec![Tamper::ExpirePoint { ca: "A3".into() }, Tamper::Tmp { name: "t".into() }],
                  Last { plan: s0(), dirty: false, no_update: false, initial: true, rrdp: false }));
    // a stored point in the RRDP tree keeps its RRDP repository, not its rsync module
    for (cls, extra) in [("rrdp-tree-point", vec![]), ("rrdp-tree-point-expired", vec![Tamper::ExpirePoint { ca: "A1".into() }])] {
        let mut t = extra;
        t.push(Tamper::ToRrdpTree { ca: "A1".into(), notify: "https://rrdp.alpha.example/notification.xml".into() });
        out.push(case(cls, &w, 0, vec![s0()], t, last(1, false)));
    }
    // RRDP archives in the collector's directory (the RRDP transport is enabled; no CA announces RRDP, so the
    // collector fetches nothing and only takes part in the cleanup): the archive of the repository that a stored point
    // in the RRDP tree names survives - also past its best-before time -, an archive nobody names goes
    for expired in [false, true] {
        for point_expired in [false, true] {
            let mut t = vec![];
            if point_expired { t.push(Tamper::ExpirePoint { ca: "A1".into() }); }
            t.push(Tamper::ToRrdpTree { ca: "A1".into(), notify: "https://rrdp.alpha.example/notification.xml".into() });
            t.push(Tamper::PlantArchive { notify: "https://rrdp.alpha.example/notification.xml".into(), expired });
            t.push(Tamper::PlantArchive { notify: "https://rrdp.other.example/n.xml".into(), expired: false });
            t.push(Tamper::PlantArchive { notify: "https://rrdp.alpha.example/unused/notification.xml".into(), expired });
            let cls = format!("rrdp-archives{}{}", if expired { "-stale" } else { "" }, if point_expired { "-point-expired" } else { "" });
            out.push(case(&cls, &w, 0, vec![s0()], t.clone(), Last { plan: ServePlan::step(1), dirty: false, no_update: false, initial: false, rrdp: true }));
            if !expired && !point_expired {
                out.push(case("rrdp-archives-dirty", &w, 0, vec![s0()], t.clone(), Last { plan: ServePlan::step(1), dirty: true, no_update: false, initial: false, rrdp: true }));
                out.push(case("rrdp-archives-transport-off", &w, 0, vec![s0()], t, Last { plan: ServePlan::step(1), dirty: false, no_update: false, initial: false, rrdp: false }));
            }
        }
    }
    // the CA moved: after two more runs everything of the old location that expired is gone, the new one stays
    out.push(case("moved-later", &w, 0, vec![s0(), ServePlan::step(1)], vec![Tamper::ExpirePoint { ca: "A1".into() }], last(1, false)));
    // real expiry: A1's manifest certificate ends 4 s after the build; it is stored by run 1 and has expired at the last run
    let ws = world_spec(Some(4));
    out.push(case("real-expiry", &ws, 3600, vec![s0()], vec![Tamper::SleepUntil { secs: 4 }], last(1, false)));
    out.push(case("real-expiry-dirty", &ws, 3600, vec![s0()], vec![Tamper::SleepUntil { secs: 4 }], last(1, true)));
    if thorough { out.push(case("real-not-yet-expired", &world_spec(Some(40)), 3600, vec![s0()], vec![], last(1, false))); }

    // random combinations
    let nrand = if thorough { 200 } else { 40 };
    let cas = ["A", "A1", "A2", "A3", "B", "X"];
    for _ in 0..nrand {
        let mut t = if rng.chance(2, 3) { junk_set(rng) } else { vec![] };
        for ca in cas {
            if rng.chance(1, 4) { t.push(Tamper::ExpirePoint { ca: ca.into() }); }
            else if rng.chance(1, 12) { t.push(Tamper::TruncatePoint { ca: ca.into() }); }
            else if ca == "A1" && rng.chance(1, 8) { t.push(Tamper::ToRrdpTree { ca: ca.into(), notify: "https://rrdp.alpha.example/notification.xml".into() }); }
        }
        if rng.chance(1, 3) { t.push(Tamper::Marker { ca: rng.pick(&["X", "A1", "A3"]).to_string(), offset: *rng.pick(&[-7200i64, 3600]) }); }
        rng.shuffle(&mut t);
        let history = if rng.chance(1, 5) { vec![s0(), ServePlan::step(1)] } else { vec![s0()] };
        let mut plan = ServePlan::step(rng.below(2) as usize);
        if rng.chance(1, 4) { let m = *rng.pick(&[R1, R2, R3, R4, R5]); plan = plan.unreachable(&format!("{}/{}", m.0, m.1)); }
        let dirty = rng.chance(1, 5);
        let no_update = rng.chance(1, 8);
        out.push(case(if dirty { "random-dirty" } else if no_update { "random-no-update" } else { "random" }, &w, 0, history, t,
                      Last { plan, dirty, no_update, initial: false, rrdp: false }));
    }
    out
}

fn seq_stream() -> bool { std::env::var("C40_STREAM").map(|s| s == "seq").unwrap_or(false) }

fn main() {
    act_as_rsync_if_child();
    let threads = std::env::var("C40_THREADS").ok().and_then(|s| s.parse().ok()).unwrap_or(8);
    if seq_stream() { drive_par(gen, run_seq_case, threads) } else { drive_par(gen, run_cleanup_case, threads) }
}
