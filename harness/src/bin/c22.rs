//! C22: json_str, Prometheus label writing, and the whole /api/v1/status and
//! /metrics documents vs the Coq model (coq/C22).
//!
//! Two streams, chosen by the environment variable C22_STREAM:
//!   escape  one string through `utils::json::json_str` (public) and through
//!           one labelled sample line (`http::verif_sample_line`, cfg hook)
//!   docs    a `Metrics` value with generated TAL names, repository URIs and
//!           log books, put into a `SharedHistory` through the public API and
//!           rendered by the real handlers (`http::verif_api_status_body`,
//!           `http::verif_metrics_body`, cfg hooks)
use std::net::IpAddr;
use std::str::FromStr;
use std::time::{Duration, SystemTime};
use routinator::collector::{HttpStatus, SnapshotReason};
use routinator::config::{Config, FilterPolicy};
use routinator::log::{LogBook, LogBookWriter};
use routinator::metrics::{
    HttpServerMetrics, Metrics, PublicationMetrics, RepositoryMetrics, RrdpRepositoryMetrics,
    RsyncModuleMetrics, RtrServerMetrics, TalMetrics, VrpMetrics,
};
use routinator::payload::{SharedHistory, ValidationReport};
use routinator::slurm::LocalExceptions;
use routinator::utils::json::json_str;
use rpki::repository::tal::TalInfo;
use rpki::rtr::Serial;
use rpki::uri;
use rv_harness::util::{coq_bool, coq_list, drive, CaseOut, Rng};
use serde_json::{json, Value};

/// Coq list of bytes by name (Base/ByteNames.v: B00 .. Bff), much faster for coqc to read than numerals.
fn coq_bytes(b: &[u8]) -> String {
    let mut s = String::with_capacity(b.len() * 4 + 2);
    s.push('[');
    for (i, x) in b.iter().enumerate() {
        if i > 0 { s.push(';') }
        s.push_str(&format!("B{:02x}", x));
    }
    s.push(']');
    s
}

//------------ logger (LogBookWriter only records when the global logger is enabled) ----

struct Quiet;
impl log::Log for Quiet {
    fn enabled(&self, _: &log::Metadata<'_>) -> bool { true }
    fn log(&self, _: &log::Record<'_>) {}
    fn flush(&self) {}
}
static QUIET: Quiet = Quiet;

//------------ nasty strings -------------------------------------------------

/// The class set: every character class the escapers and the two readers distinguish.
const CLASSES: &[char] = &[
    '"', '\\', '\n', '\r', '\t', '\0', '\u{1}', '\u{8}', '\u{c}', '\u{1f}', '\u{7f}', ' ', 'a', 'u', 'n', '0',
    '/', '{', '}', ',', '=', '#', ':', '[', ']', '\'', '%', '<', '&', 'é', 'ß', '€', '\u{80}', '\u{9f}',
    '\u{2028}', '\u{feff}', '\u{d7ff}', '\u{e000}', '😀', '\u{10ffff}',
];
const SPECIAL: &[char] = &['"', '\\', '\n', '\r', '\t', '\0', '\u{1}', '\u{8}', '\u{c}', '\u{1f}', '\u{7f}', '\u{2028}',
    // C1 controls (char::is_control is true for them, they are multi-byte in UTF-8), NBSP, the last code point
    '\u{80}', '\u{85}', '\u{9f}', '\u{a0}', '\u{10ffff}'];

fn nasty(rng: &mut Rng, max: u64) -> String {
    let n = rng.below(max + 1);
    let mut s = String::new();
    for _ in 0..n {
        match rng.below(10) {
            0..=2 => s.push(*rng.pick(SPECIAL)),
            3..=5 => s.push(*rng.pick(CLASSES)),
            6 => s.push(char::from_u32(rng.below(0x20) as u32).unwrap()),
            7 => loop {
                if let Some(c) = char::from_u32(rng.below(0x110000) as u32) { s.push(c); break }
            },
            _ => s.push((b'a' + rng.below(26) as u8) as char),
        }
    }
    s
}

fn needs_escape(s: &str) -> bool { s.chars().any(|c| c == '"' || c == '\\' || (c as u32) < 0x20) }

//------------ a small reader of the exposition format (side check) ----------

/// Parses the text format; returns for every sample line (name, labels, value).
fn prom_read(text: &str) -> Result<Vec<(String, Vec<(String, String)>, String)>, String> {
    let mut out = Vec::new();
    if !text.is_empty() && !text.ends_with('\n') { return Err("no final newline".into()) }
    for line in text.split_terminator('\n') {
        if line.starts_with("# HELP ") || line.starts_with("# TYPE ") {
            let rest = &line[7..];
            let name: String = rest.chars().take_while(|c| c.is_ascii_alphanumeric() || *c == '_' || *c == ':').collect();
            if name.is_empty() || !rest[name.len()..].starts_with(' ') { return Err(format!("bad comment line {:?}", line)) }
            continue
        }
        if line.starts_with('#') { return Err(format!("bad comment line {:?}", line)) }
        let cs: Vec<char> = line.chars().collect();
        let mut i = 0;
        while i < cs.len() && (cs[i].is_ascii_alphanumeric() || cs[i] == '_' || cs[i] == ':') { i += 1 }
        if i == 0 || cs[0].is_ascii_digit() { return Err(format!("bad metric name in {:?}", line)) }
        let name: String = cs[..i].iter().collect();
        let mut labels = Vec::new();
        if i < cs.len() && cs[i] == '{' {
            i += 1;
            loop {
                while i < cs.len() && (cs[i] == ' ' || cs[i] == '\t') { i += 1 }
                if i < cs.len() && cs[i] == '}' { i += 1; break }
                let st = i;
                while i < cs.len() && (cs[i].is_ascii_alphanumeric() || cs[i] == '_') { i += 1 }
                if st == i { return Err(format!("bad label name in {:?}", line)) }
                let lname: String = cs[st..i].iter().collect();
                if i + 1 >= cs.len() || cs[i] != '=' || cs[i + 1] != '"' { return Err(format!("expected =\" in {:?}", line)) }
                i += 2;
                let mut v = String::new();
                loop {
                    if i >= cs.len() { return Err(format!("unterminated label value in {:?}", line)) }
                    match cs[i] {
                        '"' => { i += 1; break }
                        '\\' => {
                            if i + 1 >= cs.len() { return Err(format!("dangling backslash in {:?}", line)) }
                            match cs[i + 1] {
                                '\\' => v.push('\\'), '"' => v.push('"'), 'n' => v.push('\n'),
                                c => return Err(format!("invalid escape \\{} in {:?}", c, line)),
                            }
                            i += 2;
                        }
                        c => { v.push(c); i += 1 }
                    }
                }
                labels.push((lname, v));
                while i < cs.len() && (cs[i] == ' ' || cs[i] == '\t') { i += 1 }
                if i < cs.len() && cs[i] == ',' { i += 1; continue }
                if i < cs.len() && cs[i] == '}' { i += 1; break }
                return Err(format!("expected , or }} in {:?}", line))
            }
        }
        if i >= cs.len() || cs[i] != ' ' { return Err(format!("expected value in {:?}", line)) }
        let val: String = cs[i + 1..].iter().collect();
        let val = val.trim().to_string();
        if val != "NaN" && val != "+Inf" && val != "-Inf" && f64::from_str(&val).is_err() {
            return Err(format!("bad value {:?} in {:?}", val, line))
        }
        out.push((name, labels, val));
    }
    Ok(out)
}

//------------ stream 1: escape ----------------------------------------------

fn gen_escape(rng: &mut Rng, tier: &str) -> Vec<(String, Value)> {
    let mut cases: Vec<(String, Value)> = Vec::new();
    let push = |cases: &mut Vec<(String, Value)>, class: &str, s: String| cases.push((class.into(), json!({"s": s})));
    // (a) every single ASCII character on its own (128 cases); all other code points natively
    //     (exhaustive pre-scan, failures become explicit cases) and in sampled blocks through Coq
    for c in 0u32..128 { push(&mut cases, "single.ascii", char::from_u32(c).unwrap().to_string()) }
    for cp in 0x80u32..0x110000 {
        if let Some(c) = char::from_u32(cp) {
            let s = c.to_string();
            let j = format!("\"{}\"", json_str(&s));
            let l = routinator::http::verif_sample_line(&[("uri", &s)], "1");
            let ok = serde_json::from_str::<String>(&j).map(|r| r == s).unwrap_or(false)
                && prom_read(&l).map(|r| r.len() == 1 && r[0].1[0].1 == s).unwrap_or(false);
            if !ok { push(&mut cases, "prescan.failed_codepoint", s) }
        }
    }
    let block = |cases: &mut Vec<(String, Value)>, start: u32, n: u32| {
        let s: String = (start..start.saturating_add(n)).filter_map(char::from_u32).collect();
        push(cases, "block.codepoints", s)
    };
    for start in [0x80u32, 0x7e0, 0xff0, 0x2000, 0xd780, 0xe000, 0xffe0, 0x10000, 0x1f600, 0xe0000, 0x10ffc0] { block(&mut cases, start, 64) }
    let nblocks = if tier == "thorough" { 600 } else { 40 };
    for _ in 0..nblocks { let st = rng.below(0x110000 - 64) as u32; block(&mut cases, st, 64) }
    // (b) all ordered pairs from the class set, bare and embedded
    for a in CLASSES { for b in CLASSES {
        push(&mut cases, "pairs", format!("{}{}", a, b));
    } }
    for a in SPECIAL { for b in SPECIAL {
        push(&mut cases, "pairs.embedded", format!("x{}y{}z", a, b));
    } }
    // (c) boundary classes of the proofs' case splits
    for s in ["", "\\", "\"", "\\\\", "\\\"", "\"\\", "\\n", "\\u0000", "\\u", "\u{0}\u{0}\u{0}", "a\nb", "foo", "f\"oo", "f\\oo",
              "\\oo", "foo\\", "\u{1f}\u{20}", "\u{7f}\u{80}", "\u{feff}x", "\r\n", "\t\t", "ends with quote\"", "\"starts",
              "\\\\\\\\\\\\\\\\", "\"\"\"\"\"\"\"\"", "\n\n\n\n", "{\"a\": 1}", "rsync://example.net/mod\"ule/", "# HELP x", "a=\"b\", c=\"d\"} 1"] {
        push(&mut cases, "boundary", s.to_string());
    }
    push(&mut cases, "boundary.long", "\\\"\n\u{1}é".repeat(300));
    // (d) structured random
    let n = if tier == "thorough" { 6000 } else { 600 };
    for _ in 0..n { let s = nasty(rng, 40); push(&mut cases, "random.nasty", s) }
    // (e) arbitrary bytes decoded the way log messages are (lossy UTF-8)
    let n = if tier == "thorough" { 2000 } else { 200 };
    for _ in 0..n {
        let len = rng.below(32) as usize;
        let b: Vec<u8> = (0..len).map(|_| if rng.chance(1, 3) { rng.below(0x30) as u8 } else { rng.below(256) as u8 }).collect();
        push(&mut cases, "random.lossy_bytes", String::from_utf8_lossy(&b).into_owned());
    }
    cases
}

fn run_escape(input: &Value) -> CaseOut {
    let s = input["s"].as_str().expect("s").to_string();
    let (j, line) = match std::panic::catch_unwind(|| {
        (format!("{}", json_str(&s)), routinator::http::verif_sample_line(&[("uri", &s), ("state", "valid")], "1"))
    }) {
        Ok(x) => x,
        Err(_) => ("<panic>".to_string(), "<panic>".to_string()),
    };
    let serde_ok = serde_json::from_str::<String>(&format!("\"{}\"", j)).map(|r| r == s).unwrap_or(false);
    let prom = prom_read(&line);
    let prom_ok = match &prom {
        Ok(r) => r.len() == 1 && r[0].0 == "routinator_verif" && r[0].2 == "1"
            && r[0].1 == vec![("uri".to_string(), s.clone()), ("state".to_string(), "valid".to_string())],
        Err(_) => false,
    };
    let obs = json!({"json_str": j, "sample_line": line, "serde_json_reads_back": serde_ok, "exposition_reader_reads_back": prom_ok,
                     "exposition_error": prom.err()});
    let coq = format!("{{| e_in := {}; e_impl := {{| o_json := {}; o_line := {} |}}; e_side := {} |}}",
        coq_bytes(s.as_bytes()), coq_bytes(j.as_bytes()), coq_bytes(line.as_bytes()), coq_bool(serde_ok && prom_ok));
    CaseOut { obs, coq, nontrivial: needs_escape(&s) }
}

//------------ stream 2: documents -------------------------------------------

fn book(msgs: &Value) -> Option<LogBook> {
    let msgs = msgs.as_array()?;
    let mut w = LogBookWriter::new(None);
    for (i, m) in msgs.iter().enumerate() {
        let level = [log::Level::Error, log::Level::Warn, log::Level::Info, log::Level::Debug][i % 4];
        w.log(level, format_args!("{}", m.as_str().unwrap()));
    }
    Some(w.into_book())
}

fn vrp(r: &mut Rng) -> VrpMetrics {
    let mut pick = || match r.below(4) { 0 => 0, 1 => u32::MAX, _ => r.below(100000) as u32 };
    VrpMetrics { valid: pick(), marked_unsafe: pick(), locally_filtered: pick(), duplicate: pick(), contributed: pick() }
}
fn publication(r: &mut Rng) -> PublicationMetrics {
    let mut p = PublicationMetrics::default();
    p.valid_points = r.below(1000) as u32; p.rejected_points = r.below(10) as u32; p.valid_manifests = r.below(1000) as u32;
    p.stale_manifests = r.below(5) as u32; p.valid_roas = if r.chance(1, 4) { u32::MAX } else { r.below(100000) as u32 };
    p.invalid_certs = r.below(3) as u32; p.others = r.below(3) as u32; p.stale_crls = r.below(3) as u32;
    p
}
fn payload(r: &mut Rng) -> routinator::metrics::PayloadMetrics {
    let mut p = routinator::metrics::PayloadMetrics::default();
    p.v4_origins = vrp(r); p.v6_origins = vrp(r); p.router_keys = vrp(r); p.aspas = vrp(r);
    // avoid u32 overflow in finalize's sums
    for v in [&mut p.v4_origins, &mut p.v6_origins, &mut p.router_keys, &mut p.aspas] {
        v.valid /= 8; v.marked_unsafe /= 8; v.locally_filtered /= 8; v.duplicate /= 8; v.contributed /= 8;
    }
    p
}

fn build_metrics(input: &Value) -> Metrics {
    let mut r = Rng::new(input["nums"].as_u64().unwrap_or(0));
    let mut m = Metrics::new();
    for t in input["tals"].as_array().unwrap() {
        let mut tm = TalMetrics::new(TalInfo::from_name(t.as_str().unwrap().to_string()).into_arc());
        tm.publication = publication(&mut r);
        tm.payload = payload(&mut r);
        m.tals.push(tm);
    }
    for u in input["repos"].as_array().unwrap() {
        let mut rm = RepositoryMetrics::new(u.as_str().unwrap().to_string());
        rm.publication = publication(&mut r);
        rm.payload = payload(&mut r);
        m.repositories.push(rm);
    }
    for x in input["rsync"].as_array().unwrap() {
        let status = match x["status"].as_i64() {
            Some(c) => Ok(std::os::unix::process::ExitStatusExt::from_raw((c as i32) << 8)),
            None => Err(std::io::Error::new(std::io::ErrorKind::Other, "spawn failed")),
        };
        let duration = match x["dur_ms"].as_u64() {
            Some(ms) => Ok(Duration::from_millis(ms)),
            None => Err(SystemTime::UNIX_EPOCH.duration_since(SystemTime::now()).unwrap_err()),
        };
        m.rsync.push(RsyncModuleMetrics {
            module: uri::Rsync::from_str(x["module"].as_str().unwrap()).expect("rsync uri"),
            status, duration, log_book: book(&x["log"]),
        });
    }
    for x in input["rrdp"].as_array().unwrap() {
        let mut rm = RrdpRepositoryMetrics::new(uri::Https::from_str(x["uri"].as_str().unwrap()).expect("https uri"));
        let st = |v: &Value| match v.as_i64() {
            Some(-2) => HttpStatus::Rejected,
            Some(c) if c > 0 => HttpStatus::Response(routinator::reqwest::StatusCode::from_u16(c as u16).unwrap()),
            _ => HttpStatus::Error,
        };
        rm.notify_status = st(&x["notify"]);
        rm.payload_status = if x["payload"].is_null() { None } else { Some(st(&x["payload"])) };
        rm.serial = x["serial"].as_u64();
        rm.session = if x["session"].as_bool().unwrap_or(false) { Some(uuid::Uuid::from_u128(0x1234_5678_9abc_def0_1122_3344_5566_7788)) } else { None };
        rm.snapshot_reason = match x["reason"].as_u64() {
            Some(0) => Some(SnapshotReason::NewRepository), Some(1) => Some(SnapshotReason::NewSession),
            Some(_) => Some(SnapshotReason::BadDeltaSet), None => None };
        rm.duration = match x["dur_ms"].as_u64() {
            Some(ms) => Ok(Duration::from_millis(ms)),
            None => Err(SystemTime::UNIX_EPOCH.duration_since(SystemTime::now()).unwrap_err()),
        };
        rm.log_book = book(&x["log"]);
        m.rrdp.push(rm);
    }
    for x in input["pubpoints"].as_array().unwrap() {
        m.pub_point_logs.push((uri::Rsync::from_str(x["uri"].as_str().unwrap()).expect("rsync uri"), book(&x["log"]).unwrap()));
    }
    m.publication = publication(&mut r);
    m.local = payload(&mut r);
    m.snapshot.payload = payload(&mut r);
    m.snapshot.large_aspas = r.below(3) as u32;
    m
}

fn msgs_of(v: &Value) -> Vec<String> {
    v.as_array().map(|a| a.iter().map(|m| m.as_str().unwrap().to_string()).collect()).unwrap_or_default()
}

fn run_docs(input: &Value) -> CaseOut {
    let dir = tempfile::tempdir().unwrap();
    let mut config = Config::default_with_paths(Default::default(), dir.path().to_path_buf());
    config.unsafe_vrps = match input["unsafe"].as_str() { Some("warn") => FilterPolicy::Warn, Some("reject") => FilterPolicy::Reject, _ => FilterPolicy::Accept };
    let history = SharedHistory::from_config(&config);
    history.update(ValidationReport::new(&config), &LocalExceptions::empty(), build_metrics(input));
    if input["done"].as_bool().unwrap_or(true) { history.mark_update_done(); }
    let http = HttpServerMetrics::default();
    http.inc_conn_open(); http.inc_requests(); http.inc_bytes_read(17); http.inc_bytes_written(1u64 << 40);
    let rtr = RtrServerMetrics::new(!input["clients"].is_null());
    if let Some(cl) = input["clients"].as_array() {
        for (i, a) in cl.iter().enumerate() {
            let c = rtr.get_client(IpAddr::from_str(a.as_str().unwrap()).unwrap());
            c.update(|d| { d.inc_current_connections(); d.inc_bytes_read(5); });
            if i % 2 == 0 { c.update(|d| d.update_now(Serial::from(7 + i as u32), i % 4 == 0)); }
        }
    }
    let rt = tokio::runtime::Builder::new_current_thread().enable_all().build().unwrap();
    let res = std::panic::catch_unwind(std::panic::AssertUnwindSafe(|| rt.block_on(async {
        (routinator::http::verif_api_status_body(&history, &http, &rtr).await,
         routinator::http::verif_metrics_body(&history, &http, &rtr).await)
    })));
    let (status, metrics) = match res {
        Ok((s, m)) => (s.to_vec(), m.to_vec()),
        Err(_) => (b"<panic>".to_vec(), b"<panic>".to_vec()),
    };
    // expectations
    let tals: Vec<String> = msgs_of(&input["tals"]);
    let repos: Vec<String> = msgs_of(&input["repos"]);
    let mut msgs: Vec<String> = Vec::new();
    for x in input["rsync"].as_array().unwrap() { msgs.extend(msgs_of(&x["log"])) }
    for x in input["rrdp"].as_array().unwrap() { msgs.extend(msgs_of(&x["log"])) }
    let mut pp: Vec<&Value> = input["pubpoints"].as_array().unwrap().iter().collect();
    pp.sort_by(|a, b| a["uri"].as_str().unwrap().cmp(b["uri"].as_str().unwrap()));   // Metrics::finalize sorts them (stable)
    for x in pp { msgs.extend(msgs_of(&x["log"])) }
    // side checks: serde_json on the status document, the exposition reader on the metrics text
    let status_txt = String::from_utf8(status.clone());
    let metrics_txt = String::from_utf8(metrics.clone());
    let mut side_err = Vec::new();
    match &status_txt {
        Ok(t) => match serde_json::from_str::<Value>(t) {
            Ok(v) => {
                // with distinct names serde's map view must contain every name as a key
                for t in &tals { if v["tals"].get(t).is_none() { side_err.push(format!("serde_json: tals has no key {:?}", t)) } }
                for u in &repos { if v["repositories"].get(u).is_none() { side_err.push(format!("serde_json: repositories has no key {:?}", u)) } }
            }
            Err(e) => side_err.push(format!("serde_json rejects the status document: {}", e)),
        },
        Err(_) => side_err.push("status document is not UTF-8".into()),
    }
    match &metrics_txt {
        Ok(t) => match prom_read(t) {
            Ok(samples) => {
                let names: Vec<String> = samples.iter().filter(|s| s.0 == "routinator_ta_valid_vrps_total")
                    .filter_map(|s| s.1.iter().find(|l| l.0 == "name").map(|l| l.1.clone())).collect();
                if names != tals { side_err.push(format!("exposition reader: TAL names read back as {:?}", names)) }
                let uris: Vec<String> = samples.iter().filter(|s| s.0 == "routinator_repository_valid_vrps_total")
                    .filter_map(|s| s.1.iter().find(|l| l.0 == "uri").map(|l| l.1.clone())).collect();
                if uris != repos { side_err.push(format!("exposition reader: repository URIs read back as {:?}", uris)) }
            }
            Err(e) => side_err.push(format!("exposition reader rejects the metrics text: {}", e)),
        },
        Err(_) => side_err.push("metrics text is not UTF-8".into()),
    }
    let obs = json!({
        "status": String::from_utf8_lossy(&status), "metrics": String::from_utf8_lossy(&metrics),
        "side_check_errors": side_err,
    });
    // Only a few cases carry the complete /metrics text into Coq; for the others the HELP/TYPE comment lines
    // (static text, about half of the volume) are dropped.  What remains is still a complete exposition text with
    // every input-dependent line; the harness's own reader above has read the complete text in every case.
    let full = input["full"].as_bool().unwrap_or(true);
    let metrics_coq: Vec<u8> = if full { metrics.clone() } else {
        metrics.split_inclusive(|b| *b == b'\n').filter(|l| !l.starts_with(b"# HELP ") && !l.starts_with(b"# TYPE ")).flatten().cloned().collect()
    };
    let strs = |v: &Vec<String>| coq_list(v.iter(), |s| coq_bytes(s.as_bytes()));
    let coq = format!(
        "{{| d_exp := {{| x_tals := {}; x_repos := {}; x_msgs := {} |}}; d_impl := {{| o_status := {}; o_metrics := {} |}}; d_side := {} |}}",
        strs(&tals), strs(&repos), strs(&msgs), coq_bytes(&status), coq_bytes(&metrics_coq), coq_bool(side_err.is_empty()));
    let nontrivial = tals.iter().chain(repos.iter()).chain(msgs.iter()).any(|s| needs_escape(s));
    CaseOut { obs, coq, nontrivial }
}

fn docs_input(tals: Vec<String>, repos: Vec<String>, rsync: Vec<Value>, rrdp: Vec<Value>, pubpoints: Vec<Value>, unsafe_: &str,
              clients: Value, done: bool, nums: u64) -> Value {
    json!({"tals": tals, "repos": repos, "rsync": rsync, "rrdp": rrdp, "pubpoints": pubpoints, "unsafe": unsafe_,
           "clients": clients, "done": done, "nums": nums, "full": false})
}

fn gen_docs(rng: &mut Rng, tier: &str) -> Vec<(String, Value)> {
    let mut cases = Vec::new();
    // (a) every special character alone, in each of the three kinds of place
    for (i, c) in SPECIAL.iter().enumerate() {
        let s = format!("a{}b", c);
        cases.push(("single.tal_name".to_string(), docs_input(vec![s.clone()], vec![], vec![], vec![], vec![], "accept", Value::Null, true, i as u64)));
        cases.push(("single.repository_uri".to_string(), docs_input(vec![], vec![s.clone()], vec![], vec![], vec![], "warn", Value::Null, true, i as u64)));
        cases.push(("single.log_message".to_string(), docs_input(vec![], vec![],
            vec![json!({"module": "rsync://example.net/module/", "status": 12, "dur_ms": 1500, "log": [s.clone()]})],
            vec![json!({"uri": "https://example.net/notify.xml", "notify": 200, "payload": 200, "serial": 5, "session": true, "reason": null, "dur_ms": 20, "log": [s.clone()]})],
            vec![json!({"uri": "rsync://example.net/module/ca/", "log": [s]})], "reject", Value::Null, true, i as u64)));
    }
    // (b) boundary classes
    cases.push(("boundary.empty_metrics".into(), docs_input(vec![], vec![], vec![], vec![], vec![], "accept", Value::Null, false, 0)));
    cases.push(("boundary.empty_names".into(), docs_input(vec!["".into()], vec!["".into()], vec![], vec![], vec![], "accept", Value::Null, true, 1)));
    cases.push(("boundary.duplicate_names".into(), docs_input(vec!["x\"".into(), "x\"".into()], vec!["u\n".into(), "u\n".into()], vec![], vec![], vec![], "warn", Value::Null, true, 2)));
    cases.push(("boundary.options_none".into(), docs_input(vec!["ripe".into()], vec!["rsync://r.example/repo/".into()],
        vec![json!({"module": "rsync://example.net/m/", "status": null, "dur_ms": null, "log": null})],
        vec![json!({"uri": "https://example.net/n.xml", "notify": -1, "payload": null, "serial": null, "session": false, "reason": null, "dur_ms": null, "log": null}),
             json!({"uri": "https://example.org/n.xml", "notify": 304, "payload": null, "serial": 9, "session": true, "reason": 1, "dur_ms": 7, "log": []}),
             json!({"uri": "https://example.com/n.xml", "notify": -2, "payload": 404, "serial": 9, "session": true, "reason": 2, "dur_ms": 7, "log": ["\\"]})],
        vec![], "reject", json!(["192.0.2.1", "2001:db8::1", "192.0.2.7"]), false, 3)));
    for c in cases.iter_mut() { if c.0.starts_with("boundary") { c.1["full"] = json!(true) } }
    // (c) structured random
    let n = if tier == "thorough" { 400 } else { 40 };
    for i in 0..n {
        let mut r = rng.fork();
        let tals: Vec<String> = (0..r.below(3)).map(|_| if r.chance(1, 4) { ["ripe", "arin", "apnic"][r.below(3) as usize].to_string() } else { nasty(&mut r, 12) }).collect();
        let repos: Vec<String> = (0..r.below(3)).map(|_| match r.below(4) {
            0 => "https://rrdp.example.net/notification.xml".to_string(),
            1 => format!("rsync://{}/repo/", nasty(&mut r, 6)),
            _ => nasty(&mut r, 16) }).collect();
        let logs = |r: &mut Rng| -> Value { if r.chance(1, 4) { Value::Null } else { json!((0..r.below(4)).map(|_| nasty(r, 24)).collect::<Vec<_>>()) } };
        let rsync: Vec<Value> = (0..r.below(3)).map(|k| json!({"module": format!("rsync://host{}.example/mod{}/", k, i), "status": if r.chance(1, 5) { Value::Null } else { json!(r.below(40)) },
            "dur_ms": if r.chance(1, 5) { Value::Null } else { json!(r.below(100000)) }, "log": logs(&mut r)})).collect();
        let rrdp: Vec<Value> = (0..r.below(3)).map(|k| json!({"uri": format!("https://host{}.example/{}/notification.xml", k, i),
            "notify": *r.pick(&[200i64, 304, 404, 500, -1, -2]), "payload": *r.pick(&[json!(200), json!(404), Value::Null, json!(-1)]),
            "serial": if r.chance(1, 3) { Value::Null } else { json!(r.next() >> 1) }, "session": r.chance(1, 2),
            "reason": if r.chance(1, 2) { Value::Null } else { json!(r.below(3)) },
            "dur_ms": if r.chance(1, 5) { Value::Null } else { json!(r.below(100000)) }, "log": logs(&mut r)})).collect();
        let pubpoints: Vec<Value> = (0..r.below(3)).map(|k| json!({"uri": format!("rsync://host{}.example/mod/ca{}/", r.below(3), k),
            "log": (0..r.below(3)).map(|_| nasty(&mut r, 24)).collect::<Vec<_>>()})).collect();
        let clients = if r.chance(1, 3) { json!(["192.0.2.1", "2001:db8::2"]) } else { Value::Null };
        let unsafe_ = *r.pick(&["accept", "warn", "reject"]);
        let mut inp = docs_input(tals, repos, rsync, rrdp, pubpoints, unsafe_, clients, r.chance(3, 4), r.next());
        if i < 8 || i % 16 == 0 { inp["full"] = json!(true) }
        cases.push((if inp["full"] == json!(true) { "random.metrics.full_text" } else { "random.metrics" }.to_string(), inp));
    }
    cases
}

fn main() {
    let _ = log::set_logger(&QUIET);
    log::set_max_level(log::LevelFilter::Trace);
    std::panic::set_hook(Box::new(|_| {}));
    match std::env::var("C22_STREAM").as_deref() {
        Ok("docs") => drive(gen_docs, run_docs),
        _ => drive(gen_escape, run_escape),
    }
}
