//! C24: a crash never leaves an RRDP copy that is silently wrong — the real RRDP collector, killed at a chosen
//! kill point of one update, vs the Coq model (coq/C24).
//!
//! Shares the machinery of c25.rs (fetch server, materialisation of notification / snapshot / delta XML, reading
//! the archive back).  One case = an honest server history (versions with their genuine deltas), a list of runs
//! (what the server serves: its current notification with an entity tag, answered 304 to a client that holds
//! that tag; genuine files, possibly failing: HTTP errors, documents cut after some elements, a wrong hash
//! announced), and the run that is made by a process of its own (`c24 crashstep`, VERIF_KILL_AT=n) which
//! `abort()`s at its n-th kill point (`crate::verif::kill_point` hooks before every archive operation of the
//! update, src/collector/rrdp/{base,update}.rs).  The runs before and after it are made by the worker process
//! on the same cache directory.  Observed per run as in C25, plus for the killed run: the labels of the kill
//! points passed and the archive as it is on disk after the kill.
#[allow(dead_code)]
#[path = "c25.rs"]
mod c25;

use c25::*;
use rv_harness::util::*;
use serde_json::{json, Value};

fn coq_els(els: &Value) -> String {
    coq_list(els.as_array().unwrap().iter(), |e| match e[0].as_str().unwrap() {
        "p" => format!("EPub {} {}", e[1].as_u64().unwrap(), e[2].as_u64().unwrap()),
        "u" => format!("EUpd {} {} {}", e[1].as_u64().unwrap(), e[2].as_u64().unwrap(), e[3].as_u64().unwrap()),
        _ => format!("EWdr {} {}", e[1].as_u64().unwrap(), e[2].as_u64().unwrap()),
    })
}

fn run(input: &Value, env: &Env) -> CaseOut {
    let out = run_case(input, env);
    let gworld = coq_list(input["gworld"].as_array().unwrap().iter(), |w| {
        format!("({}, {}, {}, {})", w[0].as_u64().unwrap(), w[1].as_u64().unwrap(), coq_pairs(&w[2]), coq_els(&w[3]))
    });
    let crash = match input.get("crash").filter(|c| !c.is_null()) {
        Some(c) => format!("(Some ({}, {}))", c["step"].as_u64().unwrap(), c["kill_at"].as_u64().unwrap()),
        None => "None".to_string(),
    };
    let obs = coq_list(out.steps.iter(), |s| {
        let sobs = if s.killed {
            // the requests of a killed run are not compared
            format!("{{| o_result := {}; o_reason := 0; o_reqs := []; o_local := {}; o_probe_ok := {} |}}", s.result, s.coq_local(), coq_bool(s.probe_ok))
        } else { s.coq_sobs() };
        format!("{{| co_obs := {}; co_killed := {}; co_points := {} |}}", sobs, coq_bool(s.killed), coq_nlist(s.kill_points.iter()))
    });
    let coq = format!("{{| k_cfg := {}; k_world := {}; k_steps := {}; k_crash := {}; k_impl := {} |}}",
        out.cfg_coq, gworld, coq_list(out.coq_steps.iter(), |s| s.clone()), crash, obs);
    // non-trivial: the process was killed after it had changed the archive and a later run was reported as updated
    let killed_at = out.steps.iter().position(|s| s.killed);
    let nontrivial = match killed_at {
        Some(t) => out.steps[t].kill_points.len() > 1 && out.steps[t + 1..].iter().any(|s| s.result == 3),
        None => false,
    };
    CaseOut { obs: json!(out.steps.iter().map(|s| s.json()).collect::<Vec<_>>()), coq, nontrivial }
}

//------------ generator -------------------------------------------------------------------------------------

fn gworld(hists: &[Hist]) -> Vec<Value> {
    let mut res = Vec::new();
    for h in hists {
        for i in 0..h.versions.len() {
            let els = if i == 0 { json!([]) } else { h.delta_doc(i)["els"].clone() };
            res.push(json!([h.session, h.serial(i), content_json(&h.versions[i]), els]));
        }
    }
    res
}

fn case24(hists: &[Hist], steps: Vec<Value>, crash: Option<(usize, u64)>, cfg: (u64, u64, bool)) -> Value {
    let mut c = case_of(cfg, hists, steps);
    c["gworld"] = json!(gworld(hists));
    c["etag"] = json!(true);
    c["crash"] = match crash { Some((t, n)) => json!({"step": t, "kill_at": n}), None => Value::Null };
    c
}

fn n_els(step: &Value) -> u64 {
    step["files"].as_array().unwrap().iter().map(|f| f["doc"]["els"].as_array().unwrap().len() as u64).sum()
}

/// Elements of the snapshot file and of the delta files for the serials in (from, to].
fn path_els(step: &Value, h: &Hist, from: Option<usize>, to: usize) -> (u64, u64) {
    let mut snap = 0;
    let mut deltas = 0;
    for f in step["files"].as_array().unwrap() {
        let n = f["doc"]["els"].as_array().unwrap().len() as u64;
        if f["doc"]["t"] == "s" { snap = n }
        else if let Some(from) = from {
            let serial = f["doc"]["serial"].as_u64().unwrap();
            if serial > h.serial(from) && serial <= h.serial(to) { deltas += n }
        }
    }
    (snap, deltas)
}

/// Failures an honest server may show in one run (the content it serves is never wrong): a file is not
/// available, a document is cut after some elements, a hash in the notification is wrong.
fn benign_faults(step: &Value, h: &Hist, v: usize) -> Vec<(String, Value)> {
    faults_of(step, h, v).into_iter().filter(|(name, _, cfg)| cfg.is_none() && (
        name.starts_with("fd.status") || name.starts_with("fs.status") || name.starts_with("fd.broken_after")
        || name.starts_with("fs.broken_after") || name == "l.mutated_hash" || name == "s.hash_bogus" || name == "s.uri_404"
        || name == "n.err500" || name == "n.bad_xml"
    )).map(|(n, s, _)| (n, s)).collect()
}

fn gen(rng: &mut Rng, tier: &str) -> Vec<(String, Value)> {
    let thorough = tier == "thorough";
    let mut cases = Vec::new();
    let mut hists = fixed_histories();
    for k in 0..(if thorough { 8 } else { 2 }) { let h = random_history(rng, 10 + k, 5); hists.push(h); }
    for (hi, h) in hists.iter().enumerate() {
        let hs = std::slice::from_ref(h);
        let last = h.versions.len() - 1;
        // (from, to, window) of the run that is killed, preceded by a run at `from` (none if from is None),
        // followed by runs at `to`, then at the last version
        let mut scenarios: Vec<(Option<usize>, usize, usize)> = vec![
            (None, 0, 5),                       // first snapshot
            (Some(0), 1.min(last), 5),          // one delta
            (Some(0), 2.min(last), 5),          // two deltas
            (Some(0), 3.min(last), 5),          // three deltas
            (Some(0), last, 1),                 // list does not reach back: snapshot over an existing copy
            (Some(last), last, 5),              // nothing new: 304
        ];
        if h.versions.len() > 3 { scenarios.push((Some(1), 3, 5)); }
        if !thorough && hi >= 2 { scenarios = vec![scenarios[hi % 6], scenarios[(hi + 3) % 6]]; }
        for (si, (from, to, window)) in scenarios.iter().enumerate() {
            let mut pre = Vec::new();
            if let Some(f) = from { pre.push(h.honest_step(*f, 5)); }
            let crash_step = h.honest_step(*to, *window);
            let after = vec![h.honest_step(*to, 5), h.honest_step(last, 5)];
            let t = pre.len();
            // the honest run, killed at every point and once beyond the last one; with a failure: the bound is
            // the number of kill points of the longest path (deltas, state, snapshot, removal)
            let (snap, deltas) = path_els(&crash_step, h, *from, *to);
            let exact = match (from, *window) {
                (None, _) => snap + 5,
                (Some(f), _) if f == to => 1,
                (Some(f), w) if to - f > w => snap + 5,
                _ => deltas + 1,
            };
            let mut variants: Vec<(String, Value, u64)> = vec![("honest".to_string(), crash_step.clone(), exact + 1)];
            for (k, (name, s)) in benign_faults(&crash_step, h, *to).into_iter().enumerate() {
                if !thorough && (k + si + hi) % 11 != 0 { continue }
                variants.push((name, s, deltas + snap + 7));
            }
            for (name, cs, bound) in variants {
                for n in 1..=bound {
                    // later runs: the same version again and the last version; sometimes the next run fails first
                    let mut steps = pre.clone();
                    steps.push(cs.clone());
                    if (n + si as u64) % 4 == 3 { let mut s = after[0].clone(); s["notify"] = json!({"k": "err", "status": 500}); steps.push(s); }
                    steps.extend(after.iter().cloned());
                    let class = format!("kill.{}.{}", match (from, *window) { (None, _) => "first_snapshot", (Some(f), _) if f == to => "not_modified",
                        (_, 1) => "snapshot_over_copy", _ => "deltas" }, if name == "honest" { "honest".to_string() } else { format!("with_{}", name) });
                    cases.push((class, case24(hs, steps, Some((t, n)), (10, 10, false))));
                }
            }
        }
    }
    // random honest walks with failures, a random run killed at a random point, a second kill is not modelled
    let n = if thorough { 1500 } else { 40 };
    for _ in 0..n {
        let len = rng.range(2, 5) as usize;
        let h = random_history(rng, 1, len);
        let nsteps = rng.range(2, 5) as usize;
        let mut v = 0usize;
        let mut steps = Vec::new();
        let mut bound = 0;
        let t = rng.below(nsteps as u64) as usize;
        for i in 0..nsteps {
            if i > 0 { v = (v + rng.below(3) as usize).min(len - 1); }
            let mut step = h.honest_step(v, rng.range(1, 5) as usize);
            if rng.chance(1, 3) {
                let fs = benign_faults(&step, &h, v);
                if !fs.is_empty() { step = fs[rng.below(fs.len() as u64) as usize].1.clone(); }
            }
            if i == t { bound = n_els(&step) + 8; }
            steps.push(step);
        }
        let kill = rng.range(1, bound);
        cases.push(("random.kill".to_string(), case24(std::slice::from_ref(&h), steps, Some((t, kill)), (10, 10, rng.chance(1, 6)))));
    }
    // malformed (outside the premise, correspondence only): the killed run is served a delta file with other
    // content than announced; F21: the honest delta of the next run applies on top of what the kill left
    // (check_case answers 3 for them, which ./check only accepts once known_findings.json lists F21 for C24)
    let f21_listed = std::fs::read_to_string(concat!(env!("CARGO_MANIFEST_DIR"), "/../known_findings.json"))
        .map(|s| s.contains("\"C24\"") && s.contains("\"F21\"")).unwrap_or(false);
    if f21_listed || std::env::var("C24_WITH_F21").is_ok() {
        let h = &hists[0];
        let hs = std::slice::from_ref(h);
        for n in 1..=3u64 {
            let mut s = pin(&h.honest_step(1, 5));
            s["files"][1]["doc"]["els"] = json!([["p", 2, 0]]);
            cases.push(("malformed.kill_during_wrong_delta".to_string(),
                case24(hs, vec![h.honest_step(0, 5), s, h.honest_step(1, 5), h.honest_step(4, 5)], Some((1, n)), (10, 10, false))));
        }
    }
    // no kill at all: the conditional 304 and the honest server without crashes
    for h in hists.iter().take(if thorough { hists.len() } else { 3 }) {
        let last = h.versions.len() - 1;
        let hs = std::slice::from_ref(h);
        cases.push(("no_kill.walk".to_string(), case24(hs, vec![h.honest_step(0, 5), h.honest_step(0, 5), h.honest_step(last.min(2), 5),
            h.honest_step(last.min(2), 5), h.honest_step(last, 5)], None, (10, 10, false))));
    }
    cases
}

fn main() {
    match std::env::args().nth(1).as_deref() {
        Some("worker") => return worker(run),
        Some("crashstep") => return crashstep(),
        _ => {}
    }
    // a case spends most of its time waiting for the process that is to be killed: more workers than cores
    let threads = std::env::var("C24_WORKERS").ok().and_then(|s| s.parse().ok()).unwrap_or(24);
    drive_par(gen, via_worker, threads);
}
