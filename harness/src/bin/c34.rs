//! C34: SharedHistory::mark_update_done + PayloadHistory::refresh_wait vs the Coq model (coq/C34).
//! The system clock cannot be stopped; the harness reads it before and after and hands the bracket
//! to the checker.
use std::time::{Duration, SystemTime};
use routinator::config::Config;
use std::sync::Arc;
use routinator::metrics::{Metrics, TalMetrics};
use routinator::payload::{PublishInfo, SharedHistory, ValidationReport};
use routinator::slurm::LocalExceptions;
use rpki::repository::tal::TalInfo;
use rpki::repository::x509::{Time, Validity};
use rpki::resources::asn::{Asn, SmallAsnSet};
use rv_harness::util::*;
use serde_json::{json, Value};

fn gen(rng: &mut Rng, tier: &str) -> Vec<(String, Value)> {
    let mut cases = Vec::new();
    let secs: [u64; 7] = [0, 1, 59, 60, 600, 601, 86400];
    let exp: [Option<i64>; 9] = [None, Some(-3600), Some(-1), Some(0), Some(30), Some(60), Some(599), Some(600), Some(90000)];
    // "prev": the data-set expiry of an earlier run with the SAME payload (the run under test must replace it)
    let mut k = 0u64;
    for r in secs { for m in [None, Some(0u64), Some(1), Some(60), Some(600), Some(3600)] { for e in exp {
        k += 1;
        let prev: Value = match k % 3 { 0 => Value::Null, 1 => json!(e.unwrap_or(500) + 86_400), _ => json!(e.unwrap_or(500) - 100) };
        cases.push((format!("grid.min_{}{}", if m.is_some() { "set" } else { "unset" }, if prev.is_null() { "" } else { ".after_same_payload" }),
                    json!({"refresh": r, "min": m, "expiry": e, "prev": prev})));
    }}}
    let n = if tier == "thorough" { 2000 } else { 200 };
    for _ in 0..n {
        let r = rng.range(0, 100_000);
        let m = if rng.chance(1, 3) { None } else { Some(rng.range(0, 100_000)) };
        let e = if rng.chance(1, 4) { None } else { Some(rng.range(0, 200_000) as i64 - 50_000) };
        let prev: Value = if rng.chance(1, 2) { Value::Null } else { json!(rng.range(0, 200_000) as i64 - 50_000) };
        cases.push((if prev.is_null() { "random".into() } else { "random.after_same_payload".into() }, json!({"refresh": r, "min": m, "expiry": e, "prev": prev})));
    }
    cases
}

fn run(input: &Value) -> CaseOut {
    let mut config = Config::default_with_paths(Default::default(), std::env::temp_dir());
    config.enable_aspa = true;
    config.refresh = Duration::from_secs(input["refresh"].as_u64().unwrap());
    config.min_refresh = input["min"].as_u64().map(Duration::from_secs);
    let hist = SharedHistory::from_config(&config);
    let t0 = SystemTime::now();
    let t0s = t0.duration_since(SystemTime::UNIX_EPOCH).unwrap().as_secs() as i64;
    // the deadline has whole seconds (rpki Time); bracket (deadline - completion time) in nanoseconds
    let expiry_abs = input["expiry"].as_i64().map(|e| t0s + e);
    let refresh_time = expiry_abs.map(|e| Time::new(chrono::DateTime::from_timestamp(e, 0).unwrap()));
    // the data set is installed through the real SharedHistory::update: one publication point (hook
    // ValidationReport::verif_push_point) carrying one ASPA, whose refresh time is the expiry; an earlier run with
    // the same payload and another expiry comes first when the case says so
    let install = |expiry: Option<Time>| {
        let report = ValidationReport::new(&config);
        if let Some(t) = expiry {
            let info = Arc::new(PublishInfo {
                tal: Arc::new(TalInfo::from_name("t".into())), uri: None,
                roa_validity: Validity::new(Time::utc(2020, 1, 1, 0, 0, 0), Time::utc(2040, 1, 1, 0, 0, 0)),
                chain_validity: Validity::new(Time::utc(2020, 1, 1, 0, 0, 0), Time::utc(2040, 1, 1, 0, 0, 0)),
                point_stale: Time::utc(2040, 1, 1, 0, 0, 0),
            });
            let provs = unsafe { SmallAsnSet::from_vec_unchecked(vec![Asn::from_u32(64500)]) };
            report.verif_push_point(0, t, Vec::new(), Vec::new(), vec![(Asn::from_u32(64496), provs)], info);
        }
        let mut metrics = Metrics::default();
        metrics.tals = vec![TalMetrics::new(Arc::new(TalInfo::from_name("t".into())))];
        hist.update(report, &LocalExceptions::empty(), metrics);
    };
    if let Some(p) = input["prev"].as_i64() { install(Some(Time::new(chrono::DateTime::from_timestamp(t0s + p, 0).unwrap()))); }
    install(refresh_time);
    let before = SystemTime::now();
    hist.mark_update_done();
    let wait = hist.read().refresh_wait();
    let after = SystemTime::now();
    let ns = |t: SystemTime| t.duration_since(SystemTime::UNIX_EPOCH).unwrap().as_nanos() as i128;
    let eps = (ns(after) - ns(before)) as i64 + 1;
    let exp_br = expiry_abs.map(|e| { let en = e as i128 * 1_000_000_000; ((en - ns(after)) as i64, (en - ns(before)) as i64) });
    let w = wait.as_nanos() as i64;
    let coq = format!("{{| c_refresh := ({})%Z; c_min := {}; c_expiry := {}; c_eps := ({})%Z; i_wait := ({})%Z |}}",
        input["refresh"].as_u64().unwrap() as i128 * 1_000_000_000,
        coq_opt(input["min"].as_u64().map(|m| format!("({})%Z", m as i128 * 1_000_000_000))),
        coq_opt(exp_br.map(|(lo, hi)| format!("(({})%Z, ({})%Z)", lo, hi))), eps, w);
    CaseOut { obs: json!({"wait_ns": w, "eps_ns": eps}), coq, nontrivial: input["min"].is_u64() && input["expiry"].is_i64() }
}

fn main() { drive(gen, run) }
