//! C36: schedule-controlled replay of the real RTR client metrics registry (src/metrics.rs `RtrPerAddrMetrics::get`,
//! src/rtr.rs `RtrStream::new` / `Drop for RtrStream`) vs the Coq model (coq/C36).
//!
//! A case is `todos` (per thread: the client addresses of the connections it handles one after the other) and
//! `sched` (the thread to step at each moment). Every thread is a real OS thread named `t<i>` that, per connection,
//! runs the real `RtrStream::new` (via `routinator::rtr::verif::Conn::new`, over a dup of a real loopback socket) and
//! then drops the stream. The cfg(routinator_verif) rendezvous points inside `get` (between load, search, lock,
//! re-load, search, build, store, return) and in `RtrStream::new` (between get_client and the increment) stop the
//! thread after every atomic step of the model; the harness releases exactly the thread the schedule names and waits
//! until that thread is parked again. A thread about to take the write mutex is released only if the mutex is free
//! (probed on the real mutex, `RtrServerMetrics::verif_write_locked`), otherwise the step is a stutter - as in the
//! model. After the given schedule the remaining threads are run to completion round-robin; the schedule reported
//! to Coq is the one actually executed. Observed: after every step where the stepped thread is parked and whether
//! the real mutex is held; at the end the real client list (addresses, entry identity = Arc pointer, open-connection
//! counts), the global count and, per thread, which entry every `get_client` returned.
//! No timeouts are used as oracles: the only waits are for a released thread to reach its next point (20 s limit,
//! then the harness panics = machinery failure).
use std::collections::HashMap;
use std::net::{IpAddr, Ipv4Addr, Ipv6Addr, SocketAddr};
use std::sync::{Arc, Mutex, OnceLock};
use std::time::Duration;
use routinator::metrics::RtrServerMetrics;
use routinator::rtr::verif::Conn;
use routinator::verif as hook;
use rv_harness::util::*;
use serde_json::{json, Value};

//------------ plumbing ------------------------------------------------------------

/// Model address -> IpAddr, order preserving (IpAddr orders every V4 before every V6).
fn ip_of(a: u64) -> IpAddr {
    if a < 1000 { IpAddr::V4(Ipv4Addr::new(10, 0, (a / 256) as u8, (a % 256) as u8)) }
    else { IpAddr::V6(Ipv6Addr::new(0x2001, 0xdb8, 0, 0, 0, 0, (a >> 16) as u16, (a & 0xffff) as u16)) }
}
fn addr_of(ip: IpAddr) -> u64 {
    match ip {
        IpAddr::V4(v) => { let o = v.octets(); o[2] as u64 * 256 + o[3] as u64 }
        IpAddr::V6(v) => { let s = v.segments(); ((s[6] as u64) << 16) | s[7] as u64 }
    }
}

struct Net { rt: tokio::runtime::Runtime, server_side: std::net::TcpStream, _client_side: std::net::TcpStream }
fn net() -> &'static Net {
    static NET: OnceLock<Net> = OnceLock::new();
    NET.get_or_init(|| {
        let rt = tokio::runtime::Builder::new_current_thread().enable_all().build().expect("runtime");
        let l = std::net::TcpListener::bind("127.0.0.1:0").expect("bind");
        let c = std::net::TcpStream::connect(l.local_addr().unwrap()).expect("connect");
        let (s, _) = l.accept().expect("accept");
        s.set_nonblocking(true).unwrap();
        Net { rt, server_side: s, _client_side: c }
    })
}

const GET_STEPS: [(&str, u64); 7] =
    [("loaded", 1), ("missed", 2), ("locked", 3), ("reloaded", 4), ("missed2", 5), ("built", 6), ("stored", 7)];

/// The points of thread i with the model's pc code of a thread parked there.
fn points(i: usize) -> Vec<(String, u64)> {
    let mut v: Vec<(String, u64)> = GET_STEPS.iter().map(|(s, c)| (format!("rtrmetrics.get.{}@t{}", s, i), *c)).collect();
    v.push((format!("rtrstream.new.got@t{}", i), 8));
    v.push((format!("c36.opened@t{}", i), 9));
    v.push((format!("c36.start@t{}", i), 0));
    v.push((format!("c36.end@t{}", i), 100));
    v
}

struct Worker { pts: Vec<(String, u64)>, at: usize, handle: Option<std::thread::JoinHandle<()>> }

impl Worker {
    fn code(&self) -> u64 { self.pts[self.at].1 }
    fn done(&self) -> bool { self.code() == 100 }
    /// waits until the thread is parked at one of its points other than the one it just left
    fn wait_parked(&mut self, leaving: Option<usize>) {
        let ids: Vec<&str> = self.pts.iter().enumerate().filter(|(k, _)| Some(*k) != leaving).map(|(_, p)| p.0.as_str()).collect();
        match hook::wait_any(&ids, Duration::from_secs(20)) {
            Some(id) => self.at = self.pts.iter().position(|p| p.0 == id).unwrap(),
            None => panic!("machinery: a released thread did not reach its next point within 20 s"),
        }
    }
}

struct Outcome {
    sched: Vec<usize>,
    trace: Vec<(u64, bool)>,
    fin: Vec<(u64, usize, usize)>,
    global: usize,
    rets: Vec<Vec<(u64, usize)>>,
}

fn play(todos: &[Vec<u64>], sched: &[usize]) -> Outcome {
    hook::reset();
    let n = todos.len();
    let metrics = Arc::new(RtrServerMetrics::new(true));
    let rets: Arc<Mutex<Vec<Vec<(u64, usize)>>>> = Arc::new(Mutex::new(vec![Vec::new(); n]));
    let mut workers: Vec<Worker> = Vec::new();
    for i in 0..n {
        let pts = points(i);
        for p in &pts { hook::arm(&p.0); }
        let todo = todos[i].clone();
        let metrics = metrics.clone();
        let rets = rets.clone();
        let handle = std::thread::Builder::new().name(format!("t{}", i)).spawn(move || {
            let _guard = net().rt.enter();
            for a in todo {
                hook::point(&format!("c36.start@t{}", i));
                let sock = net().server_side.try_clone().expect("dup");
                let sock = tokio::net::TcpStream::from_std(sock).expect("from_std");
                let conn = Conn::new(sock, SocketAddr::new(ip_of(a), 4000 + i as u16), None, &metrics).expect("RtrStream::new");
                rets.lock().unwrap()[i].push((a, conn.client_ptr().expect("per-client metrics are on")));
                hook::point(&format!("c36.opened@t{}", i));
                drop(conn);
            }
            hook::point(&format!("c36.end@t{}", i));
        }).expect("spawn");
        workers.push(Worker { pts, at: 0, handle: Some(handle) });
    }
    for w in workers.iter_mut() { w.wait_parked(None); }

    let mut out = Outcome { sched: Vec::new(), trace: Vec::new(), fin: Vec::new(), global: 0, rets: Vec::new() };
    // one step of thread i; returns whether the thread moved
    let step = |workers: &mut Vec<Worker>, out: &mut Outcome, i: usize| -> bool {
        let w = &mut workers[i];
        let moved = if w.done() { false }
            else if w.code() == 2 && metrics.verif_write_locked() { false }
            else {
                let cur = w.at;
                hook::release(&w.pts[cur].0);
                w.wait_parked(Some(cur));
                true
            };
        out.sched.push(i);
        out.trace.push((if w.done() { 0 } else { w.code() }, metrics.verif_write_locked()));
        moved
    };
    for &i in sched { step(&mut workers, &mut out, i); }
    // run everybody to completion, round-robin
    loop {
        if workers.iter().all(|w| w.done()) { break }
        let mut progressed = false;
        for i in 0..n {
            let blocked = workers[i].code() == 2 && metrics.verif_write_locked();
            if !workers[i].done() && !blocked { progressed |= step(&mut workers, &mut out, i); }
        }
        if !progressed { panic!("machinery: no thread can move but not all are finished (mutex held by nobody parked?)"); }
    }
    out.fin = metrics.clients().unwrap().iter()
        .map(|(ip, d)| (addr_of(*ip), Arc::as_ptr(d) as usize, d.current_connections())).collect();
    out.global = metrics.global().current_connections();
    for w in workers.iter_mut() {
        hook::release(&w.pts[w.at].0);
        w.handle.take().unwrap().join().expect("worker panicked");
    }
    out.rets = rets.lock().unwrap().clone();
    out
}

fn run(input: &Value) -> CaseOut {
    let todos: Vec<Vec<u64>> = input["todos"].as_array().unwrap().iter()
        .map(|t| t.as_array().unwrap().iter().map(|a| a.as_u64().unwrap()).collect()).collect();
    let sched: Vec<usize> = input["sched"].as_array().unwrap().iter().map(|i| i.as_u64().unwrap() as usize).collect();
    let o = play(&todos, &sched);
    // entry identities: small numbers in order of first appearance
    let mut names: HashMap<usize, u64> = HashMap::new();
    let mut name = |p: usize| -> u64 { let k = names.len() as u64; *names.entry(p).or_insert(k) };
    let rets: Vec<Vec<(u64, u64)>> = o.rets.iter().map(|r| r.iter().map(|(a, p)| (*a, name(*p))).collect()).collect();
    let fin: Vec<(u64, u64, usize)> = o.fin.iter().map(|(a, p, c)| (*a, name(*p), *c)).collect();
    // usize counters that wrapped below zero show up as huge numbers: print them as negative
    let z = |c: usize| -> String { let v = c as i64; if v < 0 { format!("({})%Z", v) } else { format!("{}%Z", v) } };
    let coq = format!(
        "{{| c_todos := {}; c_sched := ({})%nat; c_impl := {{| o_trace := {}; o_final := {}; o_global := {}; o_rets := {}; o_done := true |}} |}}",
        coq_list(todos.iter(), |t| coq_nlist(t.iter())),
        coq_nlist(o.sched.iter()),
        coq_list(o.trace.iter(), |(c, l)| format!("({}, {})", c, coq_bool(*l))),
        coq_list(fin.iter(), |(a, e, c)| format!("({}, {}, {})", a, e, z(*c))),
        z(o.global),
        coq_list(rets.iter(), |r| coq_list(r.iter(), |(a, e)| format!("({}, {})", a, e))));
    let obs = json!({
        "executed_schedule": o.sched, "trace": o.trace.iter().map(|(c, l)| json!([c, l])).collect::<Vec<_>>(),
        "clients": fin.iter().map(|(a, e, c)| json!({"addr": ip_of(*a).to_string(), "entry": e, "open": *c as i64})).collect::<Vec<_>>(),
        "global_open": o.global as i64, "returned": rets,
    });
    let nontrivial = todos.iter().filter(|t| !t.is_empty()).count() >= 2;
    CaseOut { obs, coq, nontrivial }
}

//------------ schedule generation (a shadow of the step structure, used only to pick schedules) -------------------

#[derive(Clone, PartialEq)]
enum Pc { Start, Loaded(Vec<u64>), Missed, Locked, Reloaded(Vec<u64>), Missed2(Vec<u64>), Built(Vec<u64>), Stored, Got, Opened }

#[derive(Clone)]
struct Shadow { addrs: Vec<u64>, lock: Option<usize>, th: Vec<(Pc, Vec<u64>)>, feats: Vec<&'static str> }

impl Shadow {
    fn new(todos: &[Vec<u64>]) -> Self {
        Shadow { addrs: Vec::new(), lock: None, th: todos.iter().map(|t| (Pc::Start, t.clone())).collect(), feats: Vec::new() }
    }
    fn finished(&self, i: usize) -> bool { self.th[i].1.is_empty() }
    fn blocked(&self, i: usize) -> bool { self.th[i].0 == Pc::Missed && self.lock.is_some() }
    fn feat(&mut self, f: &'static str) { if !self.feats.contains(&f) { self.feats.push(f); } }
    /// one step; false if the thread is finished or blocked
    fn step(&mut self, i: usize) -> bool {
        if self.finished(i) { return false }
        if self.blocked(i) { self.feat("blocked_on_mutex"); return false }
        let a = self.th[i].1[0];
        let pc = self.th[i].0.clone();
        let new = match pc {
            Pc::Start => Pc::Loaded(self.addrs.clone()),
            Pc::Loaded(s) => if s.contains(&a) { self.feat("hit_first_search"); Pc::Got } else {
                if self.addrs.contains(&a) { self.feat("stale_first_load"); }
                Pc::Missed },
            Pc::Missed => { self.lock = Some(i); Pc::Locked }
            Pc::Locked => Pc::Reloaded(self.addrs.clone()),
            Pc::Reloaded(s) => if s.contains(&a) { self.feat("found_on_recheck"); self.lock = None; Pc::Got } else { Pc::Missed2(s) },
            Pc::Missed2(s) => {
                let pos = s.iter().filter(|x| **x < a).count();
                self.feat(if s.is_empty() { "insert_into_empty" } else if pos == 0 { "insert_front" } else if pos == s.len() { "insert_end" } else { "insert_middle" });
                let mut n = s.clone(); n.insert(pos, a); Pc::Built(n) }
            Pc::Built(n) => { self.addrs = n; Pc::Stored }
            Pc::Stored => { self.lock = None; Pc::Got }
            Pc::Got => { if self.th.iter().any(|t| t.0 == Pc::Opened) { self.feat("overlapping_connections"); } Pc::Opened }
            Pc::Opened => { self.th[i].1.remove(0); Pc::Start }
        };
        self.th[i].0 = new;
        true
    }
}

/// All maximal stutter-free interleavings of the threads in `active` from `start`; a thread stops being scheduled
/// once it is at Got if `stop_at_got` (its increment and decrement are left to the final round-robin).
fn enumerate(start: &Shadow, active: &[usize], stop_at_got: bool, limit: usize, prefix: &mut Vec<usize>, out: &mut Vec<Vec<usize>>) -> bool {
    let mut any = false;
    for &i in active {
        if stop_at_got && start.th[i].0 == Pc::Got { continue }
        let mut s = start.clone();
        if s.step(i) {
            any = true;
            prefix.push(i);
            let complete = enumerate(&s, active, stop_at_got, limit, prefix, out);
            prefix.pop();
            if !complete { return false }
        }
    }
    if !any {
        if out.len() >= limit { return false }
        out.push(prefix.clone());
    }
    true
}

fn gen(rng: &mut Rng, tier: &str) -> Vec<(String, Value)> {
    let thorough = tier == "thorough";
    let mut cases: Vec<(String, Value)> = Vec::new();
    let mk = |todos: &[Vec<u64>], sched: &[usize]| json!({"todos": todos, "sched": sched});
    // (a) exhaustive: every interleaving (up to stutters) of two threads
    //     get() only (8 steps each): same new address, different new addresses in both orders, IPv4 vs IPv6
    //     (stride > 1: only every stride-th interleaving of the enumeration is kept, class "sampled.*")
    let mut exhaustive_s = |name: &str, todos: Vec<Vec<u64>>, warm: Vec<usize>, active: Vec<usize>, stop_at_got: bool, stride: usize| {
        let mut s = Shadow::new(&todos);
        for &i in &warm { s.step(i); }
        let mut out = Vec::new();
        let mut prefix = warm.clone();
        let complete = enumerate(&s, &active, stop_at_got, 1_000_000, &mut prefix, &mut out);
        let class = format!("{}.{}{}", if stride > 1 { "sampled" } else { "exhaustive" }, name, if complete { "" } else { ".truncated" });
        for (k, sch) in out.iter().enumerate() { if k % stride == 0 { cases.push((class.clone(), mk(&todos, sch))); } }
    };
    let mut exhaustive = |name: &str, todos: Vec<Vec<u64>>, warm: Vec<usize>, active: Vec<usize>, stop_at_got: bool, _limit: usize| {
        exhaustive_s(name, todos, warm, active, stop_at_got, 1)
    };
    exhaustive("get.same_address", vec![vec![5], vec![5]], vec![], vec![0, 1], true, 100000);
    exhaustive("get.different_addresses", vec![vec![5], vec![9]], vec![], vec![0, 1], true, 100000);
    exhaustive("get.different_addresses_rev", vec![vec![2000], vec![9]], vec![], vec![0, 1], true, 100000);
    //     a third thread has inserted 5 (and 7) before: hit/hit, hit/miss with everything incl. open and close
    let warm2: Vec<usize> = vec![2; 20];
    exhaustive("conn.hit_hit", vec![vec![5], vec![5], vec![5, 7]], warm2.clone(), vec![0, 1], false, 100000);
    exhaustive("get.hit_miss", vec![vec![5], vec![6], vec![5, 7]], warm2.clone(), vec![0, 1], true, 100000);
    if thorough {
        exhaustive("conn.same_address", vec![vec![5], vec![5]], vec![], vec![0, 1], false, 100000);
        exhaustive("conn.different_addresses", vec![vec![5], vec![9]], vec![], vec![0, 1], false, 100000);
        exhaustive("conn.hit_miss", vec![vec![5], vec![6], vec![5, 7]], warm2.clone(), vec![0, 1], false, 100000);
    }
    drop(exhaustive);
    if !thorough {
        exhaustive_s("conn.same_address", vec![vec![5], vec![5]], vec![], vec![0, 1], false, 7);
    }
    // (b)/(c) structured random: 2-4 threads, 1-3 connections each, few distinct addresses; the class names the
    //     branches of the proof's case split the schedule reaches (computed on the shadow)
    let n = if thorough { 4000 } else { 400 };
    for k in 0..n {
        let mut r = rng.fork();
        let nthreads = if k % 5 == 0 { 2 } else { r.range(3, 4) as usize };
        let pool: Vec<u64> = { let m = r.range(1, 4); (0..m).map(|_| if r.chance(1, 6) { 1000 + r.below(3) } else { r.below(12) }).collect() };
        let todos: Vec<Vec<u64>> = (0..nthreads).map(|_| (0..r.range(1, 3)).map(|_| *r.pick(&pool)).collect()).collect();
        let total: usize = todos.iter().map(|t| t.len() * 10).sum();
        let len = r.range(total as u64 / 2, total as u64 + 6) as usize;
        // bursts: a thread usually keeps running for a few steps (so that critical sections get entered and preempted)
        let mut sched = Vec::new();
        let mut cur = r.below(nthreads as u64) as usize;
        for _ in 0..len {
            if r.chance(2, 5) { cur = r.below(nthreads as u64) as usize; }
            sched.push(cur);
        }
        let mut s = Shadow::new(&todos);
        for &i in &sched { s.step(i); }
        let mut feats: Vec<&str> = s.feats.iter().copied().filter(|f| ["found_on_recheck", "blocked_on_mutex", "stale_first_load"].contains(f)).collect();
        feats.sort();
        let class = format!("random.{}threads{}{}", nthreads, if feats.is_empty() { "" } else { "." }, feats.join("+"));
        cases.push((class, mk(&todos, &sched)));
    }
    // (no malformed stream: the input is a schedule; a schedule naming a missing thread is rejected by check_case, code 9)
    cases
}

//------------ stream `stress`: real threads, no schedule ------------------------------------------------------
//
// The schedules stream stops threads at the registry's rendezvous points; what happens inside one step (a counter
// update, the lookup under the lock) is atomic there by assumption.  This stream lets real threads open and close
// many connections at once and looks at the end state only: an oracle-only negative test without a model.
// Since round-3 seed C36-3 it also runs the real RtrStream::new with per-connection setups that fail (keep-alive
// refused by the kernel) next to ones that succeed: a failed setup opens no connection and must leave no count.

fn gen_stress(_rng: &mut Rng, tier: &str) -> Vec<(String, Value)> {
    let mut v = Vec::new();
    let rounds = if tier == "thorough" { 12 } else { 4 };
    for (threads, conns, addrs) in [(2u64, 20_000u64, 1u64), (4, 20_000, 3), (8, 20_000, 3), (8, 2_000, 40), (16, 5_000, 7)] {
        for r in 0..rounds { v.push((format!("stress.t{}", threads), json!({"threads": threads, "conns": conns, "addrs": addrs, "round": r}))); }
    }
    v
}

fn run_stress(input: &Value) -> CaseOut {
    use std::net::{IpAddr, Ipv4Addr};
    use std::sync::{Arc, Barrier};
    let (threads, conns, addrs) = (input["threads"].as_u64().unwrap() as usize, input["conns"].as_u64().unwrap() as usize, input["addrs"].as_u64().unwrap() as usize);
    let metrics = Arc::new(routinator::metrics::RtrServerMetrics::new(true));
    let barrier = Arc::new(Barrier::new(threads));
    let handles: Vec<_> = (0..threads).map(|t| {
        let metrics = metrics.clone();
        let barrier = barrier.clone();
        std::thread::spawn(move || {
            // first contact of all threads with all addresses at the same moment, then open, then close all at once
            barrier.wait();
            let open: Vec<_> = (0..conns).map(|i| {
                let a = (t + i) % addrs;
                let client = metrics.get_client(IpAddr::V4(Ipv4Addr::new(192, 0, (a / 256) as u8, (a % 256) as u8)));
                client.update(|m| m.inc_current_connections());
                client
            }).collect();
            barrier.wait();
            for client in open { client.update(|m| m.dec_current_connections()); }
            // connections whose setup fails inside the real RtrStream::new (a keep-alive time the kernel refuses:
            // TCP_KEEPIDLE above 32767 s is EINVAL on Linux) open nothing, so they must leave no count behind;
            // interleaved with connections that are set up and closed normally
            let _guard = net().rt.enter();
            for i in 0..(conns / 200).max(8) {
                let a = (t + i) % addrs;
                let addr = SocketAddr::new(IpAddr::V4(Ipv4Addr::new(192, 0, (a / 256) as u8, (a % 256) as u8)), 4100 + t as u16);
                let keepalive = if i % 2 == 0 { Some(std::time::Duration::from_secs(40_000)) } else { None };
                let sock = tokio::net::TcpStream::from_std(net().server_side.try_clone().expect("dup")).expect("from_std");
                match Conn::new(sock, addr, keepalive, &metrics) {
                    Ok(conn) => { assert!(keepalive.is_none(), "the kernel accepted a keep-alive time of 40000 s"); drop(conn) }
                    Err(_) => assert!(keepalive.is_some(), "plain connection setup failed"),
                }
            }
        })
    }).collect();
    for h in handles { h.join().unwrap(); }
    let clients = metrics.clients().unwrap();
    let entries: Vec<u64> = clients.iter().map(|item| match item.0 { IpAddr::V4(a) => u32::from(a) as u64, IpAddr::V6(_) => 0 }).collect();
    let open_sum: u64 = clients.iter().map(|item| item.1.current_connections() as u64).sum();
    let open_global = metrics.global().current_connections() as u64;
    let obs = json!({"entries": entries.len(), "open_global": open_global, "open_sum": open_sum});
    let coq = format!("{{| s_threads := {}; s_conns := {}; s_addrs := {}; i_entries := {}; i_open_global := {}; i_open_sum := {} |}}",
        threads, conns, addrs, coq_nlist(entries.iter()), open_global, open_sum);
    CaseOut { obs, coq, nontrivial: threads > 1 }
}

fn main() {
    match std::env::var("C36_STREAM").as_deref() {
        Ok("stress") => drive(gen_stress, run_stress),
        _ => drive(gen, run),
    }
}
